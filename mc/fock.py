"""Boring second-quantisation reference model (NumPy only).

Spin-orbital order: alpha 0..n-1, then beta 0..n-1.  An N-particle basis state is the sorted
tuple S = (s1<...<sN) and means  a+_{s1} ... a+_{sN} |0>,  i.e. alpha-string x beta-string sign
convention.  A Slater determinant with coefficient matrix M (n_so x N), columns = orbitals,
|phi> = prod_k (sum_p M[p,k] a+_p) |0>  (k ascending, leftmost first)  has amplitude det(M[S,:]) on |S>.

Everything the checks compare the library against is built from  Space.op  (one-body operator
matrices) and determinant minors; the two routes are cross-checked by selftest against an
independent Jordan-Wigner construction on the full 2^n_so Fock space.
"""

import itertools
from functools import lru_cache

import numpy as np


class Space:
    def __init__(self, n_so, N):
        self.n_so = n_so
        self.N = N
        self.occ = list(itertools.combinations(range(n_so), N))
        self.index = {o: i for i, o in enumerate(self.occ)}
        self.dim = len(self.occ)
        self._cdc = {}

    def cdc(self, p, q):
        """Matrix of a+_p a_q (dim x dim), M[new, old]."""
        key = (p, q)
        if key in self._cdc:
            return self._cdc[key]
        M = np.zeros((self.dim, self.dim))
        for j, S in enumerate(self.occ):
            if q not in S:
                continue
            pos = S.index(q)
            sgn = (-1) ** pos
            S1 = S[:pos] + S[pos + 1:]
            if p in S1:
                continue
            k = sum(1 for s in S1 if s < p)
            sgn *= (-1) ** k
            S2 = S1[:k] + (p,) + S1[k:]
            M[self.index[S2], j] = sgn
        self._cdc[key] = M
        return M

    def op(self, T):
        """sum_PQ T[P,Q] a+_P a_Q for an (n_so x n_so) matrix T."""
        T = np.asarray(T)
        out = np.zeros((self.dim, self.dim), dtype=complex if np.iscomplexobj(T) else float)
        for p in range(self.n_so):
            for q in range(self.n_so):
                if T[p, q] != 0:
                    out = out + T[p, q] * self.cdc(p, q)
        return out

    def det_state(self, S):
        v = np.zeros(self.dim)
        v[self.index[tuple(sorted(S))]] = 1.0
        return v

    def sd_vector(self, M):
        """Amplitudes of the Slater determinant with coefficient matrix M (n_so x N)."""
        M = np.asarray(M)
        if self.N == 0:
            return np.ones(1, dtype=M.dtype)
        rows = np.array(self.occ)  # dim x N
        sub = M[rows, :]  # dim x N x N
        return np.linalg.det(sub)


@lru_cache(maxsize=None)
def space(n_so, N):
    return Space(n_so, N)


def subsets(n, k):
    return list(itertools.combinations(range(n), k))


def minors(U, k=None):
    """U: (W, n, k) -> (W, C(n,k)) all k-row minors in lexicographic subset order."""
    U = np.asarray(U)
    W, n, kk = U.shape
    if kk == 0:
        return np.ones((W, 1), dtype=U.dtype)
    rows = np.array(subsets(n, kk))  # C x k
    sub = U[:, rows, :]  # W x C x k x k
    return np.linalg.det(sub)


class Sector:
    """The (n_alpha, n_beta) sector of n spatial orbitals inside Space(2n, na+nb)."""

    def __init__(self, n, na, nb):
        self.n, self.na, self.nb = n, na, nb
        self.space = space(2 * n, na + nb)
        self.A = subsets(n, na)
        self.B = subsets(n, nb)
        idx = []
        for a in self.A:
            for b in self.B:
                idx.append(self.space.index[tuple(a) + tuple(n + x for x in b)])
        self.idx = np.array(idx)
        self.dim = len(idx)

    def restrict(self, Opfull):
        return Opfull[np.ix_(self.idx, self.idx)]

    def project(self, vfull):
        return np.asarray(vfull)[self.idx]

    def walker_vectors(self, U, V):
        """U: (W,n,na), V: (W,n,nb) complex -> (dim, W) amplitudes, (A major, B minor)."""
        ma = minors(U)  # W x CA
        mb = minors(V)  # W x CB
        W = ma.shape[0]
        return np.einsum("wa,wb->abw", ma, mb).reshape(-1, W)

    def op1(self, Ta, Tb=None):
        """sum_pq Ta_pq a+_pa a_qa + Tb_pq a+_pb a_qb restricted to the sector."""
        n = self.n
        if Tb is None:
            Tb = Ta
        T = np.zeros((2 * n, 2 * n), dtype=np.result_type(np.asarray(Ta).dtype, np.asarray(Tb).dtype, float))
        T[:n, :n] = Ta
        T[n:, n:] = Tb
        return self.restrict(self.space.op(T))

    def hamiltonian(self, h0, h1, chol):
        """H = h0 + sum h1[s] a+a + 1/2 sum_g (Lhat_g^2 - onebody(L_g L_g)).  chol: (g,n,n)."""
        h1 = np.asarray(h1)
        chol = np.asarray(chol).reshape(-1, self.n, self.n)
        H = h0 * np.eye(self.dim) + self.op1(h1[0], h1[1])
        for L in chol:
            Lh = self.op1(L)
            H = H + 0.5 * (Lh @ Lh - self.op1(L @ L))
        return H

    def chol_ops(self, chol):
        chol = np.asarray(chol).reshape(-1, self.n, self.n)
        return [self.op1(L) for L in chol]


@lru_cache(maxsize=None)
def sector(n, na, nb):
    return Sector(n, na, nb)


# ----------------------------------------------------------------------------- trial states (kets, full-space or sector)
def ket_uhf(n, na, nb, Ca, Cb):
    """|psi> = prod_k a+(Ca[:,k]) prod_l b+(Cb[:,l]) |0>   as a sector vector."""
    sec = sector(n, na, nb)
    return sec.walker_vectors(np.asarray(Ca)[None, :, :na], np.asarray(Cb)[None, :, :nb])[:, 0]


def ket_ghf(n, na, nb, C):
    """GHF product of the first na+nb columns of C (2n x N), projected on the (na,nb) sector."""
    sec = sector(n, na, nb)
    v = sec.space.sd_vector(np.asarray(C)[:, : na + nb])
    return sec.project(v)


def ket_noci(n, na, nb, coeffs, dets_up, dets_dn):
    sec = sector(n, na, nb)
    v = 0
    for c, du, dd in zip(coeffs, dets_up, dets_dn):
        v = v + c * ket_uhf(n, na, nb, du, dd)
    return v


def ket_multislater(n, na, nb, dets):
    """dets: list of (occ_a tuple of 0/1, occ_b tuple of 0/1, coeff)."""
    sec = sector(n, na, nb)
    v = np.zeros(sec.dim, dtype=complex)
    posA = {a: i for i, a in enumerate(sec.A)}
    posB = {b: i for i, b in enumerate(sec.B)}
    nB = len(sec.B)
    for oa, ob, c in dets:
        a = tuple(i for i, x in enumerate(oa) if x)
        b = tuple(i for i, x in enumerate(ob) if x)
        v[posA[a] * nB + posB[b]] += c
    return v


def _E(sp, n, a, i, spin):
    off = 0 if spin == 0 else n
    return sp.cdc(off + a, off + i)


def ket_cisd_restricted(n, nocc, ci1, ci2):
    """(1 + sum c_ia E_ai + 1/2 sum c_iajb E_ai E_bj)|0>, E_ai = sum_s a+_as a_is, |0> = doubly occ 0..nocc-1.
    ci1: (nocc, nvirt), ci2: (nocc, nvirt, nocc, nvirt) [i a j b], virtual index a -> orbital nocc+a."""
    sec = sector(n, nocc, nocc)
    sp = sec.space
    ref = sp.det_state(tuple(range(nocc)) + tuple(n + i for i in range(nocc)))
    nv = n - nocc
    E = {}
    for i in range(nocc):
        for a in range(nv):
            E[i, a] = _E(sp, n, nocc + a, i, 0) + _E(sp, n, nocc + a, i, 1)
    v = ref.astype(complex)
    for (i, a), Eia in E.items():
        if ci1[i, a] != 0:
            v = v + ci1[i, a] * (Eia @ ref)
    for (i, a), Eia in E.items():
        for (j, b), Ejb in E.items():
            c = ci2[i, a, j, b]
            if c != 0:
                v = v + 0.5 * c * (Eia @ (Ejb @ ref))
    return sec.project(v)


def ket_ucisd(n, na, nb, ci1A, ci1B, ci2AA, ci2AB, ci2BB, moB):
    """(1 + cA a+_a a_i + cB b'+_a b'_i + 1/4 cAA a+_a a_i a+_b a_j + 1/4 cBB ... + cAB a+_a a_i b'+_b b'_j)|0_A 0_B'>
    with beta operators in the (orthonormal) basis moB:  b'+_k = sum_p moB[p,k] b+_p."""
    sec = sector(n, na, nb)
    sp = sec.space
    moB = np.asarray(moB)
    moB_dual = np.linalg.inv(moB).T
    # reference: alpha occupies 0..na-1 ; beta occupies rotated orbitals moB[:, :nb]
    Ca = np.eye(n)[:, :na]
    ref_sec = ket_uhf(n, na, nb, Ca, moB[:, :nb])
    ref = np.zeros(sp.dim, dtype=complex)
    ref[sec.idx] = ref_sec
    nva, nvb = n - na, n - nb

    def EA(a, i):
        return sp.cdc(a, i)

    def EB(a, i):
        T = np.zeros((2 * n, 2 * n))
        # replace column i by column a of moB: creator along moB[:, a], annihilator along the DUAL vector of column i
        # (= moB[:, i] itself when moB is orthogonal)
        T[n:, n:] = np.outer(moB[:, a], moB_dual[:, i])
        return sp.op(T)

    EAs = {(i, a): EA(na + a, i) for i in range(na) for a in range(nva)}
    EBs = {(i, a): EB(nb + a, i) for i in range(nb) for a in range(nvb)}
    v = ref.copy()
    for (i, a), X in EAs.items():
        if ci1A[i, a] != 0:
            v = v + ci1A[i, a] * (X @ ref)
    for (i, a), X in EBs.items():
        if ci1B[i, a] != 0:
            v = v + ci1B[i, a] * (X @ ref)
    for (i, a), X in EAs.items():
        for (j, b), Y in EAs.items():
            c = ci2AA[i, a, j, b]
            if c != 0:
                v = v + 0.25 * c * (X @ (Y @ ref))
    for (i, a), X in EBs.items():
        for (j, b), Y in EBs.items():
            c = ci2BB[i, a, j, b]
            if c != 0:
                v = v + 0.25 * c * (X @ (Y @ ref))
    for (i, a), X in EAs.items():
        for (j, b), Y in EBs.items():
            c = ci2AB[i, a, j, b]
            if c != 0:
                v = v + c * (X @ (Y @ ref))
    return sec.project(v)


def ket_gcisd(n, na, nb, ci1, ci2, C):
    """(1 + c_ia A+_a A_i + 1/4 c_iajb A+_a A_i A+_b A_j)|0>, A+_k = sum_P C[P,k] a+_P, |0> = first N columns of C
    (C orthogonal 2n x 2n); projected onto the (na,nb) sector."""
    sec = sector(n, na, nb)
    sp = sec.space
    N = na + nb
    C = np.asarray(C)
    ref = sp.sd_vector(C[:, :N]).astype(complex)
    nv = 2 * n - N

    def EG(a, i):
        return sp.op(np.outer(C[:, a], C[:, i]))

    Es = {(i, a): EG(N + a, i) for i in range(N) for a in range(nv)}
    v = ref.copy()
    for (i, a), X in Es.items():
        if ci1[i, a] != 0:
            v = v + ci1[i, a] * (X @ ref)
    for (i, a), X in Es.items():
        for (j, b), Y in Es.items():
            c = ci2[i, a, j, b]
            if c != 0:
                v = v + 0.25 * c * (X @ (Y @ ref))
    return sec.project(v)


def thc_ci2(Xocc, Xvirt, VKL):
    """c_iajb = sum_PQ Xocc[P,i] Xvirt[P,a] V[P,Q] Xocc[Q,j] Xvirt[Q,b]."""
    return np.einsum("Pi,Pa,PQ,Qj,Qb->iajb", Xocc, Xvirt, VKL, Xocc, Xvirt)


def rdm1(ket, sec):
    """<psi|a+_p a_q|psi>/<psi|psi> per spin, shape (2, n, n) with [s,p,q]."""
    n = sec.n
    nrm = np.vdot(ket, ket)
    out = np.zeros((2, n, n), dtype=complex)
    for s in range(2):
        for p in range(n):
            for q in range(n):
                T = np.zeros((n, n))
                T[p, q] = 1.0
                O = sec.op1(T if s == 0 else np.zeros((n, n)), T if s == 1 else np.zeros((n, n)))
                out[s, p, q] = np.vdot(ket, O @ ket) / nrm
    return out


def rdm1_full(n, N, ket_full):
    """Spin-diagonal blocks of <psi|a+_P a_Q|psi>/<psi|psi> for a state in the full N-particle space
    (needed for GHF states, which are not confined to one (n_alpha, n_beta) sector)."""
    sp = space(2 * n, N)
    nrm = np.vdot(ket_full, ket_full)
    out = np.zeros((2, n, n), dtype=complex)
    for s in range(2):
        for p in range(n):
            for q in range(n):
                out[s, p, q] = np.vdot(ket_full, sp.cdc(s * n + p, s * n + q) @ ket_full) / nrm
    return out


# ----------------------------------------------------------------------------- independent JW construction (selftest only)
def jw_creators(n_so):
    I2 = np.eye(2)
    Z = np.diag([1.0, -1.0])
    sp = np.array([[0.0, 0.0], [1.0, 0.0]])  # |1><0|
    cre = []
    for p in range(n_so):
        mats = [Z] * p + [sp] + [I2] * (n_so - p - 1)
        M = np.array([[1.0]])
        for m in mats:
            M = np.kron(M, m)
        cre.append(M)
    return cre


def selftest(verbose=False):
    rng = np.random.default_rng(7)
    errs = {}
    for n_so, N in [(4, 2), (5, 3), (6, 3)]:
        cre = jw_creators(n_so)
        ann = [c.T for c in cre]
        D = 2 ** n_so
        vac = np.zeros(D)
        vac[0] = 1.0
        # CAR
        car = 0.0
        for p in range(n_so):
            for q in range(n_so):
                car = max(car, np.abs(ann[p] @ cre[q] + cre[q] @ ann[p] - (p == q) * np.eye(D)).max())
                car = max(car, np.abs(cre[p] @ cre[q] + cre[q] @ cre[p]).max())
        errs["car_%d" % n_so] = car
        sp_ = Space(n_so, N)
        # basis vectors e_S = a+_{s1}...a+_{sN}|0>
        basis = []
        for S in sp_.occ:
            v = vac.copy()
            for s in reversed(S):
                v = cre[s] @ v
            basis.append(v)
        Bm = np.array(basis).T  # D x dim
        errs["basis_orth_%d_%d" % (n_so, N)] = np.abs(Bm.T @ Bm - np.eye(sp_.dim)).max()
        # cdc matrices
        e = 0.0
        for p in range(n_so):
            for q in range(n_so):
                ref = Bm.T @ (cre[p] @ ann[q]) @ Bm
                e = max(e, np.abs(ref - sp_.cdc(p, q)).max())
        errs["cdc_%d_%d" % (n_so, N)] = e
        # Slater determinant by operator application vs minors
        M = rng.normal(size=(n_so, N)) + 1j * rng.normal(size=(n_so, N))
        v = vac.astype(complex)
        for k in reversed(range(N)):
            op = sum(M[p, k] * cre[p] for p in range(n_so))
            v = op @ v
        errs["sd_%d_%d" % (n_so, N)] = np.abs(Bm.T @ v - sp_.sd_vector(M)).max()
    # sector routes: walker_vectors vs sd_vector of the block-diagonal matrix; N operator; hermiticity
    n, na, nb = 3, 2, 1
    sec = sector(n, na, nb)
    U = rng.normal(size=(4, n, na)) + 1j * rng.normal(size=(4, n, na))
    V = rng.normal(size=(4, n, nb)) + 1j * rng.normal(size=(4, n, nb))
    Phi = sec.walker_vectors(U, V)
    e = 0.0
    for w in range(4):
        M = np.zeros((2 * n, na + nb), dtype=complex)
        M[:n, :na] = U[w]
        M[n:, na:] = V[w]
        e = max(e, np.abs(sec.project(sec.space.sd_vector(M)) - Phi[:, w]).max())
    errs["sector_walker"] = e
    h1 = rng.normal(size=(2, n, n))
    h1 = h1 + h1.transpose(0, 2, 1)
    L = rng.normal(size=(2, n, n))
    L = L + L.transpose(0, 2, 1)
    H = sec.hamiltonian(0.3, h1, L)
    errs["herm"] = np.abs(H - H.T.conj()).max()
    Nop = sec.op1(np.eye(n))
    errs["number"] = np.abs(Nop - (na + nb) * np.eye(sec.dim)).max()
    # two-body term against the explicit normal-ordered quartic form on the JW space
    cre = jw_creators(2 * n)
    ann = [c.T for c in cre]
    D = 2 ** (2 * n)
    Hq = 0.3 * np.eye(D)
    for s in range(2):
        for p in range(n):
            for q in range(n):
                Hq = Hq + h1[s, p, q] * cre[s * n + p] @ ann[s * n + q]
    for g in range(L.shape[0]):
        for s in range(2):
            for t in range(2):
                for p in range(n):
                    for q in range(n):
                        if L[g, p, q] == 0:
                            continue
                        for r in range(n):
                            for u in range(n):
                                Hq = Hq + 0.5 * L[g, p, q] * L[g, r, u] * (
                                    cre[s * n + p] @ cre[t * n + r] @ ann[t * n + u] @ ann[s * n + q])
    sp_ = sec.space
    basis = []
    vac = np.zeros(D)
    vac[0] = 1.0
    for S in sp_.occ:
        v = vac.copy()
        for s in reversed(S):
            v = cre[s] @ v
        basis.append(v)
    Bm = np.array(basis).T
    errs["H_quartic"] = np.abs(sec.restrict(Bm.T @ Hq @ Bm) - H).max()
    ok = all(v < 1e-10 for v in errs.values())
    if verbose or not ok:
        for k, v in errs.items():
            print("  fock selftest %-18s %.2e" % (k, v))
    return ok, errs
