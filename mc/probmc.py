"""probmc: exact expectations by enumerating every branch of a finite random experiment with its weight.

Here: tensor Gauss-Hermite rules for the Gaussian auxiliary fields (every node is played as one walker),
and NumPy replicas of the propagation algebra used as step oracles."""

import itertools
import math

import numpy as np
from scipy.linalg import expm


def gh_rule(m, nfields):
    """Tensor Gauss-Hermite rule for the standard normal density: fields (m^nfields, nfields), weights."""
    x, w = np.polynomial.hermite_e.hermegauss(m)
    w = w / w.sum()
    pts = np.array(list(itertools.product(range(m), repeat=nfields)))
    fields = x[pts]
    weights = np.prod(w[pts], axis=1)
    return fields, weights


def taylor_exp_apply(vhs, walker, n_terms):
    """sum_{k<n_terms} vhs^k/k! walker  (the library's truncated exponential, 1 + ... + vhs^(n_terms-1)/(n_terms-1)!)."""
    out = walker.copy()
    cur = walker.copy()
    for k in range(1, n_terms):
        cur = vhs @ cur
        out = out + cur / math.factorial(k)
    return out


def mf_quantities(h0, h1, chol, rdm1, dt):
    """Mean-field shift algebra written out independently: m_g = sum_pq L^g_pq (rdm1_up+rdm1_dn)_pq,
    one-body h_mod[s] = h1[s] - 1/2 sum_g L_g L_g + sum_g m_g L_g, constant c = h0 - 1/2 sum m_g^2."""
    n = chol.shape[1]
    dm = rdm1[0] + rdm1[1]
    m = np.array([np.sum(L * dm) for L in chol])
    v0 = 0.5 * sum(L @ L for L in chol) if len(chol) else np.zeros((n, n))
    v1 = sum(mg * L for mg, L in zip(m, chol)) if len(chol) else np.zeros((n, n))
    hmod = np.array([h1[0] - v0 + v1, h1[1] - v0 + v1])
    const = h0 - 0.5 * np.sum(m ** 2)
    return m, hmod, const


def ref_step_unrestricted(Wa, Wb, fields_shifted, hmod, chol, dt, n_terms):
    """Apply exp(-dt hmod/2) T_n(i sqrt(dt) sum_g x_g L_g) exp(-dt hmod/2) to every walker (explicit matrices)."""
    ea, eb = expm(-dt * hmod[0] / 2), expm(-dt * hmod[1] / 2)
    outa, outb = [], []
    for w in range(Wa.shape[0]):
        vhs = 1j * np.sqrt(dt) * np.einsum("g,gpq->pq", fields_shifted[w], chol)
        outa.append(ea @ taylor_exp_apply(vhs, ea @ Wa[w], n_terms))
        outb.append(eb @ taylor_exp_apply(vhs, eb @ Wb[w], n_terms))
    return np.array(outa), np.array(outb)


def phaseless_factor(I, theta):
    """The documented phaseless weight factor: |I| max(0,cos theta) with NaN -> 0, < 1e-3 -> 0, > 100 -> 0."""
    f = np.abs(I) * np.cos(theta)
    f = np.where(np.isnan(f), 0.0, f)
    f = np.where(f < 1e-3, 0.0, f)
    f = np.where(f > 100.0, 0.0, f)
    return f
