"""Finite alphabets: letter catalogues, product grids of walkers, orthogonal frames, small Hamiltonians."""

import itertools

import numpy as np

# Non-real letters (a stray conj() is then visible).  The k x k reference block gets strictly
# diagonally dominant letters so every grid point has an invertible reference block.
_DIAG = [2.0 + 0.3j, 2.6 - 0.5j, 1.7 + 0.9j]
_OFF = [0.35 + 0.2j, -0.25 + 0.4j, 0.1 - 0.45j]
_VIRT = [0.8 - 0.3j, -0.5 + 0.7j, 0.3 + 0.9j]


def letters(seed, nlet):
    """Letter sets for a given VERIF_SEED: the seed rotates / rescales the catalogue, it never selects
    which grid points are visited."""
    ph = np.exp(0.07j * (seed % 11))
    sc = 1.0 + 0.02 * (seed % 5)
    r = seed % 3
    rot = lambda L: [L[(i + r) % 3] for i in range(3)]
    d = [x * ph * sc for x in rot(_DIAG)][:nlet]
    o = [x * np.conj(ph) for x in rot(_OFF)][:nlet]
    v = [x * ph * ph * sc for x in rot(_VIRT)][:nlet]
    return d, o, v


def grid_digits(n_entries, nlet, cap_entries, seed):
    """All words over {0..nlet-1} on the free entries; entries beyond the cap are frozen at letter 0.
    Returns (digits[P, n_entries], free_entries, capped: bool)."""
    if n_entries <= cap_entries:
        free = list(range(n_entries))
        capped = False
    else:
        rng = np.random.default_rng(1000 + seed)
        free = sorted(rng.permutation(n_entries)[:cap_entries].tolist())
        capped = True
    P = nlet ** len(free)
    idx = np.arange(P)
    digits = np.zeros((P, n_entries), dtype=np.int8)
    for t, e in enumerate(free):
        digits[:, e] = (idx // (nlet ** t)) % nlet
    return digits, free, capped


def block_from_digits(digits, n, k, seed, nlet):
    """Map digits (P, n*k) to a complex block G (P, n, k): diag letters on the k x k reference block
    diagonal, off letters elsewhere in it, virt letters below."""
    d, o, v = letters(seed, nlet)
    P = digits.shape[0]
    G = np.zeros((P, n, k), dtype=complex)
    d, o, v = np.array(d), np.array(o), np.array(v)
    for r in range(n):
        for c in range(k):
            dig = digits[:, r * k + c]
            if r < k:
                G[:, r, c] = d[dig] if r == c else o[dig]
            else:
                G[:, r, c] = v[dig]
    return G


def walker_grid(n, na, nb, seed, restricted=False, cap=None):
    """Product grid of walkers in the *frame* basis.
    unrestricted: every entry of (n x na) and (n x nb) ranges over 2 letters (degree-1 per entry);
    restricted: every entry of (n x na) ranges over 3 letters (degree-2 per entry; nb <= na uses the
    leading nb columns).  Returns dict(Ga, Gb or None, P, capped, nlet, free)."""
    if restricted:
        nlet = 3
        cap_entries = cap if cap is not None else 9
        E = n * na
        digits, free, capped = grid_digits(E, nlet, cap_entries, seed)
        Ga = block_from_digits(digits, n, na, seed, nlet)
        return dict(Ga=Ga, Gb=None, P=digits.shape[0], capped=capped, nlet=nlet, free=free, entries=E)
    nlet = 2
    cap_entries = cap if cap is not None else 16
    Ea, Eb = n * na, n * nb
    digits, free, capped = grid_digits(Ea + Eb, nlet, cap_entries, seed)
    Ga = block_from_digits(digits[:, :Ea], n, na, seed, nlet)
    Gb = block_from_digits(digits[:, Ea:], n, nb, seed + 1, nlet)
    return dict(Ga=Ga, Gb=Gb, P=digits.shape[0], capped=capped, nlet=nlet, free=free, entries=Ea + Eb)


def givens(n, i, j, th):
    Q = np.eye(n)
    c, s = np.cos(th), np.sin(th)
    Q[i, i] = c
    Q[j, j] = c
    Q[i, j] = -s
    Q[j, i] = s
    return Q


def frame(n, seed, salt=0):
    """A generic real orthogonal n x n matrix as a product of Givens rotations from a finite angle alphabet."""
    angles = [0.3, np.pi / 3, 0.9, -0.5, 1.2, np.pi / 5]
    Q = np.eye(n)
    t = seed * 7 + salt * 3
    for i in range(n):
        for j in range(i + 1, n):
            Q = Q @ givens(n, i, j, angles[t % len(angles)])
            t += 1
    return Q


def sym_basis(n):
    """E_pq + E_qp, p <= q."""
    out = []
    for p in range(n):
        for q in range(p, n):
            M = np.zeros((n, n))
            M[p, q] += 1.0
            M[q, p] += 1.0
            if p == q:
                M[p, p] = 1.0
            out.append(((p, q), M))
    return out


def dense_sym(n, seed, salt=0, scale=1.0):
    rng = np.random.default_rng(4242 + 17 * seed + salt)
    M = rng.normal(size=(n, n))
    return scale * (M + M.T) / 2


def small_ham(n, nchol, seed, spin_dependent=False, scale=0.4):
    """A generic small Hamiltonian (h0, h1[2,n,n] symmetric, chol[nchol,n,n] symmetric)."""
    h0 = 0.37 + 0.01 * seed
    ha = dense_sym(n, seed, 1)
    hb = dense_sym(n, seed, 2) if spin_dependent else ha
    chol = np.array([dense_sym(n, seed, 10 + g, scale) for g in range(nchol)])
    return h0, np.array([ha, hb]), chol


def divisors(P, limit=4):
    ds = [d for d in (1, 2, 3, 4, 8, 16, P) if d <= P and P % d == 0]
    out = []
    for d in ds:
        if d not in out:
            out.append(d)
    return out[: limit + 1]


def sizes(max_n, min_nb=0, closed_only=False, min_n=2):
    out = []
    for n in range(min_n, max_n + 1):
        for na in range(1, n + 1):
            for nb in range(min_nb, na + 1):
                if closed_only and na != nb:
                    continue
                out.append((n, na, nb))
    return out
