"""Common machinery: run context, evidence, known findings, replays, process pool.

Every check module under mc/checks exposes

    ID          property id
    TECHNIQUE   short text
    def run(ctx)            -- enumerate the bounded space, record coverage / violations on ctx
    def replay(case) -> (violates: bool, detail: dict)   -- re-execute ONE recorded case, no explorer

Worker functions (module level, picklable by name) take one job dict and return
``Result().to_dict()``; ``ctx.pmap`` merges them.
"""

from __future__ import annotations

import hashlib
import json
import os
import sys
import time
import traceback
from concurrent.futures import ProcessPoolExecutor, as_completed
import multiprocessing as mp

import numpy as np

ROOT = os.path.dirname(os.path.dirname(os.path.abspath(__file__)))
KNOWN_FILE = os.path.join(ROOT, "known_findings.json")
# mutation experiments (VERIF_REPO pointing at a scratch worktree) must not clobber the committed evidence
_ALT = os.environ.get("VERIF_REPO", "/repo") != "/repo"
OUT = os.path.join(ROOT, "scratch", "alt_" + os.path.basename(os.environ.get("VERIF_REPO", "x").rstrip("/"))) if _ALT else ROOT
MAX_SAMPLES = 6
MAX_VIOL_PER_SIG = 3


# ----------------------------------------------------------------------------- encoding
def enc(x):
    """JSON-encode numpy / jax arrays, complex numbers, tuples (lossless for float64)."""
    if isinstance(x, dict):
        return {str(k): enc(v) for k, v in x.items()}
    if isinstance(x, (list, tuple)):
        return [enc(v) for v in x]
    if isinstance(x, (str, bool)) or x is None:
        return x
    if isinstance(x, (int, np.integer)):
        return int(x)
    if isinstance(x, (float, np.floating)):
        f = float(x)
        if f != f or f in (float("inf"), float("-inf")):
            return {"__f__": repr(f)}
        return f
    if isinstance(x, (complex, np.complexfloating)):
        return {"__c__": [enc(float(x.real)), enc(float(x.imag))]}
    a = np.asarray(x)
    if a.dtype.kind == "c":
        return {"__ac__": [enc(a.real), enc(a.imag)]}
    if a.dtype.kind in "fiub":
        if a.ndim == 0:
            return enc(a.item())
        return {"__a__": a.tolist() if np.all(np.isfinite(a)) else [enc(v) for v in a.tolist()],
                "dtype": str(a.dtype)}
    return repr(x)


def dec(x):
    if isinstance(x, dict):
        if "__f__" in x:
            return float(x["__f__"])
        if "__c__" in x:
            return complex(dec(x["__c__"][0]), dec(x["__c__"][1]))
        if "__ac__" in x:
            return np.asarray(dec(x["__ac__"][0]), dtype=float) + 1j * np.asarray(dec(x["__ac__"][1]), dtype=float)
        if "__a__" in x:
            return np.asarray(dec(x["__a__"]), dtype=x.get("dtype", "float64"))
        return {k: dec(v) for k, v in x.items()}
    if isinstance(x, list):
        return [dec(v) for v in x]
    return x


def digest(obj) -> str:
    return hashlib.sha1(json.dumps(enc(obj), sort_keys=True).encode()).hexdigest()[:16]


# ----------------------------------------------------------------------------- results
class Result:
    """Coverage and violation accumulator; used in workers and (as base) in the main context."""

    def __init__(self):
        self.states = 0
        self.transitions = 0
        self.traces = 0
        self.evaluations = 0
        self.distinct = set()
        self.samples = []
        self.guards = {}
        self.violations = []
        self.notes = []
        self.exhaustive = True
        self.caps = []

    def add(self, states=0, transitions=0, evaluations=0, traces=0):
        self.states += int(states)
        self.transitions += int(transitions)
        self.evaluations += int(evaluations)
        self.traces += int(traces)

    def nontrivial(self, keys):
        """Register distinct non-trivial cases by hashable key (ints/strings/tuples)."""
        if isinstance(keys, (str, int, tuple)):
            keys = [keys]
        for k in keys:
            self.distinct.add(hash(k) if not isinstance(k, int) else k)

    def nontrivial_values(self, tag, values, decimals=9):
        """Distinct non-trivial outcomes from a numeric array: rounded values that are finite, non-zero."""
        v = np.asarray(values).ravel()
        v = v[np.isfinite(v) & (np.abs(v) > 1e-14)]
        if v.size == 0:
            return
        if v.dtype.kind == "c":
            r = np.round(v.real, decimals) + 1j * np.round(v.imag, decimals)
        else:
            r = np.round(v, decimals)
        u = np.unique(r)
        t = hash(tag)
        for z in u.tolist():
            self.distinct.add(hash((t, z)))

    def sample(self, obj):
        if len(self.samples) < MAX_SAMPLES:
            self.samples.append(enc(obj))

    def guard(self, name, n=1):
        self.guards[name] = self.guards.get(name, 0) + int(n)

    def note(self, text):
        if text not in self.notes:
            self.notes.append(text)

    def cap(self, text):
        self.exhaustive = False
        if text not in self.caps:
            self.caps.append(text)

    def violation(self, signature, case, detail=None):
        n = sum(1 for v in self.violations if v["signature"] == signature)
        if n < MAX_VIOL_PER_SIG:
            self.violations.append({"signature": signature, "case": enc(case), "detail": enc(detail or {})})
        else:
            self.guards["violations_suppressed:" + signature] = self.guards.get("violations_suppressed:" + signature, 0) + 1

    def to_dict(self):
        return dict(states=self.states, transitions=self.transitions, traces=self.traces,
                    evaluations=self.evaluations, distinct=list(self.distinct), samples=self.samples,
                    guards=self.guards, violations=self.violations, notes=self.notes,
                    exhaustive=self.exhaustive, caps=self.caps)

    def merge(self, d):
        if isinstance(d, Result):
            d = d.to_dict()
        self.states += d["states"]
        self.transitions += d["transitions"]
        self.traces += d["traces"]
        self.evaluations += d["evaluations"]
        self.distinct.update(d["distinct"])
        for s in d["samples"]:
            if len(self.samples) < MAX_SAMPLES:
                self.samples.append(s)
        for k, v in d["guards"].items():
            self.guards[k] = self.guards.get(k, 0) + v
        for v in d["violations"]:
            n = sum(1 for w in self.violations if w["signature"] == v["signature"])
            if n < MAX_VIOL_PER_SIG:
                self.violations.append(v)
        for n in d["notes"]:
            self.note(n)
        if not d["exhaustive"]:
            self.exhaustive = False
        for c in d["caps"]:
            if c not in self.caps:
                self.caps.append(c)


# ----------------------------------------------------------------------------- pool
def _die_with_parent(ppid):
    import threading

    def watch():
        while True:
            time.sleep(2.0)
            if os.getppid() != ppid:
                os._exit(1)

    threading.Thread(target=watch, daemon=True).start()


def _worker_init():
    _die_with_parent(os.getppid())  # a killed check must not leave spinning workers behind
    os.environ.setdefault("JAX_ENABLE_X64", "1")
    os.environ.setdefault("JAX_PLATFORMS", "cpu")
    # XLA sizes its intra-op thread pools from the schedulable CPUs when the backend is created, and
    # 16 workers x 16 threads thrash.  So: restrict to one core, create the backend, then let every
    # thread of this process roam again (pool sizes stay 1, nothing stays pinned).
    try:
        cpus = sorted(os.sched_getaffinity(0))
        if len(cpus) > 1:
            os.sched_setaffinity(0, {cpus[os.getpid() % len(cpus)]})
            import jax

            jax.devices()
            for tid in os.listdir("/proc/self/task"):
                try:
                    os.sched_setaffinity(int(tid), set(cpus))
                except Exception:
                    pass
    except Exception:
        pass


def _run_job(modname, fname, job):
    import importlib

    t0 = time.time()
    try:
        mod = importlib.import_module(modname)
        out = getattr(mod, fname)(job)
        if isinstance(out, Result):
            out = out.to_dict()
        out["_wall"] = time.time() - t0
        out["_job"] = repr(job)[:200]
        return out
    except Exception:  # a crashing worker is a harness error, never a silent pass
        return {"_error": traceback.format_exc(), "_job": repr(job)[:500]}


def _proc_entry(conn, modname, fname, job):
    _worker_init()
    try:
        conn.send(_run_job(modname, fname, job))
    finally:
        conn.close()


class HarnessError(Exception):
    pass


# ----------------------------------------------------------------------------- context
class Ctx(Result):
    def __init__(self, pid, tier, seed, module):
        super().__init__()
        self.pid = pid
        self.tier = tier
        self.seed = seed
        self.module = module
        self.t0 = time.time()
        self.assumptions = []
        self.rule = ""
        self.required_guards = []
        self.workers = int(os.environ.get("VERIF_WORKERS", "16"))

    @property
    def thorough(self):
        return self.tier == "thorough"

    def assume(self, text):
        if text not in self.assumptions:
            self.assumptions.append(text)

    def require_guard(self, *names):
        for n in names:
            if n not in self.required_guards:
                self.required_guards.append(n)

    def pmap(self, fn, jobs, workers=None, tasks_per_child=None):
        """Run module-level function ``fn`` over ``jobs`` in a spawn pool; merge the results."""
        jobs = list(jobs)
        if not jobs:
            return
        modname, fname = fn.__module__, fn.__name__
        nw = max(1, min(workers or self.workers, len(jobs)))
        if nw == 1 or os.environ.get("VERIF_SERIAL"):
            for j in jobs:
                self._take(_run_job(modname, fname, j))
            return
        ctx = mp.get_context("spawn")
        if not tasks_per_child:
            with ProcessPoolExecutor(max_workers=nw, mp_context=ctx, initializer=_worker_init) as ex:
                futs = [ex.submit(_run_job, modname, fname, j) for j in jobs]
                for f in as_completed(futs):
                    self._take(f.result())
            return
        # Fresh process per job (at most nw alive): every XLA compilation maps executable memory that is never
        # returned, and a long-lived worker eventually hits the process's map limit ("Cannot allocate memory").
        # (ProcessPoolExecutor's own max_tasks_per_child dead-locks on Python 3.12.1; a pool per round of jobs
        # leaves the cores idle behind the slowest job of each round.)
        from multiprocessing.connection import wait as conn_wait

        pending = list(jobs)
        running = {}
        while pending or running:
            while pending and len(running) < nw:
                j = pending.pop(0)
                rd, wr = ctx.Pipe(duplex=False)
                p = ctx.Process(target=_proc_entry, args=(wr, modname, fname, j), daemon=True)
                p.start()
                wr.close()
                running[rd] = (p, j)
            for rd in conn_wait(list(running), timeout=5.0):
                p, j = running.pop(rd)
                try:
                    out = rd.recv()
                except EOFError:
                    out = {"_error": "worker process died without a result (exit code %r)" % p.exitcode, "_job": repr(j)[:500]}
                rd.close()
                p.join()
                self._take(out)

    def _take(self, out):
        if "_error" in out:
            raise HarnessError("worker failed on job %s\n%s" % (out.get("_job"), out["_error"]))
        if os.environ.get("VERIF_TIMING"):
            print("  job %.1fs %s" % (out.get("_wall", 0), out.get("_job", "")), flush=True)
        self.merge(out)

    # ------------------------------------------------------------------ finishing
    def finish(self):
        known = load_known()
        by_sig = {}
        for v in self.violations:
            by_sig.setdefault(v["signature"], []).append(v)
        new, known_hits = [], []
        for sig, vs in by_sig.items():
            k = [e for e in known if e["property"] == self.pid and e["signature"] == sig and e["status"] == "known"]
            if k:
                known_hits.append((sig, k[0], vs))
            else:
                new.append((sig, vs))
        if not new:  # with a violation in hand the run is a verdict; an emptied guarded branch is then part of it
            for g in self.required_guards:
                if self.guards.get(g, 0) <= 0:
                    raise HarnessError("vacuity guard '%s' is zero: the exploration did not exercise what it claims" % g)
        rc = 0
        for sig, k, vs in known_hits:
            print("KNOWN-FINDING: property=%s %s -- %s" % (self.pid, sig, k.get("what", "")))
        replay_paths = []
        for sig, vs in new:
            v = vs[0]
            path = write_replay(self.pid, sig, v)
            replay_paths.append(path)
            self._confirm_replay(v)
            print("VIOLATION property=%s replay=%s" % (self.pid, path))
            print("  signature: %s" % sig)
            print("  detail: %s" % json.dumps(v["detail"])[:600])
            rc = 1
        self.write_evidence(len(new), [s for s, _, _ in known_hits])
        wall = time.time() - self.t0
        print("%s tier=%s seed=%d states=%d transitions=%d evaluations=%d distinct_nontrivial=%d "
              "violations=%d known=%d exhaustive=%s wall=%.1fs" % (
                  self.pid, self.tier, self.seed, self.states, self.transitions, self.evaluations,
                  len(self.distinct), len(new), len(known_hits), self.exhaustive, wall))
        if self.guards:
            print("  guards: " + ", ".join("%s=%d" % kv for kv in sorted(self.guards.items())))
        return rc

    def _confirm_replay(self, v):
        """A violation is only reported after its single-case replay reproduces it twice, identically."""
        rp = getattr(self.module, "replay", None)
        if rp is None:
            return
        case = dec(v["case"])
        a = rp(case)
        b = rp(case)
        same = getattr(self.module, "replay_equal", None)
        if same is None:
            same = lambda x, y: json.dumps(enc(x[1]), sort_keys=True) == json.dumps(enc(y[1]), sort_keys=True)
        if not same(a, b):
            raise HarnessError("replay of %s is not deterministic" % v["signature"])
        if not a[0]:
            # The explorer observed the violation on the real code; the plain single-case driver did not. Both are
            # deterministic (the replay was just run twice with identical results), so this is a history the single
            # case does not carry (e.g. a cache that only goes stale on a second build), not flakiness: the
            # violation stands and the limitation of the replay file is said out loud.
            print("REPLAY-NOTE %s: the single-case replay driver does not reproduce this violation (history-dependent); "
                  "re-run the check itself to see it" % v["signature"])

    def write_evidence(self, n_viol, known_sigs):
        cov = {
            "states": max(self.states, 0),
            "transitions": max(self.transitions, 0),
            "traces_validated_against_impl": self.traces,
            "evaluations": self.evaluations,
            "distinct_nontrivial": len(self.distinct),
            "rule": self.rule,
            "samples": self.samples,
            "exhaustive": bool(self.exhaustive),
            "guards": self.guards,
            "caps_hit": self.caps,
            "notes": self.notes,
            "known_findings_observed": known_sigs,
        }
        ev = {
            "property_id": self.pid,
            "tier": self.tier,
            "seed": int(self.seed),
            "level": "model_checking",
            "coverage": cov,
            "assumptions": self.assumptions,
            "wall_s": round(time.time() - self.t0, 3),
            "violations": int(n_viol),
        }
        os.makedirs(os.path.join(OUT, "evidence"), exist_ok=True)
        path = os.path.join(OUT, "evidence", "%s.json" % self.pid)
        tmp = path + ".tmp"
        with open(tmp, "w") as f:
            json.dump(ev, f, indent=1)
        os.replace(tmp, path)


def load_known():
    if not os.path.exists(KNOWN_FILE):
        return []
    with open(KNOWN_FILE) as f:
        return json.load(f)["findings"]


def write_replay(pid, sig, v):
    d = os.path.join(OUT, "replays", pid)
    os.makedirs(d, exist_ok=True)
    path = os.path.join(d, "%s.json" % digest([sig, v["case"]]))
    with open(path, "w") as f:
        json.dump({"property": pid, "signature": sig, "case": v["case"], "detail": v["detail"]}, f, indent=1)
    return path


def relerr(a, b, floor=1.0):
    """max |a-b| / max(floor, |b|) elementwise; NaN/inf mismatches give inf."""
    a = np.asarray(a)
    b = np.asarray(b)
    bad = ~(np.isfinite(a) & np.isfinite(b))
    d = np.abs(a - b) / np.maximum(floor, np.abs(b))
    d = np.where(bad, np.inf, d)
    return d
