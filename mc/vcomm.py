"""vcomm: a virtual MPI communicator for running R real rank bodies inside one process.

``World(size, sched)`` owns the in-memory mailboxes (one *slot* per collective, matched by the per-rank
sequence number of the call) and ``VComm(rank, world)`` is what a rank body receives in place of
``MPI.COMM_WORLD``.  It implements the part of the mpi4py interface the library uses --
``Get_size/Get_rank/Barrier/Gather/Scatter/Reduce/Bcast/bcast`` -- with the buffer semantics of
mpi4py's upper-case methods (NumPy buffers, rank-ordered concatenation, ``root`` honoured,
``[buffer, datatype]`` pairs accepted).

Every communicator call is decomposed into *transitions* ``(label, enabled(), fire())``:

    Gather   non-root: send (always enabled) [+ wait-collected when the send is a rendezvous]
             root    : collect (enabled once every non-root rank has deposited)
    Reduce   as Gather, the root combines in rank order
    Scatter  root    : send [+ wait-taken when rendezvous];  non-root: take (enabled once the root sent)
    Bcast/bcast  as Scatter
    Barrier  arrive (always enabled), leave (enabled once every rank arrived)

and handed to the world's *scheduler*, which decides when a transition fires:

* ``FreeSched`` -- ranks are free-running threads, a transition waits on a condition variable
  (used for the "no hidden shared state" cross-check and for plain one-schedule runs);
* ``mc.schedmc`` -- a controller hands a baton to one rank at a time and explores every order.

What would be a hang or corrupted buffers under real MPI is reported as a *violation* of the run:
``collective-mismatch`` (the k-th collective of two ranks differs in kind or root),
``buffer-mismatch`` (element counts / dtypes of matched buffers differ) and ``deadlock``.
Data is copied when deposited, so ranks never share memory through the communicator.
"""

from __future__ import annotations

import copy
import hashlib
import threading

import numpy as np


class Abort(BaseException):
    """Raised inside a rank thread to unwind it when the execution is abandoned (BaseException so that
    library code catching ``Exception`` cannot swallow it)."""


SEND_MODES = ("eager", "rendezvous")


class Slot:
    __slots__ = ("kind", "root", "data", "done", "taken", "arrived", "first_rank")

    def __init__(self, kind, root, rank):
        self.kind = kind
        self.root = root
        self.data = {}  # rank -> deposited array / object
        self.done = False  # receiver side of a gather-like collective has collected
        self.taken = set()  # ranks that took the data of a scatter-like collective
        self.arrived = set()  # barrier arrivals
        self.first_rank = rank


def _buf(x):
    """mpi4py buffer specification: an array, or ``[array, datatype]`` / ``[array, count, datatype]``."""
    if isinstance(x, (list, tuple)) and len(x) in (2, 3) and isinstance(x[0], np.ndarray) \
            and not isinstance(x[1], np.ndarray):
        return x[0]
    return x


def _snapshot(x):
    a = np.array(_buf(x), copy=True, order="C")
    return a


class FreeSched:
    """Free-running threads; transitions block on a condition variable; a fixed send mode."""

    def __init__(self, send_mode="eager", timeout=30.0):
        self.cv = threading.Condition(threading.RLock())
        self.send_mode = send_mode
        self.timeout = timeout

    def lock(self):
        return self.cv

    def transition(self, world, rank, label, enabled, fire):
        with self.cv:
            ok = self.cv.wait_for(lambda: world.violation is not None or enabled(), self.timeout)
            if world.violation is not None:
                raise Abort()
            if not ok:
                world.violation = dict(kind="deadlock", detail="rank %d waited %.0fs at %r" % (rank, self.timeout, label))
                self.cv.notify_all()
                raise Abort()
            out = fire()
            world.ops[rank] += 1
            self.cv.notify_all()
            return out

    def choose(self, world, rank, label, options):
        return self.send_mode if self.send_mode in options else options[0]

    def violation(self, world, rank, v):
        with self.cv:
            if world.violation is None:
                world.violation = v
            self.cv.notify_all()
        raise Abort()

    def local(self, world, rank, label):
        with self.cv:
            world.ops[rank] += 1


class World:
    def __init__(self, size, sched=None, send_modes=SEND_MODES):
        self.size = int(size)
        self.sched = sched if sched is not None else FreeSched()
        self.send_modes = tuple(send_modes)
        self.slots = []
        self.seq = [0] * self.size  # collectives entered per rank
        self.ops = [0] * self.size  # transitions fired per rank (the "op counter" of the state digest)
        self.violation = None
        self.skeleton = [[] for _ in range(self.size)]  # per rank: (kind, root, send spec, recv spec)
        self.orders = []  # (slot, event, rank) in firing order: arrival orders actually exercised

    def comm(self, rank):
        return VComm(rank, self)

    def comms(self):
        return [VComm(r, self) for r in range(self.size)]

    # ------------------------------------------------------------------ matching
    def enter(self, rank, kind, root, spec):
        with self.sched.lock():
            k = self.seq[rank]
            self.seq[rank] += 1
            self.skeleton[rank].append((kind, root) + tuple(spec))
            if not (0 <= int(root) < self.size):
                self._violate(rank, dict(kind="collective-mismatch", detail="rank %d: %s #%d with root %r outside world of %d" % (rank, kind, k, root, self.size)))
            if k == len(self.slots):
                self.slots.append(Slot(kind, root, rank))
            slot = self.slots[k]
            if slot.kind != kind or slot.root != root:
                self._violate(rank, dict(
                    kind="collective-mismatch",
                    detail="collective #%d: rank %d calls %s(root=%r) but rank %d called %s(root=%r)" % (
                        k, rank, kind, root, slot.first_rank, slot.kind, slot.root)))
            return k, slot

    def _violate(self, rank, v):
        v = dict(v, rank=rank)
        self.sched.violation(self, rank, v)
        raise Abort()  # pragma: no cover  (sched.violation never returns)

    def buffer_mismatch(self, rank, k, kind, what):
        self._violate(rank, dict(kind="buffer-mismatch", detail="collective #%d %s on rank %d: %s" % (k, kind, rank, what)))

    # ------------------------------------------------------------------ state digest
    def digest(self):
        h = hashlib.blake2b(digest_size=12)
        for k, s in enumerate(self.slots):
            h.update(("|%d:%s:%r:%d:%s:%s" % (k, s.kind, s.root, s.done, sorted(s.taken), sorted(s.arrived))).encode())
            for r in sorted(s.data):
                d = s.data[r]
                h.update(b"#%d" % r)
                if isinstance(d, np.ndarray):
                    h.update(str(d.dtype).encode() + str(d.shape).encode())
                    h.update(d.tobytes())
                else:
                    h.update(repr(d).encode())
        return h.hexdigest()


class VComm:
    """What a rank body sees in place of ``MPI.COMM_WORLD``."""

    def __init__(self, rank, world):
        self.rank = int(rank)
        self.world = world

    # -- local queries: no interaction with other ranks.  They are counted as operations of the rank;
    # they are scheduling points only when the scheduler asks for it (they commute with everything).
    def Get_size(self):
        self.world.sched.local(self.world, self.rank, "Get_size")
        return self.world.size

    def Get_rank(self):
        self.world.sched.local(self.world, self.rank, "Get_rank")
        return self.rank

    # ------------------------------------------------------------------ helpers
    def _send_mode(self, kind, k):
        w = self.world
        if len(w.send_modes) == 1:
            return w.send_modes[0]
        return w.sched.choose(w, self.rank, (kind, k, "mode"), list(w.send_modes))

    @staticmethod
    def _spec(x):
        x = _buf(x)
        if isinstance(x, np.ndarray):
            return (x.shape, x.dtype.str)
        if x is None:
            return None
        return type(x).__name__

    def _check_recv(self, k, kind, recv):
        if not isinstance(recv, np.ndarray):
            self.world.buffer_mismatch(self.rank, k, kind, "receive buffer is %s, not a NumPy array" % type(recv).__name__)
        if not recv.flags.c_contiguous or not recv.flags.writeable:
            self.world.buffer_mismatch(self.rank, k, kind, "receive buffer is not a writable contiguous array")

    # ------------------------------------------------------------------ gather-like
    def _gather_like(self, kind, sendbuf, recvbuf, root, combine):
        w, r = self.world, self.rank
        k, slot = w.enter(r, kind, root, (self._spec(sendbuf), self._spec(recvbuf) if r == root else None))
        send = _snapshot(sendbuf)
        if r == root:
            recv = _buf(recvbuf)
            self._check_recv(k, kind, recv)

            def enabled():
                return len(slot.data) == w.size - 1

            def fire():
                slot.data[r] = send
                combine(k, slot, recv)
                slot.done = True
                w.orders.append((k, "collect", r))

            w.sched.transition(w, r, (kind, k, "collect"), enabled, fire)
        else:
            def fire_send():
                slot.data[r] = send
                w.orders.append((k, "send", r))

            w.sched.transition(w, r, (kind, k, "send"), lambda: True, fire_send)
            # the send has been posted; whether it returns at once (eager) or only when the root has
            # collected it (rendezvous) is the environment's choice -- made here, after the firing, so
            # that states before the send do not depend on it
            mode = self._send_mode(kind, k)
            if mode == "rendezvous":
                w.sched.transition(w, r, (kind, k, "wait-collected"), lambda: slot.done, lambda: None)

    def Gather(self, sendbuf, recvbuf, root=0):
        w = self.world

        def combine(k, slot, recv):
            parts = [slot.data[i] for i in range(w.size)]
            n = parts[0].size
            for i, p in enumerate(parts):
                if p.size != n or p.dtype != parts[0].dtype:
                    w.buffer_mismatch(self.rank, k, "Gather", "rank %d sent %s%s, rank 0 sent %s%s" % (
                        i, p.dtype, p.shape, parts[0].dtype, parts[0].shape))
            if recv.size != n * w.size or recv.dtype != parts[0].dtype:
                w.buffer_mismatch(self.rank, k, "Gather", "receive buffer %s%s cannot hold %d x %s%s" % (
                    recv.dtype, recv.shape, w.size, parts[0].dtype, parts[0].shape))
            flat = recv.reshape(w.size, n) if n else recv.reshape(w.size, 0)
            for i, p in enumerate(parts):
                flat[i] = p.ravel()

        self._gather_like("Gather", sendbuf, recvbuf, root, combine)

    def Reduce(self, sendbuf, recvbuf, op=None, root=0):
        w = self.world
        opname = getattr(op, "name", op)

        def combine(k, slot, recv):
            parts = [slot.data[i] for i in range(w.size)]
            for i, p in enumerate(parts):
                if p.size != recv.size or p.dtype != recv.dtype:
                    w.buffer_mismatch(self.rank, k, "Reduce", "rank %d sent %s%s into %s%s" % (i, p.dtype, p.shape, recv.dtype, recv.shape))
            acc = parts[0].ravel().copy()
            for p in parts[1:]:
                if opname in (None, "SUM"):
                    acc = acc + p.ravel()
                elif opname == "MAX":
                    acc = np.maximum(acc, p.ravel())
                elif opname == "MIN":
                    acc = np.minimum(acc, p.ravel())
                elif opname == "PROD":
                    acc = acc * p.ravel()
                else:
                    raise NotImplementedError("Reduce op %r" % (op,))
            recv.reshape(-1)[:] = acc

        self._gather_like("Reduce", sendbuf, recvbuf, root, combine)

    # ------------------------------------------------------------------ scatter-like
    def _scatter_like(self, kind, k, slot, root, deposit, take):
        w, r = self.world, self.rank
        if r == root:
            def fire_send():
                slot.data[root] = deposit()
                out = take(slot.data[root])
                slot.taken.add(r)
                w.orders.append((k, "send", r))
                return out

            out = w.sched.transition(w, r, (kind, k, "send"), lambda: True, fire_send)
            mode = self._send_mode(kind, k) if w.size > 1 else "eager"
            if mode == "rendezvous":
                w.sched.transition(w, r, (kind, k, "wait-taken"), lambda: len(slot.taken) == w.size, lambda: None)
            return out

        def fire_take():
            out = take(slot.data[root])
            slot.taken.add(r)
            w.orders.append((k, "take", r))
            return out

        return w.sched.transition(w, r, (kind, k, "take"), lambda: root in slot.data, fire_take)

    def Scatter(self, sendbuf, recvbuf, root=0):
        w, r = self.world, self.rank
        k, slot = w.enter(r, "Scatter", root, (self._spec(sendbuf) if r == root else None, self._spec(recvbuf)))
        recv = _buf(recvbuf)
        self._check_recv(k, "Scatter", recv)

        def deposit():
            d = _snapshot(sendbuf)
            if d.size % w.size:
                w.buffer_mismatch(r, k, "Scatter", "send buffer %s%s not divisible among %d ranks" % (d.dtype, d.shape, w.size))
            return d

        def take(d):
            n = d.size // w.size
            if recv.size != n or recv.dtype != d.dtype:
                w.buffer_mismatch(r, k, "Scatter", "receive buffer %s%s does not match chunk of %d x %s" % (recv.dtype, recv.shape, n, d.dtype))
            recv.reshape(-1)[:] = d.reshape(w.size, n)[r] if n else d.reshape(-1)[:0]

        self._scatter_like("Scatter", k, slot, root, deposit, take)

    def Bcast(self, buf, root=0):
        w, r = self.world, self.rank
        k, slot = w.enter(r, "Bcast", root, (self._spec(buf),))
        b = _buf(buf)
        self._check_recv(k, "Bcast", b)

        def take(d):
            if r == root:
                return
            if b.size != d.size or b.dtype != d.dtype:
                w.buffer_mismatch(r, k, "Bcast", "buffer %s%s does not match root's %s%s" % (b.dtype, b.shape, d.dtype, d.shape))
            b.reshape(-1)[:] = d.ravel()

        self._scatter_like("Bcast", k, slot, root, lambda: _snapshot(b), take)

    def bcast(self, obj, root=0):
        w, r = self.world, self.rank
        k, slot = w.enter(r, "bcast", root, ())

        def take(d):
            return obj if r == root else copy.deepcopy(d)

        return self._scatter_like("bcast", k, slot, root, lambda: copy.deepcopy(obj), take)

    # ------------------------------------------------------------------ barrier
    def Barrier(self):
        w, r = self.world, self.rank
        k, slot = w.enter(r, "Barrier", 0, ())

        def arrive():
            slot.arrived.add(r)
            w.orders.append((k, "arrive", r))

        w.sched.transition(w, r, ("Barrier", k, "arrive"), lambda: True, arrive)
        w.sched.transition(w, r, ("Barrier", k, "leave"), lambda: len(slot.arrived) == w.size, lambda: None)


class VMPI:
    """Stand-in for the ``MPI`` module object the driver receives (one per rank)."""

    FLOAT = "FLOAT"
    DOUBLE = "DOUBLE"
    INT = "INT"
    SUM = "SUM"
    MAX = "MAX"
    MIN = "MIN"

    def __init__(self, comm):
        self.COMM_WORLD = comm


def free_run(size, body, send_mode="eager", timeout=30.0):
    """Run ``body(rank, comm)`` on ``size`` free-running threads (no controller).
    Returns (results, violation, world)."""
    world = World(size, FreeSched(send_mode, timeout), send_modes=(send_mode,))
    results = [None] * size
    errors = [None] * size

    def main(r):
        try:
            results[r] = body(r, world.comm(r))
        except Abort:
            pass
        except Exception as e:  # noqa: BLE001 - reported, not swallowed
            errors[r] = "%s: %s" % (type(e).__name__, e)
            with world.sched.cv:
                if world.violation is None:
                    world.violation = dict(kind="exception", rank=r, detail=errors[r])
                world.sched.cv.notify_all()

    ts = [threading.Thread(target=main, args=(r,), daemon=True) for r in range(size)]
    for t in ts:
        t.start()
    for t in ts:
        t.join(timeout * 2)
    if any(t.is_alive() for t in ts) and world.violation is None:
        world.violation = dict(kind="deadlock", detail="rank threads still alive after %.0fs" % (2 * timeout))
    return results, world.violation, world
