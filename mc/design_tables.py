"""Rewrites the generated table blocks of DESIGN.md (python -m mc.design_tables)."""
import io
import os
import contextlib

from mc import seeded_table

ROOT = os.path.dirname(os.path.dirname(os.path.abspath(__file__)))


def main():
    buf = io.StringIO()
    with contextlib.redirect_stdout(buf):
        seeded_table.main()
    p = os.path.join(ROOT, "DESIGN.md")
    s = open(p).read()
    a, b = "<!-- SEEDED-TABLE-BEGIN -->", "<!-- SEEDED-TABLE-END -->"
    i, j = s.index(a) + len(a), s.index(b)
    s = s[:i] + "\n" + buf.getvalue() + s[j:]
    open(p, "w").write(s)
    print("DESIGN.md seeded table regenerated")


if __name__ == "__main__":
    main()
