"""schedmc: stateless exploration of every schedule of R rank bodies that synchronise only through a
virtual MPI communicator (mc.vcomm).

The rank bodies are the *real* library functions.  Each runs on its own Python thread; a controller
hands a baton to exactly one of them at a time, so the execution is sequential and fully determined by
the sequence of controller choices.  Every transition of a communicator call (see mc.vcomm) is a
scheduling point: the rank announces it (label + enabledness predicate), gives the baton back and
waits; the controller picks one rank among those whose pending transition is enabled.  A second kind
of choice point selects, for every send, whether it completes at once (eager) or only when the data
has been collected (rendezvous) -- both legal MPI behaviours.

All schedules are enumerated by depth-first search over *choice prefixes* (odometer): an execution
replays a prefix of choice indices on fresh threads, then always takes choice 0; the deepest position
with an untried alternative is bumped for the next execution.  Options at a choice point are ordered
non-preempting first (continue the rank that ran last), so schedules are enumerated fewest-preemptions
first along every path and an optional *preemption bound* cuts the rest.  Optional *visited-state
pruning*: the state (per-rank fired-transition counter, pending label and finished flag, digest of all
mailbox contents ever deposited[, last rank and preemption count when a bound is set]) is recorded after
every step past the replayed prefix; an execution that reaches a recorded state is abandoned, because
the execution that recorded it enumerates every continuation.  (Rank-local memory is a function of the
rank's inputs, its counter and the data it received, all of which the key determines.)

Violations of an execution: ``deadlock`` (no enabled rank while some unfinished),
``collective-mismatch`` / ``buffer-mismatch`` (from mc.vcomm), ``exception`` (a rank body raised).
Recorded schedules (list of choice indices) are replayed twice by ``verify`` and must reproduce the same
trace and the same outcome; a divergence raises ``ScheduleError`` (a harness error, never a verdict).
"""

from __future__ import annotations

import contextlib
import hashlib
import threading
import time

import numpy as np

from mc import vcomm
from mc.vcomm import Abort


class ScheduleError(Exception):
    """The explorer itself misbehaved (non-deterministic replay, runaway thread)."""


def outcome_digest(results):
    """Canonical digest of the per-rank return values (nested lists/tuples/dicts of arrays and scalars)."""
    h = hashlib.blake2b(digest_size=12)

    def feed(x):
        if isinstance(x, (list, tuple)):
            h.update(b"[")
            for y in x:
                feed(y)
            h.update(b"]")
        elif isinstance(x, dict):
            h.update(b"{")
            for k in sorted(x):
                h.update(repr(k).encode())
                feed(x[k])
            h.update(b"}")
        elif x is None or isinstance(x, (str, bool, int, float, complex)):
            h.update(repr(x).encode())
        else:
            a = np.asarray(x)
            h.update(str(a.dtype).encode() + str(a.shape).encode() + np.ascontiguousarray(a).tobytes())

    feed(results)
    return h.hexdigest()


class _Controlled:
    """Scheduler object plugged into a vcomm.World for one controlled execution."""

    def __init__(self, ex):
        self.ex = ex

    def lock(self):
        return contextlib.nullcontext()

    def transition(self, world, rank, label, enabled, fire):
        ex = self.ex
        ex.pending[rank] = (label, enabled)
        ex.ctrl.release()  # baton back to the controller
        ex.sems[rank].acquire()  # ... until this rank is chosen
        if ex.aborting:
            raise Abort()
        ex.pending[rank] = None
        out = fire()
        world.ops[rank] += 1
        return out

    def choose(self, world, rank, label, options):
        ex = self.ex
        i = ex.next_choice(len(options))
        ex.trace.append("%d:%s#%d:%s=%s" % (rank, label[0], label[1], label[2], options[i]))
        return options[i]

    def violation(self, world, rank, v):
        if world.violation is None:
            world.violation = v
        raise Abort()

    def local(self, world, rank, label):
        if self.ex.explorer.local_points:
            self.transition(world, rank, (label, world.ops[rank], "local"), lambda: True, lambda: None)
        else:
            world.ops[rank] += 1


class Execution:
    """One controlled run of the R bodies along a choice prefix (then default choices)."""

    def __init__(self, explorer, prefix, strict=False, lenient=False):
        self.explorer = explorer
        self.prefix = list(prefix)
        self.strict = strict  # replay mode: the prefix must be consumed exactly, no default choices
        self.lenient = lenient  # replay on changed code: follow the recording as far as it applies
        R = explorer.nranks
        self.world = vcomm.World(R, _Controlled(self), explorer.send_modes)
        self.sems = [threading.Semaphore(0) for _ in range(R)]
        self.ctrl = threading.Semaphore(0)
        self.pending = [None] * R
        self.finished = [False] * R
        self.results = [None] * R
        self.aborting = False
        self.choices = []
        self.nopts = []
        self.trace = []
        self.status = None  # complete | violation | pruned
        self.violation = None
        self.preemptions = 0
        self.transitions = 0
        self.new_states = 0

    def next_choice(self, n):
        d = len(self.choices)
        if d < len(self.prefix):
            c = self.prefix[d]
            if not 0 <= c < n:
                if self.lenient:
                    c = 0
                else:
                    raise ScheduleError("recorded choice %d out of range (%d options) at depth %d" % (c, n, d))
        else:
            if self.strict and n > 1:
                raise ScheduleError("recorded schedule too short: choice point with %d options at depth %d" % (n, d))
            c = 0
        self.choices.append(c)
        self.nopts.append(n)
        return c

    def _rank_main(self, r):
        self.sems[r].acquire()
        try:
            if self.aborting:
                return
            self.results[r] = self.explorer.body(r, self.world.comm(r))
        except Abort:
            pass
        except Exception as e:  # noqa: BLE001 - becomes a violation of the execution
            if self.world.violation is None:
                self.world.violation = dict(kind="exception", rank=r, detail="%s: %s" % (type(e).__name__, str(e)[:300]))
        finally:
            self.finished[r] = True
            self.pending[r] = None
            self.ctrl.release()

    def _wait_ctrl(self):
        if not self.ctrl.acquire(timeout=self.explorer.step_timeout):
            raise ScheduleError("a rank body did not reach a communicator call within %.0fs" % self.explorer.step_timeout)

    def state_key(self, last):
        w = self.world
        pend = tuple((w.ops[r], self.finished[r], None if self.pending[r] is None else self.pending[r][0])
                     for r in range(w.size))
        key = (pend, w.digest())
        if self.explorer.preemption_bound is not None:
            key += (last, self.preemptions)
        return key

    def run(self):
        exp = self.explorer
        R = exp.nranks
        threads = [threading.Thread(target=self._rank_main, args=(r,), daemon=True) for r in range(R)]
        for t in threads:
            t.start()
        try:
            # local code before the first communicator call runs in rank order (ranks share no memory)
            for r in range(R):
                self.sems[r].release()
                self._wait_ctrl()
            last = None
            while True:
                if self.world.violation is not None:
                    self.status, self.violation = "violation", self.world.violation
                    break
                unfinished = [r for r in range(R) if not self.finished[r]]
                if not unfinished:
                    self.status = "complete"
                    break
                enabled = [r for r in unfinished if self.pending[r] is not None and self.pending[r][1]()]
                if not enabled:
                    self.status = "violation"
                    self.violation = dict(kind="deadlock", detail="no enabled rank; pending: %s" % (
                        {r: (self.pending[r][0] if self.pending[r] else None) for r in unfinished},))
                    break
                if last in enabled:
                    options = [last] + [r for r in enabled if r != last]
                    if exp.preemption_bound is not None and self.preemptions >= exp.preemption_bound:
                        options = [last]
                else:
                    options = enabled
                r = options[self.next_choice(len(options))]
                if last in enabled and r != last:
                    self.preemptions += 1
                lab = self.pending[r][0]
                self.trace.append("%d:%s#%d:%s" % (r, lab[0], lab[1], lab[2]))
                last = r
                self.transitions += 1
                self.sems[r].release()
                self._wait_ctrl()
                if exp.visited is not None and len(self.choices) >= len(self.prefix) and self.world.violation is None:
                    key = self.state_key(last)
                    if key in exp.visited:
                        if exp.prune:
                            self.status = "pruned"
                            break
                    else:
                        exp.visited.add(key)
                        self.new_states += 1
        finally:
            self.aborting = True
            for r in range(R):
                if not self.finished[r]:
                    self.sems[r].release()
            for t in threads:
                t.join(self.explorer.step_timeout)
            if any(t.is_alive() for t in threads):
                raise ScheduleError("rank thread did not unwind")
        return self


class Report:
    def __init__(self):
        self.schedules = 0  # complete executions
        self.pruned = 0  # executions abandoned at a visited state
        self.violating = 0  # executions ended by a violation
        self.transitions = 0
        self.states = 0  # distinct states recorded (pruning on) -- else 0
        self.max_depth = 0
        self.max_preemptions = 0
        self.outcomes = {}  # digest -> dict(count, choices, results)
        self.violations = []  # first few: dict(kind, detail, choices, trace)
        self.violation_kinds = {}
        self.arrival_orders = set()
        self.exhaustive = True
        self.first = None  # (choices, trace, digest) of the first complete schedule
        self.skeleton = None  # per-rank sequence of collectives of the last complete schedule
        self.last = None
        self.wall = 0.0

    def summary(self):
        return dict(schedules=self.schedules, pruned=self.pruned, violating=self.violating,
                    transitions=self.transitions, states=self.states, max_depth=self.max_depth,
                    outcomes=len(self.outcomes), arrival_orders=len(self.arrival_orders),
                    exhaustive=self.exhaustive, wall=round(self.wall, 3))


class Explorer:
    def __init__(self, nranks, body, send_modes=vcomm.SEND_MODES, preemption_bound=None, prune=False,
                 max_executions=None, outcome=outcome_digest, local_points=False, step_timeout=120.0,
                 max_violations=3, stop_on_violation=True, track_states=False):
        self.nranks = nranks
        self.body = body
        self.send_modes = tuple(send_modes)
        self.preemption_bound = preemption_bound
        self.prune = prune
        self.max_executions = max_executions
        self.outcome = outcome
        self.local_points = local_points
        self.step_timeout = step_timeout
        self.max_violations = max_violations
        self.stop_on_violation = stop_on_violation
        self.track_states = track_states  # record the state keys without pruning (cross-check of the pruning)
        self.visited = None
        self.state_set = None

    # ------------------------------------------------------------------ single schedules
    def run_schedule(self, choices):
        """Re-execute exactly one recorded schedule (no exploration, no pruning)."""
        saved, self.visited = self.visited, None
        try:
            ex = Execution(self, choices, strict=True).run()
        finally:
            self.visited = saved
        if len(ex.choices) != len(choices):
            raise ScheduleError("recorded schedule has %d choices, execution consumed %d" % (len(choices), len(ex.choices)))
        return ex

    def run_recorded(self, choices):
        """Re-execute a recorded schedule on possibly changed code (a replay after a fix): follow the recorded
        choices as far as they apply, then default choices to the end."""
        saved, self.visited = self.visited, None
        try:
            return Execution(self, choices, lenient=True).run()
        finally:
            self.visited = saved

    def verify(self, choices, trace=None, digest=None, violation_kind=None):
        """A recorded schedule must replay identically twice (and equal to the recording)."""
        a = self.run_schedule(choices)
        b = self.run_schedule(choices)
        da = self.outcome(a.results) if a.status == "complete" else None
        db = self.outcome(b.results) if b.status == "complete" else None
        if a.trace != b.trace or a.status != b.status or da != db:
            raise ScheduleError("schedule %r does not replay deterministically" % (choices,))
        if trace is not None and a.trace != trace:
            raise ScheduleError("schedule %r replays with a different trace than recorded" % (choices,))
        if digest is not None and da != digest:
            raise ScheduleError("schedule %r replays with a different outcome than recorded" % (choices,))
        if violation_kind is not None and (a.violation or {}).get("kind") != violation_kind:
            raise ScheduleError("schedule %r does not reproduce violation %s" % (choices, violation_kind))
        return a

    # ------------------------------------------------------------------ exploration
    def explore(self, verify=True):
        rep = Report()
        t0 = time.time()
        self.visited = set() if (self.prune or self.track_states) else None
        prefix = []
        nexec = 0
        while True:
            ex = Execution(self, prefix).run()
            nexec += 1
            rep.transitions += ex.transitions
            rep.max_depth = max(rep.max_depth, len(ex.choices))
            rep.max_preemptions = max(rep.max_preemptions, ex.preemptions)
            rep.states += ex.new_states
            if ex.status == "complete":
                rep.schedules += 1
                d = self.outcome(ex.results)
                o = rep.outcomes.get(d)
                if o is None:
                    rep.outcomes[d] = dict(count=1, choices=list(ex.choices), results=ex.results)
                else:
                    o["count"] += 1
                rep.arrival_orders.add(tuple(ex.world.orders))
                rec = (list(ex.choices), list(ex.trace), d)
                if rep.first is None:
                    rep.first = rec
                rep.last = rec
                rep.skeleton = ex.world.skeleton
            elif ex.status == "pruned":
                rep.pruned += 1
            else:
                rep.violating += 1
                k = ex.violation.get("kind")
                rep.violation_kinds[k] = rep.violation_kinds.get(k, 0) + 1
                if len(rep.violations) < self.max_violations:
                    rep.violations.append(dict(ex.violation, choices=list(ex.choices), trace=list(ex.trace)))
                if self.stop_on_violation:
                    rep.exhaustive = False
                    break
            # odometer: deepest position with an untried alternative
            ch, no = ex.choices, ex.nopts
            d = len(ch) - 1
            while d >= 0 and ch[d] + 1 >= no[d]:
                d -= 1
            if d < 0:
                break
            prefix = ch[:d] + [ch[d] + 1]
            if self.max_executions is not None and nexec >= self.max_executions:
                rep.exhaustive = False
                break
        self.state_set, self.visited = self.visited, None
        if verify:
            if rep.first is not None:
                self.verify(*rep.first)
            if rep.last is not None and rep.last[0] != rep.first[0]:
                self.verify(*rep.last)
            for v in rep.violations[:1]:
                self.verify(v["choices"], trace=v["trace"], violation_kind=v["kind"])
        rep.wall = time.time() - t0
        return rep


def run_default(nranks, body, send_mode="eager"):
    """One controlled execution with default choices (rank order, fixed send mode); returns the Execution."""
    exp = Explorer(nranks, body, send_modes=(send_mode,))
    return Execution(exp, []).run()
