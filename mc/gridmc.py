"""gridmc: exhaustive evaluation over configuration matrix x trial-parameter basis x walker product grid.

Shared by C01 (overlap), C02 (energy), C03 (force bias): builds lab-frame walker grids and reference
amplitude matrices once per configuration."""

import dataclasses

import numpy as np

from mc import alphabets as al
from mc import fock, trials


def lab_walkers(tc, grid, restricted):
    """Frame-basis grid -> lab-basis walkers + reference amplitude matrix Phi (dim x P)."""
    sec = fock.sector(tc.n, tc.na, tc.nb)
    if restricted:
        W = np.einsum("pq,wqk->wpk", tc.Qa, grid["Ga"])
        Wa, Wb = W[:, :, : tc.na], W[:, :, : tc.nb]
        Phi = sec.walker_vectors(Wa, Wb)
        return W, None, Phi
    Wa = np.einsum("pq,wqk->wpk", tc.Qa, grid["Ga"])
    Wb = np.einsum("pq,wqk->wpk", tc.Qb, grid["Gb"])
    Phi = sec.walker_vectors(Wa, Wb)
    return Wa, Wb, Phi


def batch_counts(P, thorough):
    """Batch counts dividing the grid size P (P = 2^E or 3^E)."""
    base = 2 if P % 2 == 0 else 3
    out = [1]
    b = base
    while b <= P and len(out) < (4 if thorough else 3):
        out.append(b)
        b *= base
    if thorough and P not in out and P <= 4096:
        out.append(P)
    return out


def with_batch(trial, k):
    return dataclasses.replace(trial, n_batch=k)


def param_class(label):
    """Strip indices from a parameter label: 'ci2[0101]' -> 'ci2', 'ref+((1,0..' -> 'ref+det'."""
    if label.startswith("ref+"):
        return "ref+det"
    for sep in "[(":
        if sep in label:
            label = label.split(sep)[0]
    return label


def trial_for(tc, ip):
    return tc.trials[ip] if tc.trial is None else tc.trial


def first_bad(err, tol):
    bad = np.nonzero(~(err <= tol))[0]
    return int(bad[0]) if bad.size else None
