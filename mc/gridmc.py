"""gridmc: exhaustive evaluation over configuration matrix x trial-parameter basis x walker product grid.

Shared by C01 (overlap), C02 (energy), C03 (force bias): builds lab-frame walker grids and reference
amplitude matrices once per configuration."""

import dataclasses

import numpy as np

from mc import alphabets as al
from mc import fock, trials


def lab_walkers(tc, grid, restricted):
    """Frame-basis grid -> lab-basis walkers + reference amplitude matrix Phi (dim x P)."""
    sec = fock.sector(tc.n, tc.na, tc.nb)
    if restricted:
        W = np.einsum("pq,wqk->wpk", tc.Qa, grid["Ga"])
        Wa, Wb = W[:, :, : tc.na], W[:, :, : tc.nb]
        Phi = sec.walker_vectors(Wa, Wb)
        return W, None, Phi
    Wa = np.einsum("pq,wqk->wpk", tc.Qa, grid["Ga"])
    Wb = np.einsum("pq,wqk->wpk", tc.Qb, grid["Gb"])
    Phi = sec.walker_vectors(Wa, Wb)
    return Wa, Wb, Phi


def multislater_blocks_ok(tc, Wa, Wb, mode):
    """Wick expansion of a multi-Slater trial inverts the walker rows of BOTH reference strings: on a grid that is
    conditioned for the alpha string only (restricted container with different alpha / beta strings) the beta block
    can be singular.  Input pre-check; returns min |det| over the grid."""
    ra = [i for i, x in enumerate(tc.ref[0]) if x]
    rb = [i for i, x in enumerate(tc.ref[1]) if x]
    Wbb = Wa[:, :, : tc.nb] if mode == "r" else Wb
    return min(np.abs(np.linalg.det(Wa[:, ra, : tc.na])).min(), np.abs(np.linalg.det(Wbb[:, rb, :])).min())


def batch_counts(P, thorough):
    """Batch counts dividing the grid size P (P = 2^E or 3^E)."""
    base = 2 if P % 2 == 0 else 3
    out = [1]
    b = base
    while b <= P and len(out) < (4 if thorough else 3):
        out.append(b)
        b *= base
    if thorough and P not in out and P <= 4096:
        out.append(P)
    return out


def with_batch(trial, k):
    return dataclasses.replace(trial, n_batch=k)


def param_class(label):
    """Strip indices from a parameter label: 'ci2[0101]' -> 'ci2', 'ref+((1,0..' -> 'ref+det'."""
    if label.startswith("ref+"):
        return "ref+det"
    for sep in "[(":
        if sep in label:
            label = label.split(sep)[0]
    return label


def trial_for(tc, ip):
    return tc.trials[ip] if tc.trial is None else tc.trial


def first_bad(err, tol):
    bad = np.nonzero(~(err <= tol))[0]
    return int(bad[0]) if bad.size else None


# ----------------------------------------------------------------------------- Hamiltonian alphabets
def ham_alphabet(n, seed, spin_dep, thorough, slots=2):
    """Finite basis of Hamiltonians deciding  E = h0 + lin(h1) + quad(chol):
    zero, h0 = 1, every symmetric unit of h1 (per spin when spin_dep), every symmetric unit of one
    Cholesky matrix, all pair sums (polarisation), unit pairs in different Cholesky slots (additivity
    over g), h1-unit x chol-unit crosses, and dense seeded members.  Always `slots` Cholesky matrices so
    one compilation serves all.  Returns list of (label, h0, h1[2,n,n], chol[slots,n,n])."""
    Z = np.zeros((n, n))
    zc = np.zeros((slots, n, n))
    B = al.sym_basis(n)
    out = [("zero", 0.0, np.array([Z, Z]), zc.copy()), ("h0", 1.0, np.array([Z, Z]), zc.copy())]
    for (p, q), M in B:
        out.append(("h1[%d%d]" % (p, q), 0.0, np.array([M, M]), zc.copy()))
        if spin_dep:
            out.append(("h1a[%d%d]" % (p, q), 0.0, np.array([M, Z]), zc.copy()))
            out.append(("h1b[%d%d]" % (p, q), 0.0, np.array([Z, M]), zc.copy()))
    for (p, q), M in B:
        c = zc.copy()
        c[0] = M
        out.append(("chol[%d%d]" % (p, q), 0.0, np.array([Z, Z]), c))
    for i, ((p, q), M) in enumerate(B):
        for (r, s), M2 in B[i + 1:]:
            c = zc.copy()
            c[0] = M + M2
            out.append(("cholsum[%d%d+%d%d]" % (p, q, r, s), 0.0, np.array([Z, Z]), c))
            if slots > 1:
                c = zc.copy()
                c[0], c[1] = M, M2
                out.append(("cholslots[%d%d|%d%d]" % (p, q, r, s), 0.0, np.array([Z, Z]), c))
    if thorough:
        for (p, q), M in B:
            for (r, s), M2 in B:
                c = zc.copy()
                c[slots - 1] = M2
                out.append(("cross[h%d%d,c%d%d]" % (p, q, r, s), 0.0, np.array([M, M]), c))
    for k in range(2 if thorough else 1):
        h0, h1, chol = al.small_ham(n, slots, seed + 5 * k, spin_dependent=spin_dep, scale=0.5)
        out.append(("dense%d" % k, h0, h1, chol))
    # an INTEGER-typed one-body matrix (as -t * lattice.create_adjacency_matrix() + integer on-site terms gives) next to
    # dense Cholesky vectors: the supplied Hamiltonian is the same whatever dtype the caller stores it in
    K = np.zeros((n, n), dtype=np.int64)
    for i in range(n - 1):
        K[i, i + 1] = K[i + 1, i] = -1
    K += np.diag(np.arange(n, dtype=np.int64) % 3)
    _, _, chol = al.small_ham(n, slots, seed + 3, spin_dependent=False, scale=0.5)
    out.append(("dense-inth1", 0.25, np.array([K, K]), chol))
    return out


def ham_class(label):
    return label.split("[")[0].rstrip("0123456789") if label.startswith("dense") else label.split("[")[0]


_CARRY = {}


def build_ham_data(n, h0, h1, chol, trial, wave_data, carry=True):
    """ham_data with measurement intermediates built only through the public hamiltonian handler.

    With carry=True (default) the intermediates are REBUILT ON THE DICTIONARY RETURNED BY THE PREVIOUS BUILD for
    this trial (h0/h1/chol overwritten), the way response calculations and the 2-RDM mode reuse a prepared
    ham_data: an intermediate that is cached instead of rebuilt then goes stale and the energies / force biases
    computed from it disagree with the reference."""
    jnp, _ = trials.lib()
    from ad_afqmc import hamiltonian

    ham = hamiltonian.hamiltonian(n)
    key = (trial, n, len(chol))
    hd = dict(_CARRY[key]) if (carry and key in _CARRY) else {}
    h1 = np.asarray(h1)
    hd.update({"h0": h0, "h1": jnp.asarray(h1 if h1.dtype.kind == "i" else np.asarray(h1, dtype=float)),
               "chol": jnp.asarray(np.asarray(chol, dtype=float).reshape(len(chol), n * n)), "ene0": 0.0})
    out = ham.build_measurement_intermediates(hd, trial, wave_data)
    if carry:
        _CARRY[key] = dict(out)
    return out


# ----------------------------------------------------------------------------- jitted call cache
_JIT = {}


def jitted(trial, name, in_axes=None):
    """jax.jit of a trial method (optionally vmapped), cached per (trial, method, in_axes).  Eager calls of
    the library's scan-based batched routines re-trace and re-compile on every call; the checks therefore call
    them through one jit per static configuration (plus one eager call per configuration for the plain API)."""
    import jax

    key = (trial, name, in_axes)
    if key not in _JIT:
        meth = getattr(trial, name)
        if in_axes is not None:
            meth = jax.vmap(meth, in_axes=in_axes)
        _JIT[key] = jax.jit(lambda *a: meth(*a))
    return _JIT[key]
