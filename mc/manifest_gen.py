"""Regenerates MANIFEST.json from the table below (run: /venv/bin/python -m mc.manifest_gen)."""
import json
import os

ROOT = os.path.dirname(os.path.dirname(os.path.abspath(__file__)))

CHECKS = {
    "C01": dict(
        engine="gridmc",
        technique="exhaustive enumeration of configuration matrix x CI-parameter basis x walker product grid on the real code, against a second-quantised reference model",
        text="Every cell of trial kind x (norb,n_up,n_dn) x orbital variant x reference determinant x entry point x batch count is executed on the real library over a complete product grid of complex walker matrices (d+1 non-real letters per matrix entry, d = polynomial degree of the overlap in that entry) and over a basis of the CI parameters; the oracle is the inner product written out in Fock space. For implementations in the stated degree class the grid decides the identity for every walker (combinatorial Nullstellensatz); otherwise it is a dense exhaustive test. Bounded exhaustive exploration is the right level because the defects live in configuration corners no sampled test visits.",
        note="norb <= 3 (quick) / 4 (thorough), grids capped at 2^16 / 3^9 points (caps reported in evidence), real trial parameters, orthogonal CI bases; trusts NumPy determinants and the Fock reference (self-tested against an independent Jordan-Wigner construction). Since seeded round 3: sectors with n_dn > n_up (unrestricted walkers), complex orbitals for rhf/uhf/ghf/noci, and the density matrix as a call history on one caller-owned dictionary.",
        design="2/C01"),
    "C02": dict(
        engine="gridmc",
        technique="exhaustive enumeration of trial kinds x sizes x Hamiltonian basis (units, pair sums, slot pairs, dense) x walker product grid on the real code, against <psi|H|phi>/<psi|phi> in Fock space; step-size ladder for the finite-difference trials",
        text="The local energy is affine in (h0,h1) and quadratic in each Cholesky matrix, and its numerator is a low-degree polynomial in the walker entries, so evaluating every Hamiltonian of a polarisation basis on a complete walker product grid decides the identity for the implementation's degree class and is an exhaustive structured test otherwise; all trial kinds, both walker containers, spin-dependent one-body terms where the property admits them. The AD/finite-difference trials are additionally checked for quadratic convergence on a step ladder.",
        note="norb <= 3 (+ two 4-orbital sizes) quick / 4 thorough; walker grids capped at 2^12 / 3^8 points for the energy (caps reported); walkers within 1e-2 of a node of the reference overlap excluded beforehand; tolerances 1e-9 (float64), 2e-5 (complex64 intermediates of cisd/ucisd), 3e-6 at the default FD step. Sectors with n_dn > n_up and complex orbitals (rhf/uhf/ghf/noci) included.",
        design="2/C02"),
    "C03": dict(
        engine="gridmc",
        technique="exhaustive enumeration of trial kinds x sizes x Cholesky basis x walker product grid on the real code, against <psi|L_g|phi>/<psi|phi> in Fock space and the log-derivative of the public overlap",
        text="The force bias is linear in each Cholesky matrix; every symmetric unit matrix plus a dense triple (g-axis order) on a complete walker product grid decides it for all trial kinds (Green's-function, reverse-mode AD and hand-coded implementations are all compared with the same Fock-space mixed expectation, hence with each other) and both walker containers; the defining logarithmic derivative is checked through the public calc_overlap by central differences.",
        note="same bounds as C02; central-difference comparison at 1e-5 relative. Sectors with n_dn > n_up and complex orbitals (rhf/uhf/ghf/noci) included; invariance under walker rescaling.",
        design="2/C03"),
    "C04": dict(
        engine="probmc",
        technique="exact Gaussian field average by enumerating every tensor Gauss-Hermite node through the real propagate() (hooked importance function), dt-ladder ratio test against scipy expm in Fock space; exhaustive field/weight/shift words for the weight-rule branches",
        text="The auxiliary field is the environment: every node of a tensor Gauss-Hermite rule (16, 12^2, 8^3 nodes) is played as one walker of one real propagate() call, so the field average is computed exactly (probabilistic model checking) instead of sampled; it is compared with exp(-dt(H-E_shift)) on a seven-step dt ladder (ratio per halving >= 3 in the small-dt tail), over propagator x trial kind x n_chol x mean-field rdm1 x walker x shift. The propagated walker, the importance function, theta, the stored overlap and the applied weight are each compared node by node with explicit-matrix references, and every branch of the weight rule (cos<=0, <1e-3, >100, product>100, normal) is forced by an exhaustive field/weight/shift alphabet and counted.",
        note="norb <= 3 quick / 4 thorough; quadrature/round-off floor 2e-9; reads imp_fun/theta through the guarded add-only hook; restricted propagator compared with the spin-averaged h1 it is documented to use. Intermediates rebuilt on a carried dictionary (decoy Hamiltonian first); the free-projection origin ene0 is a letter the phaseless step must not depend on.",
        design="2/C04"),
    "C19": dict(
        engine="gridmc+probmc",
        technique="exhaustive enumeration of all sample/weight words over small alphabets (algebraic identities) and of every path of i.i.d. / two-state Markov series with exact probabilities (exact expectation of the squared error bar)",
        text="All weight/sample words of length 4-7 (9 thorough) over 3x2-letter alphabets with every equilibration cut, rescaling and shift decide the algebraic statements (mean, block-size-1 formula with the documented (n_blocks-1) normalisation, plateau rule, invariances, constant data); the statistical statements are decided exactly by enumerating every path of nine i.i.d./Markov ensembles (length <= 14 quick / 20 thorough) with its probability, and for AR(1) by reading the estimator as a quadratic form on a complete polarisation set and contracting with the exact covariance; outlier rejection and jackknife on all words against brute force.",
        note="block estimates read from the routine's printed table (1e-6 relative), returned values at 1e-9; comparisons within 1e-12 of the 5% plateau threshold skipped and counted.",
        design="2/C19"),
    "C20": dict(
        engine="gridmc",
        technique="exhaustive enumeration of every lattice kind, side-length tuple and site within bounds; graph invariants and pytree/jit round trips checked on each",
        text="Chains 2..33 (65 thorough), rectangular and triangular grids (periodic and open) for every ordered side pair in 2..6 (10) plus long thin shapes k x {2,3} / {2,3} x k up to k = 17 (33), cubic grids for every side triple in 2..4 (6) plus k x 2 x 2 in every orientation up to k = 12 (17): constructibility, site numbering bijection, neighbour symmetry/irreflexivity, adjacency symmetry/regularity/degree bound, equality/hash, flatten-unflatten and a real jit boundary preserving every dataclass field and the adjacency matrix.",
        note="open triangular lattices with an odd number of rows are counted but not judged (outside the property's parenthesis); default hop_signs/coord_num.",
        design="2/C20"),
    "C05": dict(
        engine="probmc+seqmc",
        technique="exact field average over ALL histories of tensor Gauss-Hermite nodes pushed through k real propagate_free() calls; per-history explicit-matrix bookkeeping oracle; dt-ladder ratio test against expm in Fock space; free-projection sampler over every virtual-RNG stream",
        text="One population contains every history of quadrature nodes over all k*n_chol fields (k = 1..3 consecutive steps), so the expectation of norm x walker is computed exactly and compared with exp(-dt(H-ene0))^k on a dt ladder; for every single history the accumulated norm times the orthonormal walker is compared with the un-normalised product of explicit propagator matrices, the stored overlap with the overlap of that state, the truncated exponential with scipy expm within its Taylor remainder; the sampler's free-projection block energy is recomputed from its returned trajectory for every stream of a virtual random source.",
        note="norb <= 3 quick / 4 thorough, both spins present; floor 2e-9; second-order ratio judged in the small-dt tail and for n_exp_terms >= 6. n_exp_terms {4,6,10,14}, n_batch {1,2}, intermediates rebuilt on a carried dictionary (decoy Hamiltonian first).",
        design="2/C05"),
    "C06": dict(
        engine="seqmc",
        technique="exhaustive enumeration of AD entry points x jvp/vjp (called exactly as the driver does) x block structures x every virtual-RNG stream x the complete basis of symmetric observables; forward-mode vs finite differences of the same primal, reverse vs forward, analytic one-body limit, density trace",
        text="For a fixed random stream the block estimator is a deterministic function of the coupling; the virtual random source makes 'every seed' enumerable: every word over a 3-letter field alphabet on the varying draw positions x every comb-offset word. Derivatives are linear in the observable, so the complete symmetric basis decides every observable. Oracles: jvp == central difference of the same primal (smoothness pre-checked on the primal alone), <vjp density, O_b> == jvp response for every basis element, primal == plain sampler at zero coupling, one-body limit (zero Cholesky vector) energy = sum of occupied orbital energies and response = tr(rho O), per-spin trace of the AD density = n_sigma for a single block.",
        note="3 orbitals, 3 walkers, 54-324 streams per cell; finite-difference tolerance 2e-6 relative; converged and undamped-stable SCF trial from an independent NumPy SCF. Unrestricted cells carry h1_up != h1_dn; one system has a near-degenerate occupied pair; the primal at coupling 1e-3 is compared with the publicly assembled coupled Hamiltonian for every observable.",
        design="2/C06"),
    "C08": dict(
        engine="seqmc",
        technique="breadth-first search over sampler/driver operation words x all virtual-RNG streams on the real objects; invariant from the guarded hook at every propagate() entry; differential replay through single public propagate() steps with explicit overlap refresh",
        text="The operation alphabet is what the library can produce: the five sampler entry points with two block structures, each followed by the driver's glue (QR, global comb, e_estimate update); all words to depth 2 (3 thorough) are executed on the real sampler for both walker types and every stream; in every state the hook's max relative |cached - recomputed| overlap at propagate() entry must vanish, and the whole word is replayed in parallel through single public steps with an explicit refresh after every walker modification - weights, walkers and block energies must agree. Uneven start weights and a large time step make combs duplicate walkers (counted) so a missing refresh cannot hide.",
        note="hook is add-only and guarded; streams: 3 field letters on 2 (3) draw positions; 4 walkers. Configurations: restricted+rhf, unrestricted+uhf, restricted+open-shell uhf, restricted+unnormalised rhf (without the relaxing entries); init_prop_data followed directly by one public step.",
        design="2/C08"),
    "C09": dict(
        engine="seqmc",
        technique="exhaustive enumeration of per-walker field histories (all words over a fault alphabet incl. overflowing letters) through real propagate() steps for every propagator class x dt x interaction x trial quality; invariants evaluated in every intermediate state",
        text="One population holds every field history of length 3 (4 thorough) over {0,+-1,+-4,+-40,+-1e4,+-1e154} (phaseless) or every per-site word over {0,+-1,+-8} (CPMC; every internal uniform word for the neighbour propagators through the virtual random source); each propagate() and the sampler's block epilogue is a transition after which all invariants are evaluated: weights real, finite, >= 0, step factor in {0} U window, dead stay dead, shift finite while alive, killed fraction in [0,1].",
        note="7 propagator classes x 4 time steps x weak/strong x good/poor trial; CPMC NaN weights after total extinction / after a rejected site at dt*U >= 24 are known findings (known_findings.json).",
        design="2/C09"),
    "C12": dict(
        engine="seqmc",
        technique="exhaustive enumeration of the sampler option matrix (entry point x walker type x block structure x batch count) x every virtual-RNG stream; differential oracle between entry points, public-call recomputation of the single-block estimator, bit-reproducibility in and across processes; driver.afqmc over its option matrix",
        text="Every cell of entry point {plain, ad, ad_norot, ad_nosr, ad_nosr_norot, 2-RDM} x {restricted, unrestricted} x block structure x n_batch is called as the driver calls it for every stream (all words over 3 field letters on 4 draw positions x comb-offset words); callable, equal energies for equal block structure, single-block estimator = weighted capped real local energy recomputed with public calls (capping forced by a far e_estimate letter), identical results on repetition and in another process, independent of n_batch; driver.afqmc itself over ad_mode x orbital_rotation x do_sr x walker_type under the virtual source.",
        note="3 orbitals, 4 walkers; trial converged by an independent SCF and stable under the undamped Roothaan step. Unrestricted cells carry h1_up != h1_dn; the file route options -> _prep_afqmc -> driver.afqmc is run with the real jax.random for seeds {0,1,7} twice each.",
        design="2/C12"),
    "C14": dict(
        engine="seqmc",
        technique="exhaustive enumeration of population permutations (all 24 for 4 walkers), batch counts and single-walker substitutions on every batched routine incl. CPMC; restricted-vs-unrestricted differential runs over sampler entry points, block structures and driver option cells with the real jax.random",
        text="Permutation equivariance, batch-count independence and single-walker substitution are checked on calc_overlap/energy/force_bias, _apply_trotprop, propagate, propagate_free and three CPMC propagators for every trial kind and both containers; the closed-shell restricted+RHF run is compared with the unrestricted+UHF run (equal blocks, same key) through every sampler entry point and through driver.afqmc.",
        note="arithmetic compared at 1e-12 (2e-6 / 1e-6 for complex64 / finite-difference energies), container runs at 1e-9 (sampler) and 2e-6 (driver stores float32).",
        design="2/C14"),
    "C10": dict(
        engine="probmc",
        technique="exhaustive enumeration of all 2^n discrete auxiliary-field configurations (one walker per leaf, branch forced through the Gaussian inputs, boundary probes pinning every selection probability) on the real CPMC propagators; exact summed identity in Fock space; all ordered spin-orbital pairs x update-constant alphabet for the fast updates; all paths of the neighbour propagators through a pass-through random source",
        text="Every field configuration of one constrained-path step is executed as one walker of a single population (probes at p_ref -+ 1e-8 on every internal node pin the implementation's probabilities), per leaf the walker, stored overlap and weight are compared with a NumPy reference, and sum_x p w phi'/O' is compared in Fock space with exp(dt E_shift) e^{-dt K/2} prod_i e^{-dt U n_up n_dn} e^{-dt K/2} phi/O for the library's own half step (built through the public intermediates from a Hubbard ham_data assembled as the example does) whenever no constraint was active (counted); O(N^2) overlap ratios and Green's-function updates are compared with from-scratch values for ALL ordered pairs of spin-orbitals and a 4x4 constant alphabet, UHF and GHF trials; fast vs slow propagators walker by walker; neighbour-interaction variants over all 2^(n+4*bonds) paths.",
        note="chains 2-4 and 2x2 (5 sites thorough), U in {1,4,8}, dt in {0.01,0.1}; zero-probability histories (incl. u = 1.0 exactly) are skipped and counted (C09 territory); propagator_cpmc_continuous is outside the property. History family: propagator objects differing in one static-jit attribute (bond list, dt) used one after the other in one process.",
        design="2/C10"),
    "C17": dict(
        engine="gridmc",
        technique="exhaustive enumeration of all Gram matrices B B^T with B in {-1,0,1}^(n x r) x diagonal scalings x thresholds for the three Cholesky routines; jvp along every symmetric basis tangent vs Richardson central differences; shell-chunked routine on a molecule catalogue against int2e; the 2-RDM sampler entry with a spy on its Cholesky call",
        text="All distinct B B^T (n <= 3 quick / 4 thorough) x every scaling in {1e-3,1,1e3}^n x thresholds {1e-2,1e-6,1e-10}: element-wise reconstruction within the threshold for the NumPy routine, exactness at n_chol = rank and finite jvp = finite differences (where the pivot sequence is stable, pre-checked on a reference pivoted Cholesky) for the JAX routine; chunked_cholesky against mol.intor('int2e') on a molecule/basis catalogue; propagate_phaseless_ad_1 checked to pass the symmetrised ERI and reproduce it.",
        note="tolerance thr + n*1e-10 (the routine's own regulariser) + 1e-12 scale; rank 0 and n_chol != rank are outside the statement; molecules up to 19 AOs. chunked_cholesky also with buffers cmax in {1,2,3}: it may raise only when the buffer is too small, and whatever it returns meets the threshold.",
        design="2/C17"),
    "C18": dict(
        engine="gridmc",
        technique="exhaustive enumeration of spectra (all multisets over {0,1,1+1e-7,1+1e-3,2}) x Givens frames x symmetric basis tangents for the eigen-derivative; SCF systems x every word of Givens(occ,virt,theta) rotations of the converged orbitals x malformed guesses for optimize, pyscf as independent solver",
        text="_eigh's custom JVP is compared with first-order perturbation theory whenever all gaps exceed 1e-5 and must be finite otherwise, for every spectrum multiset of size <= 4 (5), five frames and every symmetric basis tangent; rhf/uhf.optimize on synthetic gapped, exactly degenerate and molecular (Loewdin basis) Hamiltonians from every word of length <= 2 (3) of occupied-virtual Givens rotations of the converged orbitals and four malformed guesses: orthonormal output always, converged input keeps its occupied projector, energy = pyscf SCF energy on well-conditioned cells (contraction factor computed from the inputs), jvp finite everywhere and equal to central differences on well-conditioned systems.",
        note="energy/fixed-point oracles judged only where the linearised undamped Roothaan step contracts (rho <= 0.7 / 0.9), the rest is counted as ill-conditioned. Sectors with n_dn > n_up and the spin-flip differential oracle included.",
        design="2/C18"),
    "C13": dict(
        engine="gridmc",
        technique="exhaustive enumeration of trial kinds x sizes x containers x column scalings x walker product grids for the QR contract and measurement invariance; initial-walker generator over a finite alphabet of spin-breaking angles, density matrices and flags against the Fock model",
        text="For every trial kind, container and badly scaled column pattern the returned Q is orthonormal, spans the same space, Q^H W is triangular with the returned factor, overlap(W) = overlap(Q) x factors and energy / force bias are unchanged, through qr_vmap(_uhf) and orthonormalize_walkers/_orthogonalize_walkers of every propagator class; get_init_walkers for every kind x restricted flag x rdm1 source x spin-breaking angle (incl. pi/2-1e-4 and pi/2) must return orthonormal walkers of the right shape with overlap bounded away from zero or raise, and reproduce the variational energy for single determinants.",
        note="walker grids capped (256/243 points quick, 1024/729 thorough); energy invariance at 1e-9 / 2e-5 (complex64 kinds) / 6e-6..3e-5 (finite-difference kinds). Initial-walker call histories on one caller-owned wave_data (since seeded round 3). Walker count as an axis: every batch size 1..264 (1..520 thorough) contiguously through qr_vmap / qr_vmap_uhf, oracle per walker (since seeded round 6).",
        design="2/C13"),
    "C15": dict(
        engine="gridmc+seqmc",
        technique="exhaustive enumeration of unit matrices and polarisation sets for the congruence; breadth-first search over the group generated by Givens rotations, reflections and transpositions with cumulative application of rotate_orbs, invariants evaluated in every state and re-reached states compared",
        text="rotate_orbs is linear in (h1, chol) and quadratic in C: every X = E_ij in every slot and every C in {E_ab, E_ab+E_cd, dense invertible} decides C^T X C exactly (non-symmetric X and non-orthogonal C included); covariance by BFS over words of 15 generators to depth 3 (4 thorough), rotate_orbs applied cumulatively to the already rotated Hamiltonian (non-initial states), energies / force biases equal to the initial state's and overlap ratio 1 for rhf, uhf, ghf, noci trials in every state, states reached by different words compared.",
        note="norb <= 3 (4 thorough); multi-Slater and CI kinds are tied to their orbital basis and outside the quantifier. Call histories: several matrices applied to the same source dictionary and chained, input dictionary bitwise unchanged. Length of the Cholesky list: every count 1..280 (1..520 thorough) contiguously, each vector judged on its own (since seeded round 5).",
        design="2/C15"),
    "C07": dict(
        engine="probmc+schedmc",
        technique="exhaustive enumeration of all weight words over a 7-letter alphabet x every open interval of comb offsets between exact-rational breakpoints (exact integral of the count functions); stateless exploration of ALL schedules of R rank threads over a virtual MPI communicator (eager and rendezvous sends, deadlock / collective-mismatch detection, visited-state pruning for R=4)",
        text="Every weight vector of length <= 5 (6, and 8 on 5 letters, thorough) over {1,0,fraction,integer,negative,tiny,huge} and every open offset interval between breakpoints computed in exact rationals (plus the rounding-free exact ties) is run through all five comb implementations on index-tagged walkers: copies of existing walkers only, equal survivor weights, conserved |weight|, floor/ceil counts, zero weight never selected, exact mean N|w_i|/W, up/down copied together, agreement with a boring serial comb. The multi-rank comb is executed on R = 2..4 real rank bodies as threads under a controlled scheduler: every schedule (unpruned for R <= 3, visited-state pruned for R = 4; eager and rendezvous send semantics) must terminate without deadlock or collective mismatch with exactly one outcome, the serial comb of the rank-ordered population with rank 0's offset. Propagator wrappers: offset = uniform(split(key)[1]), key advanced once; not_a_comm == one-rank world.",
        note="offsets within 2^-30 of a breakpoint are not probed except at rounding-free ties; <= 8 walkers, <= 4 ranks; thorough also runs driver.afqmc on 2 rank threads under all schedules with <= 1 preemption. Call histories across populations of different dtype/shape in one process and weight letters far outside [1e-3,100] in the wrapper layer (since seeded round 3).",
        design="2/C07"),
    "C16": dict(
        engine="gridmc",
        technique="exhaustive enumeration of a finite catalogue (molecules x geometry ladder x basis x mean field x frozen core x Cholesky threshold / density fitting x basis_coeff x user integrals incl. Hubbard lattices x set-up options) through the real prep_afqmc -> files -> _prep_afqmc round trip, pyscf as independent solver",
        text="Each cell runs the real preparation step in its own directory, reads everything back through the real set-up routine and compares: trial variational energy (init_prop_data e_estimate) with the pyscf SCF energy, the lowest eigenvalue of the WRITTEN (h0,h1,chol) with pyscf FCI / frozen-core CASCI, the cisd/ucisd mixed energy at the reference determinant with the CC energy functional at the handed-over amplitudes, header and electron counts with mol.nelec. Tolerances are rigorous bounds derived from the pivoted-Cholesky residual, not fits. Quick = greedy covering array over every letter and 22 axis pairs (58 cells + CC sentinels), thorough = full product of 2118 cells.",
        note="only what the property admits (no UHF/UCCSD with frozen core, no frozen core with user integrals, CC on the default basis); CC on a non-aufbau reference and diverged CCSD cells are counted, not judged; quick tier is a covering array (exhaustive=false), thorough the full product. Density-fitting axis: auxiliary basis by name / as dict / left to pyscf, incl. orbital bases without a predefined fitting basis.",
        design="2/C16"),
    "C11": dict(
        engine="gridmc+seqmc",
        technique="exhaustive enumeration of determinant lists (every reference, list orders, cut-offs, three sources incl. binary file round trip and pyscf FCI vectors) x walker grids against sum_i c_i <A_i B_i|phi>; zero-variance identity for exact eigenvectors on the whole walker grid; driver.afqmc option cells with the exact trial",
        text="Every determinant of the orbital space as reference, single determinants, all pairs, ordered triples and dense vectors in all rotations / adjacent transpositions, cut-off needed+{0,1,3}, sources dict / Dice-layout binary file read back / pyscf FCI object; overlap equal to the explicit alpha-string x beta-string expansion on the walker grid (one oracle for all representations = the invariance claim). For exact eigenvectors of random Hamiltonians and pyscf FCI ground states of H2, H4, LiH the local energy equals the eigenvalue on the whole grid for every admissible reference and both containers (polynomial identity N - E O = 0), with a sign-flipped control; driver.afqmc over option cells returns every block energy = E_0, with a control run.",
        note="3 orbitals all fillings, 4 orbitals (2,1),(2,2); grids capped by homogeneous degree beyond 4096 points (quick declares caps); finite-difference energy tolerance 1e-5 relative (measured 1.7e-6). Lists with same-spin excitation rank 3 (4 thorough) on 6-8 orbitals and call histories on caller-owned state dicts / files / FCI objects (since seeded round 2).",
        design="2/C11"),
}

NOT_YET = {}


def main():
    props = [json.loads(l) for l in open(os.path.join(ROOT, "properties.jsonl"))]
    checks = []
    na = []
    for p in props:
        pid = p["id"]
        if pid in CHECKS:
            c = CHECKS[pid]
            checks.append({
                "property_id": pid,
                "quick_cmd": "./check %s --tier quick" % pid,
                "thorough_cmd": "./check %s --tier thorough" % pid,
                "evidence_file": "/verif/evidence/%s.json" % pid,
                "replay_cmd_template": "./check %s --replay {path}" % pid,
                "engine": c["engine"],
                "level_claimed": {"category": "model_checking", "text": c["text"], "design_ref": c["design"]},
                "level_note": c["note"],
                "technique": c["technique"],
            })
        else:
            na.append({"property_id": pid, "reason": NOT_YET.get(pid, "check not built yet in this round (bounded exhaustive formulation designed in DESIGN.md section 2); not claimed until it runs clean")})
    man = {
        "version": 1,
        "setup_cmd": "./check selftest",
        "hooks": {
            "guard": "ANKIT76_AD_AFQMC_VERIF",
            "enable": "checks import ad_afqmc straight from /repo's working tree (PYTHONPATH=/repo) with ANKIT76_AD_AFQMC_VERIF=1 exported by ./check; nothing is built",
            "baseline_off_cmd": "cd /repo && env -u ANKIT76_AD_AFQMC_VERIF /venv/bin/python -m pytest -ra -q -p no:cacheprovider --timeout=900 --continue-on-collection-errors",
            "source_commits": HOOK_COMMITS,
            "add_only": True,
        },
        "engines": [
            {"name": "gridmc", "path": "mc/gridmc.py", "serves_properties": ["C01", "C02", "C03", "C11", "C13", "C15", "C17", "C18", "C20"], "kind_free_text": "exhaustive Cartesian-product enumeration on the real code, Fock-space reference oracle"},
            {"name": "probmc", "path": "mc/probmc.py", "serves_properties": ["C04", "C05", "C07", "C10", "C19"], "kind_free_text": "every branch of a finite random experiment with its exact weight (quadrature nodes, discrete fields, comb intervals, Markov paths)"},
            {"name": "seqmc", "path": "mc/seqmc.py", "serves_properties": ["C05", "C06", "C08", "C09", "C12", "C14", "C15"], "kind_free_text": "breadth-first search over operation words / random streams of a virtual RNG, each transition on the real objects"},
            {"name": "schedmc", "path": "mc/schedmc.py", "serves_properties": ["C07"], "kind_free_text": "stateless exploration of all schedules of rank threads over a virtual MPI communicator"},
        ],
        "checks": checks,
        "not_applicable": na,
        "notes": "Every check is bounded exhaustive exploration (model checking) of the real implementation; see DESIGN.md. known_findings.json lists genuine defects (fixed ones suppress nothing).",
    }
    with open(os.path.join(ROOT, "MANIFEST.json"), "w") as f:
        json.dump(man, f, indent=1)
    print("MANIFEST.json: %d checks, %d not claimed" % (len(checks), len(na)))


HOOK_COMMITS = ["841d02d"]

if __name__ == "__main__":
    main()
