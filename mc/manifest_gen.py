"""Regenerates MANIFEST.json from the table below (run: /venv/bin/python -m mc.manifest_gen)."""
import json
import os

ROOT = os.path.dirname(os.path.dirname(os.path.abspath(__file__)))

CHECKS = {
    "C01": dict(
        engine="gridmc",
        technique="exhaustive enumeration of configuration matrix x CI-parameter basis x walker product grid on the real code, against a second-quantised reference model",
        text="Every cell of trial kind x (norb,n_up,n_dn) x orbital variant x reference determinant x entry point x batch count is executed on the real library over a complete product grid of complex walker matrices (d+1 non-real letters per matrix entry, d = polynomial degree of the overlap in that entry) and over a basis of the CI parameters; the oracle is the inner product written out in Fock space. For implementations in the stated degree class the grid decides the identity for every walker (combinatorial Nullstellensatz); otherwise it is a dense exhaustive test. Bounded exhaustive exploration is the right level because the defects live in configuration corners no sampled test visits.",
        note="norb <= 3 (quick) / 4 (thorough), grids capped at 2^16 / 3^9 points (caps reported in evidence), real trial parameters, orthogonal CI bases; trusts NumPy determinants and the Fock reference (self-tested against an independent Jordan-Wigner construction).",
        design="2/C01"),
    "C02": dict(
        engine="gridmc",
        technique="exhaustive enumeration of trial kinds x sizes x Hamiltonian basis (units, pair sums, slot pairs, dense) x walker product grid on the real code, against <psi|H|phi>/<psi|phi> in Fock space; step-size ladder for the finite-difference trials",
        text="The local energy is affine in (h0,h1) and quadratic in each Cholesky matrix, and its numerator is a low-degree polynomial in the walker entries, so evaluating every Hamiltonian of a polarisation basis on a complete walker product grid decides the identity for the implementation's degree class and is an exhaustive structured test otherwise; all trial kinds, both walker containers, spin-dependent one-body terms where the property admits them. The AD/finite-difference trials are additionally checked for quadratic convergence on a step ladder.",
        note="norb <= 3 (+ two 4-orbital sizes) quick / 4 thorough; walker grids capped at 2^12 / 3^8 points for the energy (caps reported); walkers within 1e-2 of a node of the reference overlap excluded beforehand; tolerances 1e-9 (float64), 2e-5 (complex64 intermediates of cisd/ucisd), 3e-6 at the default FD step.",
        design="2/C02"),
    "C03": dict(
        engine="gridmc",
        technique="exhaustive enumeration of trial kinds x sizes x Cholesky basis x walker product grid on the real code, against <psi|L_g|phi>/<psi|phi> in Fock space and the log-derivative of the public overlap",
        text="The force bias is linear in each Cholesky matrix; every symmetric unit matrix plus a dense triple (g-axis order) on a complete walker product grid decides it for all trial kinds (Green's-function, reverse-mode AD and hand-coded implementations are all compared with the same Fock-space mixed expectation, hence with each other) and both walker containers; the defining logarithmic derivative is checked through the public calc_overlap by central differences.",
        note="same bounds as C02; central-difference comparison at 1e-5 relative.",
        design="2/C03"),
    "C04": dict(
        engine="probmc",
        technique="exact Gaussian field average by enumerating every tensor Gauss-Hermite node through the real propagate() (hooked importance function), dt-ladder ratio test against scipy expm in Fock space; exhaustive field/weight/shift words for the weight-rule branches",
        text="The auxiliary field is the environment: every node of a tensor Gauss-Hermite rule (16, 12^2, 8^3 nodes) is played as one walker of one real propagate() call, so the field average is computed exactly (probabilistic model checking) instead of sampled; it is compared with exp(-dt(H-E_shift)) on a seven-step dt ladder (ratio per halving >= 3 in the small-dt tail), over propagator x trial kind x n_chol x mean-field rdm1 x walker x shift. The propagated walker, the importance function, theta, the stored overlap and the applied weight are each compared node by node with explicit-matrix references, and every branch of the weight rule (cos<=0, <1e-3, >100, product>100, normal) is forced by an exhaustive field/weight/shift alphabet and counted.",
        note="norb <= 3 quick / 4 thorough; quadrature/round-off floor 2e-9; reads imp_fun/theta through the guarded add-only hook; restricted propagator compared with the spin-averaged h1 it is documented to use.",
        design="2/C04"),
    "C19": dict(
        engine="gridmc+probmc",
        technique="exhaustive enumeration of all sample/weight words over small alphabets (algebraic identities) and of every path of i.i.d. / two-state Markov series with exact probabilities (exact expectation of the squared error bar)",
        text="All weight/sample words of length 4-7 (9 thorough) over 3x2-letter alphabets with every equilibration cut, rescaling and shift decide the algebraic statements (mean, block-size-1 formula with the documented (n_blocks-1) normalisation, plateau rule, invariances, constant data); the statistical statements are decided exactly by enumerating every path of nine i.i.d./Markov ensembles (length <= 14 quick / 20 thorough) with its probability, and for AR(1) by reading the estimator as a quadratic form on a complete polarisation set and contracting with the exact covariance; outlier rejection and jackknife on all words against brute force.",
        note="block estimates read from the routine's printed table (1e-6 relative), returned values at 1e-9; comparisons within 1e-12 of the 5% plateau threshold skipped and counted.",
        design="2/C19"),
    "C20": dict(
        engine="gridmc",
        technique="exhaustive enumeration of every lattice kind, side-length tuple and site within bounds; graph invariants and pytree/jit round trips checked on each",
        text="Chains 2..8 (32 thorough), rectangular and triangular grids (periodic and open) for every ordered side pair in 2..6 (10), cubic grids for every side triple in 2..4 (6): constructibility, site numbering bijection, neighbour symmetry/irreflexivity, adjacency symmetry/regularity/degree bound, equality/hash, flatten-unflatten and a real jit boundary preserving every dataclass field and the adjacency matrix.",
        note="open triangular lattices with an odd number of rows are counted but not judged (outside the property's parenthesis); default hop_signs/coord_num.",
        design="2/C20"),
}

NOT_YET = {}


def main():
    props = [json.loads(l) for l in open(os.path.join(ROOT, "properties.jsonl"))]
    checks = []
    na = []
    for p in props:
        pid = p["id"]
        if pid in CHECKS:
            c = CHECKS[pid]
            checks.append({
                "property_id": pid,
                "quick_cmd": "./check %s --tier quick" % pid,
                "thorough_cmd": "./check %s --tier thorough" % pid,
                "evidence_file": "/verif/evidence/%s.json" % pid,
                "replay_cmd_template": "./check %s --replay {path}" % pid,
                "engine": c["engine"],
                "level_claimed": {"category": "model_checking", "text": c["text"], "design_ref": c["design"]},
                "level_note": c["note"],
                "technique": c["technique"],
            })
        else:
            na.append({"property_id": pid, "reason": NOT_YET.get(pid, "check not built yet in this round (bounded exhaustive formulation designed in DESIGN.md section 2); not claimed until it runs clean")})
    man = {
        "version": 1,
        "setup_cmd": "./check selftest",
        "hooks": {
            "guard": "ANKIT76_AD_AFQMC_VERIF",
            "enable": "checks import ad_afqmc straight from /repo's working tree (PYTHONPATH=/repo) with ANKIT76_AD_AFQMC_VERIF=1 exported by ./check; nothing is built",
            "baseline_off_cmd": "cd /repo && env -u ANKIT76_AD_AFQMC_VERIF /venv/bin/python -m pytest -ra -q -p no:cacheprovider --timeout=900 --continue-on-collection-errors",
            "source_commits": HOOK_COMMITS,
            "add_only": True,
        },
        "engines": [
            {"name": "gridmc", "path": "mc/gridmc.py", "serves_properties": ["C01", "C02", "C03", "C11", "C13", "C15", "C17", "C18", "C20"], "kind_free_text": "exhaustive Cartesian-product enumeration on the real code, Fock-space reference oracle"},
            {"name": "probmc", "path": "mc/probmc.py", "serves_properties": ["C04", "C05", "C07", "C10", "C19"], "kind_free_text": "every branch of a finite random experiment with its exact weight (quadrature nodes, discrete fields, comb intervals, Markov paths)"},
            {"name": "seqmc", "path": "mc/seqmc.py", "serves_properties": ["C05", "C06", "C08", "C09", "C12", "C14", "C15"], "kind_free_text": "breadth-first search over operation words / random streams of a virtual RNG, each transition on the real objects"},
            {"name": "schedmc", "path": "mc/schedmc.py", "serves_properties": ["C07"], "kind_free_text": "stateless exploration of all schedules of rank threads over a virtual MPI communicator"},
        ],
        "checks": checks,
        "not_applicable": na,
        "notes": "Every check is bounded exhaustive exploration (model checking) of the real implementation; see DESIGN.md. known_findings.json lists genuine defects (fixed ones suppress nothing).",
    }
    with open(os.path.join(ROOT, "MANIFEST.json"), "w") as f:
        json.dump(man, f, indent=1)
    print("MANIFEST.json: %d checks, %d not claimed" % (len(checks), len(na)))


HOOK_COMMITS = ["841d02d"]

if __name__ == "__main__":
    main()
