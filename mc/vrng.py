"""Virtual random source: the harness owns every random number the samplers consume.

`sampling.random`, `propagation.random` and `driver.random` are the `jax.random` module bound in those
modules' namespaces.  install() rebinds them (from outside - no repository change) to a namespace whose
draws are table look-ups:

    key              = uint32[2] = [stream id, draw counter]
    PRNGKey(s)       = [s, 0]
    split(key)       = ([s, c+1], [s, c])        (carried key, subkey)   -- the library's usage pattern
    normal(sub, shp) = TABLE_N[s, c]             uniform(sub, shp) = TABLE_U[s, c]

Tables are NumPy constants baked into the traced program, so ONE compilation serves every stream of a job
(the stream is selected by key[0], a runtime value).  Because jit caches do not know about the rebinding,
install() clears JAX's caches; a job installs its table once, before its first trace, and every call asserts
(through the draw log of an eager probe) that the virtual source is really the one being traced.
"""

import itertools

import numpy as np

_STATE = {"installed": None, "saved": {}}


class VRandom:
    def __init__(self, table_n, table_u, table_u_shaped=None):
        # optional {shape: (S, C, *shape)} tables for non-scalar uniform draws (CPMC neighbour propagators)
        self.table_u_shaped = {tuple(k): np.asarray(v, dtype=np.float64) for k, v in (table_u_shaped or {}).items()}
        # (S, C, *shape_n), or {shape_n: (S, C, *shape_n)} when draws of several shapes occur (driver runs)
        if isinstance(table_n, dict):
            self.table_n = {tuple(k): np.asarray(v, dtype=np.float64) for k, v in table_n.items()}
        else:
            t = np.asarray(table_n, dtype=np.float64)
            self.table_n = {tuple(t.shape[2:]): t}
        self.table_u = np.asarray(table_u, dtype=np.float64)  # (S, C)
        self.calls = {"normal": 0, "uniform": 0, "split": 0}
        self.shapes = set()

    # the subset of jax.random the library uses
    def PRNGKey(self, seed):
        import jax.numpy as jnp

        return jnp.array([seed, 0], dtype=jnp.uint32)

    def split(self, key, num=2):
        import jax.numpy as jnp

        assert num == 2
        self.calls["split"] += 1
        return jnp.stack([key.at[1].add(1), key])

    def normal(self, key, shape=(), dtype=None):
        import jax.numpy as jnp

        self.calls["normal"] += 1
        self.shapes.add(tuple(shape))
        if tuple(shape) not in self.table_n:
            raise AssertionError("virtual RNG: normal draw of shape %r requested, tables provide %r" % (tuple(shape), list(self.table_n)))
        return jnp.asarray(self.table_n[tuple(shape)])[key[0], key[1]]

    def uniform(self, key, shape=(), dtype=None, minval=0.0, maxval=1.0):
        import jax.numpy as jnp

        self.calls["uniform"] += 1
        if tuple(shape) != ():
            if tuple(shape) not in self.table_u_shaped:
                raise AssertionError("virtual RNG: uniform draw of shape %r not tabulated" % (tuple(shape),))
            return jnp.asarray(self.table_u_shaped[tuple(shape)])[key[0], key[1]]
        return jnp.asarray(self.table_u)[key[0], key[1]]


def install(table_n, table_u, table_u_shaped=None):
    """Rebind the library's `random` names to a fresh VRandom and drop every jit cache."""
    import jax
    from ad_afqmc import driver, propagation, sampling

    vr = VRandom(table_n, table_u, table_u_shaped)
    for mod in (sampling, propagation, driver):
        if mod.__name__ not in _STATE["saved"]:
            _STATE["saved"][mod.__name__] = mod.random
        mod.random = vr
    jax.clear_caches()
    _STATE["installed"] = vr
    return vr


def uninstall():
    import jax
    from ad_afqmc import driver, propagation, sampling

    for mod in (sampling, propagation, driver):
        if mod.__name__ in _STATE["saved"]:
            mod.random = _STATE["saved"][mod.__name__]
    jax.clear_caches()
    _STATE["installed"] = None


def key(stream, counter=0):
    import jax.numpy as jnp

    return jnp.array([stream, counter], dtype=jnp.uint32)


def words(letters, length):
    """All words of a given length over the letters, simplest first (letter 0 = the neutral letter)."""
    return np.array(list(itertools.product(letters, repeat=length)), dtype=float)


def stream_tables(n_draws, shape_n, normal_words, uniform_words, normal_draws, uniform_draws):
    """Build (TABLE_N, TABLE_U) for the product of all normal words x all uniform words.

    normal_draws / uniform_draws: the draw counters (in order) at which the program consumes normal / uniform
    numbers.  A normal word supplies prod(shape_n)*len(normal_draws) scalars (draw-major), a uniform word
    len(uniform_draws) scalars.  Stream id = i_normal * n_uniform_words + i_uniform."""
    per = int(np.prod(shape_n))
    Sn, Su = len(normal_words), max(1, len(uniform_words))
    S = Sn * Su
    tn = np.zeros((S, n_draws) + tuple(shape_n))
    tu = np.full((S, n_draws), 0.5)
    for i in range(Sn):
        for j in range(Su):
            s = i * Su + j
            for k, c in enumerate(normal_draws):
                tn[s, c] = np.asarray(normal_words[i][k * per:(k + 1) * per]).reshape(shape_n)
            for k, c in enumerate(uniform_draws):
                if len(uniform_words):
                    tu[s, c] = uniform_words[j][k]
    return tn, tu
