"""C03 -- force bias equals <psi_T|L_g|phi>/<psi_T|phi>; forward/reverse/hand-coded agree.  Engine: gridmc."""

import numpy as np

from mc import alphabets as al
from mc import fock, gridmc, trials
from mc.core import Result

ID = "C03"
TECHNIQUE = "exhaustive product-grid enumeration (trial kinds x sizes x Cholesky basis x walker grid) against <psi|L_g|phi>/<psi|phi> in Fock space, plus log-derivative of the public overlap"
TOL = 1e-9
NODE_FRAC = 1e-2
SLOTS = 3


def configs(tier, seed):
    thorough = tier == "thorough"
    out = []
    for kind in trials.KINDS_ALL:
        nmax = 4 if thorough else 3
        for (n, na, nb) in al.sizes(nmax):
            if not trials.admitted(kind, n, na, nb):
                continue
            if nb == 0 and kind in trials.NEED_BOTH_SPINS:
                continue
            if n == na and n == nb and n > 2:
                continue
            variants = [""]
            if kind in ("uhf", "uhf_cpmc"):
                variants = ["same", ""] + (["complex"] if kind == "uhf" else [])
            if kind == "rhf":
                variants = ["", "complex"]
            if kind in ("ghf", "noci"):
                variants = ["", "complex"] + (["complex_orth"] if kind == "noci" else [])
            if kind == "multislater":
                ndet = len(trials.all_dets(n, na, nb))
                variants = ["ref:%d" % k for k in (range(ndet) if (thorough or ndet <= 4) else sorted(set([0, 1, ndet // 2, ndet - 1])))]
            for v in variants:
                out.append(dict(kind=kind, n=n, na=na, nb=nb, variant=v, seed=seed, tier=tier))
        if not thorough:
            for (n, na, nb) in [(4, 2, 2), (4, 2, 1)]:
                if trials.admitted(kind, n, na, nb):
                    v = {"uhf": "same", "uhf_cpmc": "same", "multislater": "ref:2"}.get(kind, "")
                    out.append(dict(kind=kind, n=n, na=na, nb=nb, variant=v, seed=seed, tier=tier, lite=True))
    # minority-spin-up sectors (n_dn > n_up): admissible for unrestricted walkers only (a restricted walker holds the
    # majority block first); every kind that admits the mirrored sector must admit these
    for kind in trials.KINDS_ALL:
        for (n, na, nb) in ([(3, 1, 2), (4, 1, 2), (4, 1, 3), (4, 2, 3)] if thorough else [(3, 1, 2)]):
            if trials.admitted(kind, n, nb, na) and trials.admitted(kind, n, na, nb) and kind not in trials.CLOSED_ONLY:
                v = {"uhf": "", "uhf_cpmc": "", "multislater": "ref:2"}.get(kind, "")
                out.append(dict(kind=kind, n=n, na=na, nb=nb, variant=v, seed=seed, tier=tier, lite=(n == 4)))
    cost = lambda c: -((4 if c["kind"] in trials.AUTO_KINDS else 1) * (3 ** (c["n"] * c["na"]) + 2 ** (c["n"] * (c["na"] + c["nb"]))))
    out.sort(key=cost)
    return out


def chol_alphabet(n, seed, thorough):
    """Force bias is linear in every Cholesky matrix: each symmetric unit in slot 0 decides it; a dense
    triple in three slots checks the g axis (order, no mixing between slots)."""
    Z = np.zeros((SLOTS, n, n))
    out = []
    for (p, q), M in al.sym_basis(n):
        c = Z.copy()
        c[0] = M
        out.append(("unit[%d%d]" % (p, q), c))
    if thorough:
        for (p, q), M in al.sym_basis(n):
            c = Z.copy()
            c[SLOTS - 1] = M
            out.append(("unitlast[%d%d]" % (p, q), c))
    out.append(("dense", np.array([al.dense_sym(n, seed, 40 + g, 0.6) for g in range(SLOTS)])))
    return out


def eval_fb(trial, wd, hd, mode, entry, Wa, Wb):
    jnp, wf = trials.lib()
    J = gridmc.jitted
    if mode == "u":
        ja, jb = jnp.asarray(Wa), jnp.asarray(Wb)
        if entry == "eager":
            return np.asarray(trial.calc_force_bias([ja, jb], hd, wd))
        if entry == "batched":
            return np.asarray(J(trial, "calc_force_bias")([ja, jb], hd, wd))
        return np.asarray(J(trial, "_calc_force_bias", (0, 0, None, None))(ja, jb, hd, wd))
    jw = jnp.asarray(Wa)
    if entry == "eager":
        return np.asarray(trial.calc_force_bias(jw, hd, wd))
    if entry == "batched":
        return np.asarray(J(trial, "calc_force_bias")(jw, hd, wd))
    return np.asarray(J(trial, "_calc_force_bias_restricted", (0, None, None))(jw, hd, wd))


def eval_ovlp(trial, wd, mode, Wa, Wb):
    jnp, wf = trials.lib()
    J = gridmc.jitted
    if mode == "u":
        return np.asarray(J(trial, "calc_overlap")([jnp.asarray(Wa), jnp.asarray(Wb)], wd))
    return np.asarray(J(trial, "calc_overlap")(jnp.asarray(Wa), wd))


def cap_for(mode, lite):
    if mode == "r":
        return 8 if not lite else 6
    return 12 if not lite else 10


def job(cfg):
    from scipy.linalg import expm

    res = Result()
    kind, n, na, nb, seed = cfg["kind"], cfg["n"], cfg["na"], cfg["nb"], cfg["seed"]
    thorough = cfg["tier"] == "thorough"
    lite = cfg.get("lite", False)
    tc = trials.build(kind, n, na, nb, seed, cfg["variant"], full_basis=thorough and not lite and kind != "multislater")
    sec = fock.sector(n, na, nb)
    modes = []
    if tc.unrestricted_ok:
        modes.append("u")
    if tc.restricted_ok and na >= nb:
        modes.append("r")
    chols = chol_alphabet(n, seed, thorough and not lite)
    Zh = np.zeros((2, n, n))
    # a container the kind does not support (hand-coded cisd on unrestricted walkers ...): refusing is fine, answering is
    # fine only if the answer is right -- "not implemented" must not quietly become "implemented for equal spin blocks"
    if not tc.unrestricted_ok and cfg["variant"] == "" and not lite:
        gridu = al.walker_grid(n, na, nb, seed, restricted=False, cap=3)
        Wau, Wbu, Phiu = gridmc.lab_walkers(tc, gridu, False)
        p = tc.params[-1]
        trial = gridmc.trial_for(tc, len(tc.params) - 1)
        cl, chol = chols[-1]
        hd = gridmc.build_ham_data(n, 0.0, Zh, chol, trial, p.wave_data)
        try:
            fbu = eval_fb(trial, p.wave_data, hd, "u", "batched", Wau, Wbu)
        except Exception:
            fbu = None
            res.guard("unsupported_container_refused", 1)
        res.add(states=1, transitions=1, evaluations=1, traces=1)
        if fbu is not None:
            res.guard("unsupported_container_answered", 1)
            O_ref = np.conj(p.ket) @ Phiu
            good = np.abs(O_ref) > NODE_FRAC * np.abs(O_ref).max()
            fb_ref = np.array([((np.conj(p.ket) @ Lh) @ Phiu)[good] / O_ref[good] for Lh in sec.chol_ops(chol)]).T
            err = np.abs(fbu[good] - fb_ref).max(axis=1) / max(1.0, np.abs(fb_ref).max())
            err = np.where(np.isfinite(fbu[good]).all(axis=1), err, np.inf)
            bad = gridmc.first_bad(err, TOL)
            if bad is not None:
                res.violation("%s/u/force_bias/answers-an-unsupported-container-wrongly" % kind,
                              dict(cfg, mode="u", entry="unsupported", label=p.label, chol=cl, point=int(np.nonzero(good)[0][bad])),
                              dict(impl=fbu[good][bad], ref=fb_ref[bad], err=float(err[bad])))
    for mode in modes:
        grid = al.walker_grid(n, na, nb, seed, restricted=(mode == "r"), cap=cap_for(mode, lite))
        if grid["capped"]:
            res.cap("%s n=%d (%d,%d) mode %s: %d of %d walker entries enumerated" % (kind, n, na, nb, mode, len(grid["free"]), grid["entries"]))
        Wa, Wb, Phi = gridmc.lab_walkers(tc, grid, mode == "r")
        P = grid["P"]
        if kind == "multislater":
            dmin = gridmc.multislater_blocks_ok(tc, Wa, Wb, mode)
            if dmin < 1e-3:
                res.cap("multislater %s mode %s: a reference block is singular on the grid (min|det|=%.1e); configuration not decided" % (cfg["variant"], mode, dmin))
                continue
        for ip, p in enumerate(tc.params):
            trial = gridmc.trial_for(tc, ip)
            O_ref = np.conj(p.ket) @ Phi
            good = np.abs(O_ref) > NODE_FRAC * np.abs(O_ref).max()
            res.guard("near_node_excluded", int((~good).sum()))
            ng = int(good.sum())
            full = (ip == 0) or (p.label == "dense")
            for (cl, chol) in chols:
                if not full and cl != "dense":
                    continue
                ops = sec.chol_ops(chol)
                fb_ref = np.array([((np.conj(p.ket) @ Lh) @ Phi)[good] / O_ref[good] for Lh in ops]).T  # (ng, slots)
                scale = max(1.0, np.abs(fb_ref).max())
                hd = gridmc.build_ham_data(n, 0.0, Zh, chol, trial, p.wave_data)
                entries = ["batched"]
                if cl == "dense" and full:
                    entries += ["single"] + (["eager"] if ip == 0 else [])
                for entry in entries:
                    tr = trial
                    hd_e = hd
                    if entry == "batched" and cl == "dense":
                        tr = gridmc.with_batch(trial, gridmc.batch_counts(P, False)[-1])
                        hd_e = gridmc.build_ham_data(n, 0.0, Zh, chol, tr, p.wave_data)
                    fb = eval_fb(tr, p.wave_data, hd_e, mode, entry, Wa, Wb)[good]
                    err = np.abs(fb - fb_ref).max(axis=1) / scale
                    err = np.where(np.isfinite(fb).all(axis=1), err, np.inf)
                    res.add(states=ng, transitions=ng, evaluations=ng, traces=ng)
                    bad = gridmc.first_bad(err, TOL)
                    if bad is not None:
                        pt = int(np.nonzero(good)[0][bad])
                        res.violation("%s/%s/force_bias/chol:%s/par:%s" % (kind, mode, gridmc.ham_class(cl), gridmc.param_class(p.label)),
                                      dict(cfg, mode=mode, entry=entry, n_batch=int(tr.n_batch), label=p.label, chol=cl, point=pt),
                                      dict(impl=fb[bad], ref=fb_ref[bad], err=float(err[bad]), n_bad=int((~(err <= TOL)).sum()), n_points=ng))
                if cl == "dense" and full:
                    res.nontrivial_values((kind, n, na, nb, cfg["variant"], mode, p.label), fb_ref[:, 0], 9)
                    # scale invariance: a walker with tiny columns has a tiny but non-vanishing overlap and the same force bias
                    for sc in (1e-3, 1e3):
                        fbs = eval_fb(trial, p.wave_data, hd, mode, "batched", Wa * sc, None if Wb is None else Wb * sc)[good]
                        es = np.abs(fbs - fb_ref).max(axis=1) / scale
                        es = np.where(np.isfinite(fbs).all(axis=1), es, np.inf)
                        res.add(transitions=ng, evaluations=ng)
                        res.guard("scaled_walker_points", ng)
                        bad = gridmc.first_bad(es, 1e-8)
                        if bad is not None:
                            pt = int(np.nonzero(good)[0][bad])
                            res.violation("%s/%s/force_bias/not-scale-invariant/par:%s" % (kind, mode, gridmc.param_class(p.label)),
                                          dict(cfg, mode=mode, entry="scaled", label=p.label, chol=cl, point=pt, scale=sc),
                                          dict(impl=fbs[bad], ref=fb_ref[bad], err=float(es[bad]), walker_scale=sc))
                    # the defining log-derivative of the *public* overlap along exp(x L_g) W (central differences)
                    for g in (0, SLOTS - 1):
                        h = 1e-4
                        Ep, Em = expm(h * chol[g]), expm(-h * chol[g])
                        if mode == "u":
                            Op = eval_ovlp(trial, p.wave_data, mode, np.einsum("pq,wqk->wpk", Ep, Wa), np.einsum("pq,wqk->wpk", Ep, Wb))
                            Om = eval_ovlp(trial, p.wave_data, mode, np.einsum("pq,wqk->wpk", Em, Wa), np.einsum("pq,wqk->wpk", Em, Wb))
                            O0 = eval_ovlp(trial, p.wave_data, mode, Wa, Wb)
                        else:
                            Op = eval_ovlp(trial, p.wave_data, mode, np.einsum("pq,wqk->wpk", Ep, Wa), None)
                            Om = eval_ovlp(trial, p.wave_data, mode, np.einsum("pq,wqk->wpk", Em, Wa), None)
                            O0 = eval_ovlp(trial, p.wave_data, mode, Wa, None)
                        fd = ((Op - Om) / (2 * h) / O0)[good]
                        fbg = eval_fb(trial, p.wave_data, hd, mode, "batched", Wa, Wb)[good][:, g]
                        e2 = np.abs(fd - fbg) / scale
                        res.add(transitions=ng, evaluations=ng)
                        bad = gridmc.first_bad(e2, 1e-5)
                        if bad is not None:
                            pt = int(np.nonzero(good)[0][bad])
                            res.violation("%s/%s/force_bias-vs-logderivative/par:%s" % (kind, mode, gridmc.param_class(p.label)),
                                          dict(cfg, mode=mode, entry="logder", label=p.label, chol=cl, point=pt, g=g),
                                          dict(fd=fd[bad], fb=fbg[bad], err=float(e2[bad])))
                        res.guard("logderivative_points", ng)
        res.guard("grid_points_" + mode, P)
    res.sample(dict(kind=kind, n=n, nelec=[na, nb], variant=cfg["variant"], modes=modes, n_param_sets=len(tc.params),
                    chol_labels=[c[0] for c in chols][:8]))
    return res


def run(ctx):
    ctx.rule = ("configurations = trial kind x (norb,n_up,n_dn) x variant x {unrestricted, restricted} x Cholesky alphabet (every "
                "symmetric unit matrix as L_0; a dense triple for the g axis) x trial-parameter sets x full walker product grid; "
                "oracle <psi|L_g|phi>/<psi|phi> in Fock space for every component, and the central-difference log-derivative of the "
                "public calc_overlap along exp(x L_g); non-trivial & distinct = distinct reference force-bias values on the dense set")
    ctx.assume("walkers with reference overlap < 1e-2 of the grid maximum excluded beforehand (property: non-vanishing overlap)")
    ctx.pmap(job, configs(ctx.tier, ctx.seed), tasks_per_child=2)
    ctx.require_guard("grid_points_u", "grid_points_r", "logderivative_points", "unsupported_container_refused")


def replay(case):
    cfg = dict(case)
    kind, n, na, nb, seed = cfg["kind"], cfg["n"], cfg["na"], cfg["nb"], cfg["seed"]
    thorough = cfg["tier"] == "thorough"
    lite = cfg.get("lite", False)
    if cfg.get("entry") in ("logder", "scaled", "unsupported"):
        r = job({k: v for k, v in cfg.items() if k not in ("mode", "entry", "label", "chol", "point", "g", "scale", "n_batch")})
        v = [x for x in r.violations if ("logderivative" in x["signature"] or "scale-invariant" in x["signature"] or "unsupported" in x["signature"])]
        return (len(v) > 0, {"violations": [x["detail"] for x in v][:1]})
    tc = trials.build(kind, n, na, nb, seed, cfg["variant"], full_basis=thorough and not lite and kind != "multislater")
    sec = fock.sector(n, na, nb)
    mode = cfg["mode"]
    grid = al.walker_grid(n, na, nb, seed, restricted=(mode == "r"), cap=cap_for(mode, lite))
    Wa, Wb, Phi = gridmc.lab_walkers(tc, grid, mode == "r")
    ip = [k for k, q in enumerate(tc.params) if q.label == cfg["label"]][0]
    p = tc.params[ip]
    trial = gridmc.trial_for(tc, ip)
    cl, chol = [c for c in chol_alphabet(n, seed, thorough and not lite) if c[0] == cfg["chol"]][0]
    i = cfg["point"]
    phi = Phi[:, i]
    fb_ref = np.array([(np.conj(p.ket) @ Lh @ phi) / (np.conj(p.ket) @ phi) for Lh in sec.chol_ops(chol)])
    # replay the history too: the dictionary was prepared for another set of Cholesky matrices before
    dchol = np.array([al.dense_sym(n, seed, 90 + g, 0.7) for g in range(len(chol))])
    gridmc.build_ham_data(n, 0.0, np.zeros((2, n, n)), dchol, trial, p.wave_data)
    hd = gridmc.build_ham_data(n, 0.0, np.zeros((2, n, n)), chol, trial, p.wave_data)
    sl = slice(i, i + 1)
    if cfg.get("entry") in ("batched", "eager"):  # batch-order defects only show on the whole batch
        tr = gridmc.with_batch(trial, cfg.get("n_batch", 1))
        gridmc.build_ham_data(n, 0.0, np.zeros((2, n, n)), dchol, tr, p.wave_data)
        hd = gridmc.build_ham_data(n, 0.0, np.zeros((2, n, n)), chol, tr, p.wave_data)
        fb = eval_fb(tr, p.wave_data, hd, mode, cfg["entry"], Wa, Wb)[i]
    else:
        fb = eval_fb(trial, p.wave_data, hd, mode, "single", Wa[sl], None if Wb is None else Wb[sl])[0]
    err = np.abs(fb - fb_ref).max() / max(1.0, np.abs(fb_ref).max())
    return (not err <= TOL, dict(impl=fb, ref=fb_ref, err=float(err)))
