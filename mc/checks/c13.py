"""C13 -- orthonormalisation and initial walkers never change the represented state.  Engine: gridmc.

Part A (job_qr): qr_vmap / qr_vmap_uhf / propagator.orthonormalize_walkers / _orthogonalize_walkers on walker
product grids (full column rank by construction) x column scalings {1, 1e+-6} x both containers x every
trial kind: Q^H Q = 1, Q (Q^H W) = W, Q^H W upper triangular, returned factor = prod diag(Q^H W),
overlap(W) = overlap(Q) x factors, energy / force bias unchanged.

Part B (job_init): get_init_walkers for every trial kind x size x restricted flag x n_walkers x density-matrix
letter: orthonormal, shape, count, trial overlap (Fock model) bounded away from zero or ValueError, and for
single-determinant trials whose state the container can represent calc_energy(init) = <psi|H|psi>/<psi|psi>.
"""

import numpy as np

from mc import alphabets as al
from mc import fock, gridmc, trials
from mc.core import Result

ID = "C13"
TECHNIQUE = ("exhaustive product-grid enumeration (trial kinds x sizes x containers x column scalings x walker grid) of the QR "
             "identities and of measurement invariance; exhaustive configuration matrix for get_init_walkers against a Fock-space reference"
             "; every call history up to a length over {get_init_walkers(restricted=False/True), init_prop_data, replace orbitals, optimize} "
             "on ONE caller-owned wave_data dict (caller's dict unchanged, walkers represent the CURRENT orbitals)")

NODE_FRAC = 1e-2
C64_KINDS = {"cisd", "cisd_faster", "ucisd"}
TOL_ALG = 1e-11      # pure QR algebra (column-relative)
TOL_OVLP = 1e-9
OVLP_MIN = 1e-3      # "bounded away from zero": the threshold the generator itself documents
SPIN_DEP_KINDS = {"uhf", "ghf", "noci", "multislater", "UCISD", "ucisd", "GCISD", "uhf_cpmc", "ghf_cpmc"}
SCALINGS = ["none", "hi-lo", "lo-hi"]


def tol_energy(kind, pat):
    """local energy 'unchanged' between W and Q, by arithmetic class of the energy routine (cf. C02):
    float64 formulas 1e-9; kinds with a complex64 intermediate 2e-5; finite-difference kinds (second difference with
    step eps = 1e-4, round-off ~ 1e-16 kappa / eps^2): each evaluation is within 3e-6 of the exact value on well scaled
    walkers (C02), so two of them differ by <= 6e-6; on the 1e+-6 column scalings the round-off of the second difference
    grows with the dynamic range of the walker entries and 3e-5 is allowed."""
    if kind in trials.AUTO_KINDS:
        return 6e-6 if pat == "none" else 3e-5
    if kind in C64_KINDS:
        return 2e-5
    return 1e-9


TOL_FB = 1e-9  # force bias is exact algebra / AD for every kind (C03)


def scal_vec(k, pat, flip=False):
    if pat == "none":
        return np.ones(k)
    base = [1e6, 1e-6] if (pat == "hi-lo") != flip else [1e-6, 1e6]
    return np.array([base[i % 2] for i in range(k)])


# ----------------------------------------------------------------------------- part A: QR
def qr_identities(W, Q, f):
    """Column-relative residuals of the QR contract for a batch.  W, Q: (P, n, k); f: (P,).
    Returns dict of per-walker error arrays and R = Q^H W."""
    W, Q, f = np.asarray(W), np.asarray(Q), np.asarray(f)
    P, n, k = W.shape
    if Q.shape != W.shape or f.shape != (P,):
        return dict(shape=np.full(P, np.inf)), None
    if k == 0:
        return dict(factor=np.abs(f - 1.0)), np.zeros((P, 0, 0))
    cn = np.linalg.norm(W, axis=1)  # (P, k) column norms
    G = np.einsum("wpi,wpj->wij", np.conj(Q), Q)
    R = np.einsum("wpi,wpj->wij", np.conj(Q), W)
    Rn = R / cn[:, None, :]
    low = np.tril(np.ones((k, k)), -1)
    dR = np.prod(np.einsum("wii->wi", R), axis=1)
    out = dict(
        orth=np.abs(G - np.eye(k)).max(axis=(1, 2)),
        tri=np.abs(Rn * low).max(axis=(1, 2)),
        span=(np.abs(np.einsum("wpi,wij->wpj", Q, R) - W) / cn[:, None, :]).max(axis=(1, 2)),
        factor=np.abs(f - dR) / np.abs(dR),
    )
    for key in out:
        out[key] = np.where(np.isfinite(out[key]), out[key], np.inf)
    return out, R


def well_conditioned(W):
    """Input pre-check: smallest singular value of the column-normalised block (full column rank, bounded)."""
    W = np.asarray(W)
    if W.shape[2] == 0:
        return np.ones(W.shape[0], dtype=bool)
    Wn = W / np.linalg.norm(W, axis=1)[:, None, :]
    s = np.linalg.svd(Wn, compute_uv=False)
    return s[:, -1] > 1e-2


QSIZES = [(2, 1, 1), (2, 2, 1), (3, 1, 1), (3, 2, 1), (3, 2, 2), (3, 2, 0), (3, 3, 1)]
QSIZES_SMALL = [(2, 1, 1), (3, 2, 1), (3, 2, 2)]
FULL_KINDS = ("rhf", "uhf")  # the quick tier runs these on every size; the other kinds on a representative subset


def quick_sizes(kind):
    if kind in FULL_KINDS:
        return al.sizes(3)
    if kind in ("multislater", "uhf_cpmc", "ghf_cpmc", "ghf-unmixed"):
        return QSIZES_SMALL
    return QSIZES


def qr_configs(tier, seed):
    thorough = tier == "thorough"
    out = []
    for kind in trials.KINDS_ALL:
        for (n, na, nb) in (al.sizes(4) if thorough else quick_sizes(kind)):
            if not trials.admitted(kind, n, na, nb):
                continue
            if nb == 0 and kind in trials.NEED_BOTH_SPINS:
                continue
            if n == na and n == nb and n > 2:
                continue
            variants = [""]
            if kind in ("uhf", "uhf_cpmc"):
                variants = ["same", ""] if (thorough or (n, na, nb) == (3, 2, 1)) else ["same"]
            if kind == "multislater":
                ndet = len(trials.all_dets(n, na, nb))
                variants = ["ref:%d" % k for k in (sorted(set([0, 1, ndet // 2, ndet - 1])) if thorough else ([0, ndet - 1] if (n, na, nb) == (3, 2, 1) else [0]))]
            for v in variants:
                out.append(dict(part="qr", kind=kind, n=n, na=na, nb=nb, variant=v, seed=seed, tier=tier))
        if not thorough and kind not in trials.AUTO_KINDS and not kind.endswith("_cpmc"):
            for (n, na, nb) in [(4, 2, 2), (4, 2, 1)]:
                if trials.admitted(kind, n, na, nb):
                    v = {"uhf": "same"}.get(kind, "")
                    out.append(dict(part="qr", kind=kind, n=n, na=na, nb=nb, variant=v, seed=seed, tier=tier, lite=True))
    cost = lambda c: -((6 if c["kind"] in trials.AUTO_KINDS else 1) * (c["n"] ** 2) * (1 + c["na"] + c["nb"]))
    out.sort(key=cost)
    return out


def qr_cap(mode, thorough, lite):
    if mode == "r":
        return (6 if thorough else 5) if not lite else 4
    return (10 if thorough else 8) if not lite else 6


def meas_ham(n, seed, spin_dep):
    """One Hamiltonian per configuration: dense h0,h1, Cholesky slots = 2 dense + every symmetric unit
    (force bias component g on a unit slot is tr(L_g G): all of the symmetric part of the Green's function)."""
    h0, h1, chol = al.small_ham(n, 2, seed, spin_dependent=spin_dep, scale=0.5)
    units = np.array([M for _, M in al.sym_basis(n)])
    return h0, h1, np.concatenate([chol, units], axis=0)


def lib_qr(mode, Wa, Wb, via="linalg"):
    """One call of the library's orthonormalisation.  Returns (Qa, Qb, fa, fb) as numpy (Qb, fb None if restricted)."""
    jnp, wf = trials.lib()
    from ad_afqmc import linalg_utils, propagation

    if mode == "r":
        w = jnp.asarray(Wa)
        if via == "linalg":
            Q, f = linalg_utils.qr_vmap(w)
            return np.asarray(Q), None, np.asarray(f), None
        prop = propagation.propagator_restricted(n_walkers=w.shape[0])
        pd = prop.orthonormalize_walkers({"walkers": w, "weights": jnp.ones(w.shape[0])})
        return np.asarray(pd["walkers"]), None, None, None
    w = [jnp.asarray(Wa), jnp.asarray(Wb)]
    if via == "linalg":
        Q, f = linalg_utils.qr_vmap_uhf(w)
        return np.asarray(Q[0]), np.asarray(Q[1]), np.asarray(f[0]), np.asarray(f[1])
    cls = getattr(propagation, via.split(":")[1])
    prop = cls(n_walkers=w[0].shape[0])
    if via.startswith("orthonormalize"):
        pd = prop.orthonormalize_walkers({"walkers": list(w), "weights": jnp.ones(w[0].shape[0])})
        return np.asarray(pd["walkers"][0]), np.asarray(pd["walkers"][1]), None, None
    pd, norms = prop._orthogonalize_walkers({"walkers": list(w), "weights": jnp.ones(w[0].shape[0])})
    return np.asarray(pd["walkers"][0]), np.asarray(pd["walkers"][1]), np.asarray(norms[0]), np.asarray(norms[1])


UNRESTRICTED_PROPS = ["propagator_unrestricted", "propagator_cpmc", "propagator_cpmc_slow", "propagator_cpmc_nn",
                      "propagator_cpmc_nn_slow", "propagator_cpmc_continuous"]


def measure(trial, wd, hd, mode, Wa, Wb):
    """Library overlap, energy, force bias of a batch (through one jit per static configuration)."""
    jnp, wf = trials.lib()
    J = gridmc.jitted
    w = jnp.asarray(Wa) if mode == "r" else [jnp.asarray(Wa), jnp.asarray(Wb)]
    O = np.asarray(J(trial, "calc_overlap")(w, wd))
    E = np.asarray(J(trial, "calc_energy")(w, hd, wd))
    F = np.asarray(J(trial, "calc_force_bias")(w, hd, wd))
    return O, E, F


def scaled_walkers(tc, grid, mode, pat, na, nb):
    Wa, Wb, Phi = gridmc.lab_walkers(tc, grid, mode == "r")
    Wa = Wa * scal_vec(na, pat)[None, None, :]
    if Wb is not None:
        Wb = Wb * scal_vec(nb, pat, flip=True)[None, None, :]
    return Wa, Wb, Phi


def overlap_factor(mode, na, nb, fa, fb, Ra):
    """The factor the property demands between overlap(W) and overlap(Q).
    unrestricted: factor_up x factor_dn.  restricted: the one returned factor belongs to the (n x n_up) matrix; the
    beta determinant uses the leading n_dn columns, whose factor is the product of the leading n_dn diagonal entries
    of R = Q^H W (closed shell: the returned factor again)."""
    if mode == "u":
        return fa * fb
    if na == nb:
        return fa * fa
    lead = np.prod(np.einsum("wii->wi", Ra)[:, :nb], axis=1) if nb > 0 else np.ones(len(fa))
    return fa * lead


def job_qr(cfg):
    res = Result()
    kind, n, na, nb, seed = cfg["kind"], cfg["n"], cfg["na"], cfg["nb"], cfg["seed"]
    thorough = cfg["tier"] == "thorough"
    lite = cfg.get("lite", False)
    tc = trials.build(kind, n, na, nb, seed, cfg["variant"], full_basis=False)
    sec = fock.sector(n, na, nb)
    modes = []
    if tc.unrestricted_ok:
        modes.append("u")
    if tc.restricted_ok and na >= nb:
        modes.append("r")
    for mode in modes:
        grid = al.walker_grid(n, na, nb, seed, restricted=(mode == "r"), cap=qr_cap(mode, thorough, lite))
        if grid["capped"]:
            res.cap("%s n=%d (%d,%d) mode %s: %d of %d walker entries enumerated (others frozen)" % (
                kind, n, na, nb, mode, len(grid["free"]), grid["entries"]))
        P = grid["P"]
        spin_dep = (kind in SPIN_DEP_KINDS and mode == "u") or (mode == "r" and kind in trials.CLOSED_ONLY)
        h0, h1, chol = meas_ham(n, seed, spin_dep)
        psets = [(ip, p) for ip, p in enumerate(tc.params) if ip == 0 or p.label == "dense"]
        if kind == "multislater" and not thorough:
            psets = psets[-1:]  # each multi-Slater parameter set is its own static configuration (compilation); quick keeps the dense one
        hds = {ip: gridmc.build_ham_data(n, h0, h1, chol, gridmc.trial_for(tc, ip), p.wave_data) for ip, p in psets}
        for pat in SCALINGS:
            Wa, Wb, Phi = scaled_walkers(tc, grid, mode, pat, na, nb)
            ok = well_conditioned(Wa) & (True if Wb is None else well_conditioned(Wb))
            res.guard("ill_conditioned_excluded", int((~ok).sum()))
            base = dict(cfg, mode=mode, scaling=pat)
            # --- the library's orthonormalisation, every route
            Qa, Qb, fa, fb = lib_qr(mode, Wa, Wb, "linalg")
            routes = [("linalg", Qa, Qb, fa, fb)]
            if mode == "r":
                routes.append(("orthonormalize:propagator_restricted",) + lib_qr(mode, Wa, Wb, "orthonormalize:propagator_restricted"))
            else:
                for pc in (UNRESTRICTED_PROPS if (pat == "none" or thorough) else UNRESTRICTED_PROPS[:1]):
                    routes.append(("orthonormalize:" + pc,) + lib_qr(mode, Wa, Wb, "orthonormalize:" + pc))
                    routes.append(("_orthogonalize:" + pc,) + lib_qr(mode, Wa, Wb, "_orthogonalize:" + pc))
            Ra = None
            qr_ok = True
            res.add(states=int(ok.sum()))
            for (via, qa, qb, f_a, f_b) in routes:
                site = {"linalg": "qr_vmap" if mode == "r" else "qr_vmap_uhf"}.get(via, via.split(":")[0] + "_walkers")
                for spin, W_, Q_, f_ in (("up", Wa, qa, f_a), ("dn", Wb, qb, f_b)):
                    if W_ is None:
                        continue
                    have_f = f_ is not None
                    errs, R = qr_identities(W_, Q_, f_ if have_f else np.ones(len(W_)))
                    if via == "linalg" and spin == "up":
                        Ra = R
                    res.add(transitions=int(ok.sum()), evaluations=int(ok.sum()) * len(errs), traces=1)
                    for name, e in errs.items():
                        if name == "factor" and not have_f:
                            continue
                        tol = TOL_ALG if name != "factor" else TOL_OVLP
                        bad = gridmc.first_bad(np.where(ok, e, 0.0), tol)
                        if bad is not None:
                            qr_ok = False
                            res.violation("%s/%s:%s" % (site, spin, name), dict(base, check="qr", via=via, spin=spin, what=name, point=bad),
                                          dict(err=float(e[bad]), tol=tol, n_bad=int((~(np.where(ok, e, 0.0) <= tol)).sum()), n_points=P,
                                               walker=W_[bad], returned_factor=None if not have_f else f_[bad]))
            if Ra is not None and Ra.size:  # vacuity guard: walkers whose triangular factor is not just a diagonal rescaling
                offd = np.abs(np.triu(Ra, 1)).max(axis=(1, 2)) if na > 1 else np.zeros(P)
                res.guard("qr_nontrivial_R", int((offd > 1e-3 * np.abs(np.einsum("wii->wi", Ra)).min(axis=1)).sum()))
            if not qr_ok:  # the measurement identities below are consequences of the QR contract: one defect, one signature
                res.guard("measurement_checks_skipped_after_qr_violation")
                continue
            fac = overlap_factor(mode, na, nb, fa, fb, Ra)
            # --- every trial parameter set: overlap identity, energy / force bias invariance
            for ip, p in psets:
                trial = gridmc.trial_for(tc, ip)
                O_ref = np.conj(p.ket) @ Phi
                good = ok & (np.abs(O_ref) > NODE_FRAC * np.abs(O_ref).max())
                res.guard("near_node_excluded", int((ok & ~good).sum()))
                OW, EW, FW = measure(trial, p.wave_data, hds[ip], mode, Wa, Wb)
                OQ, EQ, FQ = measure(trial, p.wave_data, hds[ip], mode, Qa, Qb)
                ng, nk = int(good.sum()), int(ok.sum())
                res.add(states=nk if ip != psets[0][0] else 0, transitions=6 * nk, evaluations=nk + 2 * ng, traces=6)
                oscale = np.abs(OW[ok]).max() if nk else 1.0
                e_o = np.abs(OW - OQ * fac) / np.maximum(np.abs(OW), 1e-3 * oscale)
                e_o = np.where(np.isfinite(OW) & np.isfinite(OQ), e_o, np.inf)
                e_o = np.where(ok, e_o, 0.0)
                escale = max(1.0, np.abs(EQ[good]).max()) if ng else 1.0
                e_e = np.where(good, np.where(np.isfinite(EW) & np.isfinite(EQ), np.abs(EW - EQ) / escale, np.inf), 0.0)
                fscale = max(1.0, np.abs(FQ[good]).max()) if ng else 1.0
                e_f = np.where(good, np.where(np.isfinite(FW).all(axis=1) & np.isfinite(FQ).all(axis=1),
                                              np.abs(FW - FQ).max(axis=1) / fscale, np.inf), 0.0)
                for what, e, tol in (("overlap", e_o, TOL_OVLP), ("energy", e_e, tol_energy(kind, pat)), ("force_bias", e_f, TOL_FB)):
                    bad = gridmc.first_bad(e, tol)
                    if bad is not None:
                        sig = "%s/%s:%s-after-qr/par:%s" % ("qr_vmap" if mode == "r" else "qr_vmap_uhf", kind, what, gridmc.param_class(p.label))
                        if mode == "r" and what == "overlap":
                            sig += "/closed" if na == nb else "/open"
                        res.violation(sig, dict(base, check="meas", what=what, label=p.label, point=bad, tol=tol),
                                      dict(err=float(e[bad]), tol=tol, n_bad=int((e > tol).sum()), n_points=nk,
                                           overlap_W=OW[bad], overlap_Q=OQ[bad], factor=fac[bad], energy_W=EW[bad], energy_Q=EQ[bad]))
                if pat == "none":
                    res.nontrivial_values((kind, n, na, nb, cfg["variant"], mode, p.label, "O"), OQ[good], 9)
            res.guard("grid_points_%s_%s" % (mode, pat), P)
        res.guard("open_shell_restricted_configs", int(mode == "r" and na != nb))
    res.sample(dict(part="qr", kind=kind, n=n, nelec=[na, nb], variant=cfg["variant"], modes=modes, scalings=SCALINGS))
    return res


# ----------------------------------------------------------------------------- part B: initial walkers
THETAS = [("0", 0.0), ("0.3", 0.3), ("pi/3", np.pi / 3), ("1.5", 1.5), ("pi/2-1e-4", np.pi / 2 - 1e-4), ("pi/2", np.pi / 2)]
SD_FAMILY = ("rhf", "uhf", "uhf_cpmc", "ghf-unmixed")  # single-determinant kinds built here with a controlled spin breaking
OTHER_KINDS = [k for k in trials.KINDS_ALL if k not in ("rhf", "uhf", "uhf_cpmc")]
COMPLEX_SIZES = [(2, 1, 1), (3, 2, 1), (3, 2, 2), (3, 2, 0), (4, 2, 1), (4, 3, 1)]  # quick tier: sizes that get the complex-orbital letters
OCC_SMEAR = [0.98, 0.95, 0.91, 0.86, 0.80]


def sd_family_case(kind, n, na, nb, seed, theta, pattern, nonorth, frame="generic"):
    """A single-determinant trial with alpha orbitals = leading columns of an orthogonal frame F and beta orbital k
    = cos(theta) F_k + sin(theta) F_{na+k} for the rotated k ('all' rotatable k, or only the 'last' one), optionally
    mixed by a non-orthogonal matrix.  theta = 0 is the ROHF-like member (beta space inside the alpha space).
    Returns dict(trial, wave_data, ket, F, Fb, nrot, moa, mob)."""
    jnp, wf = trials.lib()
    F = np.eye(n) if frame == "identity" else al.frame(n, seed, 2)
    if frame == "complex":
        # a genuinely complex unitary frame (not a phase per column): the trial's density matrix is complex Hermitian and its
        # natural orbitals are complex; admissible for uhf / uhf_cpmc, whose formulas conjugate the trial throughout
        from scipy.linalg import expm

        F = F @ expm(0.7j * al.dense_sym(n, seed, 77))
    nrot = min(nb, n - na)
    G = np.eye(n)
    ks = list(range(nrot)) if pattern == "all" else list(range(max(nrot - 1, 0), nrot))
    if kind == "rhf":
        ks = []
    for k in ks:
        G = G @ al.givens(n, k, na + k, theta)
    Fb = F @ G
    Ta = trials._tmat(na, seed, 2) if nonorth else np.eye(na)
    Tb = trials._tmat(nb, seed, 3) if nonorth else np.eye(nb)
    if kind == "rhf":
        moa = mob = F[:, :na] @ Ta
        trial = wf.rhf(n, (na, nb))
        wd = {"mo_coeff": jnp.asarray(moa)}
        Fb = F
    elif kind in ("uhf", "uhf_cpmc"):
        moa, mob = F[:, :na] @ Ta, Fb[:, :nb] @ Tb
        trial = (wf.uhf if kind == "uhf" else wf.uhf_cpmc)(n, (na, nb))
        wd = {"mo_coeff": [jnp.asarray(moa), jnp.asarray(mob)]}
    else:  # ghf-unmixed: a GHF object holding a spin-pure product (columns: alpha orbitals then beta orbitals)
        moa, mob = F[:, :na] @ Ta, Fb[:, :nb] @ Tb
        C = np.zeros((2 * n, na + nb))
        C[:n, :na] = moa
        C[n:, na:] = mob
        trial = wf.ghf(n, (na, nb))
        wd = {"mo_coeff": jnp.asarray(C)}
    ket = fock.ket_uhf(n, na, nb, moa, mob)
    return dict(trial=trial, wave_data=wd, ket=ket, F=F, Fb=Fb, nrot=len(ks), moa=moa, mob=mob)


def smeared_rdm1(F, Fb, na, nb):
    """A supplied density matrix with distinct natural occupations whose leading natural orbitals are the trial's
    orbitals (so the pairing of alpha and beta natural orbitals is defined, not an accident of a degenerate eigh)."""
    n = F.shape[0]

    def dm(Q, k):
        occ = np.array([OCC_SMEAR[i] for i in range(k)] + [0.12 / (1 + i) for i in range(n - k)])
        return (Q * occ[None, :]) @ Q.conj().T

    return np.array([dm(F, na), dm(Fb, nb)])


def reference_rdm1(kind, n, na, nb, p):
    """Mean-field reference density of a CI-type trial, as mpi_jax supplies it in wave_data['rdm1']."""
    I = np.eye(n)
    if kind in ("CISD", "cisd", "cisd_faster", "CISD_THC"):
        P = I[:, :na] @ I[:, :na].T
        return np.array([P, P])
    if kind in ("UCISD", "ucisd"):
        moB = np.asarray(p.wave_data["mo_coeff"][1])
        return np.array([I[:, :na] @ I[:, :na].T, moB[:, :nb] @ moB[:, :nb].T])
    if kind == "GCISD":
        C = np.asarray(p.wave_data["mo_coeff"])[:, : na + nb]
        D = C @ C.T
        return np.array([D[:n, :n], D[n:, n:]])
    return None


def init_configs(tier, seed):
    thorough = tier == "thorough"
    out = []
    extra = [] if thorough else [(4, 2, 2), (4, 2, 1), (4, 3, 1)]
    for kind in SD_FAMILY:
        szs = al.sizes(4) if thorough else (quick_sizes(kind) + (extra if kind in FULL_KINDS else extra[1:2]))
        for (n, na, nb) in szs:
            if kind == "rhf" and na != nb:
                continue
            out.append(dict(part="init", kind=kind, n=n, na=na, nb=nb, seed=seed, tier=tier))
    for kind in OTHER_KINDS:
        szs = al.sizes(4) if thorough else (quick_sizes(kind) + ([] if (kind in trials.AUTO_KINDS and kind != "UCISD") or kind.endswith("_cpmc") else extra))
        for (n, na, nb) in szs:
            if not trials.admitted(kind, n, na, nb):
                continue
            if nb == 0 and kind in trials.NEED_BOTH_SPINS:
                continue
            out.append(dict(part="init", kind=kind, n=n, na=na, nb=nb, seed=seed, tier=tier))
    out.sort(key=lambda c: (c["n"], c["na"] + c["nb"], c["kind"]))
    return out


def _maxabs(x):
    x = np.asarray(x)
    return float(np.abs(x).max()) if x.size else 0.0


def call_init(trial, wd, nw, restricted):
    """One execution of the generator.  Returns ('ok', walkers) | ('ValueError', msg) | ('NotImplementedError', msg) | ('other', msg)."""
    try:
        w = trial.get_init_walkers(wd, nw, restricted)
    except ValueError as e:
        return "ValueError", str(e)[:200]
    except NotImplementedError as e:
        return "NotImplementedError", str(e)[:200]
    except Exception as e:  # anything else is not "an explicit error" of the generator
        return "other", "%s: %s" % (type(e).__name__, str(e)[:300])
    return "ok", w


def shape_errors(w, nw, n, na, nb, restricted):
    """Requested container, count, shape."""
    if restricted:
        if isinstance(w, (list, tuple)):
            return "restricted=True returned a list"
        a = np.asarray(w)
        if a.shape != (nw, n, na):
            return "shape %r, expected %r" % (a.shape, (nw, n, na))
        return None
    if not isinstance(w, (list, tuple)) or len(w) != 2:
        return "restricted=False did not return [up, dn]"
    sa, sb = np.asarray(w[0]).shape, np.asarray(w[1]).shape
    if sa != (nw, n, na) or sb != (nw, n, nb):
        return "shapes %r %r, expected %r %r" % (sa, sb, (nw, n, na), (nw, n, nb))
    return None


def occupation_gap(rdm, na, nb):
    """Input pre-check: gap between the n_sigma-th and the next natural occupation of the density matrix that the
    generator is given (its leading natural orbitals are only defined when this gap is open)."""
    g = np.inf
    for D, k in ((rdm[0], na), (rdm[1], nb)):
        w = np.sort(np.linalg.eigvalsh(0.5 * (D + D.conj().T)))[::-1]
        if 0 < k < len(w):
            g = min(g, w[k - 1] - w[k])
    return g


def check_init_case(res, cfg, label, trial, wd, ket, n, na, nb, restricted, sd_representable, ham, container_ok, kind, site_suffix=""):
    """All demands on one (trial, density-matrix letter, restricted flag); both walker counts."""
    jnp, wf = trials.lib()
    sec = fock.sector(n, na, nb)
    base = dict(cfg, case=label, restricted=restricted)
    site = "get_init_walkers/%s%s" % ("restricted-%s" % ("closed" if na == nb else "open") if restricted else "unrestricted", site_suffix)
    knorm = np.linalg.norm(ket)
    first = None
    for nw in (3, 1):
        status, w = call_init(trial, wd, nw, restricted)
        res.add(states=1, transitions=1, traces=1)
        if status == "NotImplementedError":
            res.guard("rdm1_not_implemented_for_kind")
            return "noimpl"
        if status == "ValueError":
            res.guard("refused_ValueError")
            res.guard("refused_ValueError/" + ("restricted" if restricted else "unrestricted"))
            return "refused"
        if status == "other":
            res.violation(site + ":unexpected-exception", dict(base, n_walkers=nw, what="exception"), dict(error=w))
            return "error"
        msg = shape_errors(w, nw, n, na, nb, restricted)
        if msg:
            res.violation(site + ":shape", dict(base, n_walkers=nw, what="shape"), dict(error=msg))
            return "error"
        if restricted:
            Wa = np.asarray(w)
            Wb = Wa[:, :, :nb]
        else:
            Wa, Wb = np.asarray(w[0]), np.asarray(w[1])
        res.add(evaluations=3)
        # orthonormal columns, every walker
        eo = 0.0
        for X in (Wa, Wb):
            if X.shape[2]:
                eo = max(eo, np.abs(np.einsum("wpi,wpj->wij", np.conj(X), X) - np.eye(X.shape[2])).max())
        if not (np.isfinite(eo) and eo <= 1e-10):
            res.violation(site + ":not-orthonormal", dict(base, n_walkers=nw, what="orthonormal"), dict(err=float(eo), walker_up=Wa[0], walker_dn=Wb[0]))
            return "error"
        if first is None:
            first = (Wa, Wb, w)
        else:  # the count only replicates: same determinant for every requested population size
            if _maxabs(Wa[0] - first[0][0]) > 1e-12 or _maxabs(Wb[0] - first[1][0]) > 1e-12:
                res.violation(site + ":depends-on-count", dict(base, n_walkers=nw, what="count"), {})
        # trial overlap from the Fock model (normalised trial; the walker is orthonormal)
        Phi = sec.walker_vectors(Wa, Wb)
        O = np.conj(ket) @ Phi / knorm
        omin = float(np.abs(O).min())
        if not omin >= OVLP_MIN * (1 - 1e-6):
            res.violation(site + ":overlap-not-bounded-away-from-zero-and-no-error", dict(base, n_walkers=nw, what="overlap"),
                          dict(normalised_overlap=omin, threshold=OVLP_MIN, walker_up=Wa[0], walker_dn=Wb[0]))
            return "error"
    Wa, Wb, w = first
    Phi = sec.walker_vectors(Wa, Wb)
    O = np.conj(ket) @ Phi
    res.nontrivial_values((kind, n, na, nb, label, restricted), np.round(np.abs(O[:1]) / knorm, 9))
    res.guard("returned/" + ("restricted" if restricted else "unrestricted"))
    if container_ok and kind == "multislater":
        # the multi-Slater overlap formula needs both reference blocks of the walker invertible (C01's pre-check)
        rd = np.asarray(wd["ref_det"])
        da = np.abs(np.linalg.det(Wa[0][rd[0] > 0, :])) if na else 1.0
        db = np.abs(np.linalg.det(Wb[0][rd[1] > 0, :])) if nb else 1.0
        if min(da, db) < 1e-3:
            res.guard("multislater_reference_block_of_init_walker_singular")
            container_ok = False
    if container_ok:
        # the library's own overlap of its initial walkers = reference (the driver divides by this number)
        J = gridmc.jitted
        wl = jnp.asarray(Wa) if restricted else [jnp.asarray(Wa), jnp.asarray(Wb)]
        Ol = np.asarray(J(trial, "calc_overlap")(wl, wd))
        res.add(transitions=1, evaluations=1, traces=1)
        e = np.abs(Ol - O).max() / max(np.abs(O).max(), 1e-300)
        if not e <= TOL_OVLP:
            res.violation(site + ":library-overlap-of-init-walkers", dict(base, what="lib-overlap"), dict(impl=Ol[0], ref=O[0], err=float(e)))
        if sd_representable:
            h0, h1, chol = ham
            H = sec.hamiltonian(h0, h1, chol)
            E_var = (np.conj(ket) @ H @ ket) / (np.conj(ket) @ ket)
            hd = gridmc.build_ham_data(n, h0, h1, chol, trial, wd)
            El = np.asarray(J(trial, "calc_energy")(wl, hd, wd))
            res.add(transitions=1, evaluations=1, traces=1)
            res.guard("variational_energy_checked/" + ("restricted" if restricted else "unrestricted"))
            if na != nb and restricted:
                res.guard("variational_energy_checked/restricted-open-shell")
            e = np.abs(El - E_var).max() / max(1.0, abs(E_var))
            if not e <= tol_energy(kind, "none") / (2.0 if kind in trials.AUTO_KINDS else 1.0):  # one evaluation against the exact value
                res.violation(site + ":energy-not-variational", dict(base, what="energy"),
                              dict(impl=El[0], ref=E_var, err=float(e), normalised_overlap=float(np.abs(O[0]) / knorm)))
    return "ok"


def job_init(cfg):
    res = Result()
    kind, n, na, nb, seed = cfg["kind"], cfg["n"], cfg["na"], cfg["nb"], cfg["seed"]
    jnp, wf = trials.lib()
    only = cfg.get("only")  # replay: one case label
    if kind in SD_FAMILY:
        nrot = min(nb, n - na)
        thetas = THETAS if (nrot > 0 and kind != "rhf") else THETAS[:1]
        for nonorth in (False, True):
            for tl, th in thetas:
                shapes = [(pt, "generic") for pt in (["all", "last"] if (nrot > 1 and th != 0.0) else ["all"])]
                if th > 1.55 and not nonorth:
                    shapes.append(("all", "identity"))  # exactly orthogonal natural orbitals: sign(0) = 0 in the generator
                if kind in ("uhf", "uhf_cpmc") and (cfg["tier"] == "thorough" or (n, na, nb) in (COMPLEX_SIZES if kind == "uhf" else COMPLEX_SIZES[1:3])):
                    shapes.append(("all", "complex"))  # complex trial orbitals (orthonormal and, with nonorth, mixed)
                for pattern, frame in shapes:
                    fam = sd_family_case(kind, n, na, nb, seed, th, pattern, nonorth, frame)
                    trial, ket = fam["trial"], fam["ket"]
                    spin_dep = kind != "rhf"
                    ham = al.small_ham(n, 2, seed, spin_dependent=spin_dep, scale=0.5)
                    for rl in ("own", "smeared"):
                        wd = dict(fam["wave_data"])
                        if rl == "smeared":
                            wd["rdm1"] = jnp.asarray(smeared_rdm1(fam["F"], fam["Fb"], na, nb))
                        for restricted in (False, True):
                            label = "theta=%s/%s/%s/rdm1=%s%s" % (tl, pattern, "nonorth" if nonorth else "orth", rl, "" if frame == "generic" else "/frame=" + frame)
                            if only and (label != only["case"] or restricted != only["restricted"]):
                                continue
                            beta_inside_alpha = (th == 0.0) or fam["nrot"] == 0
                            if kind == "ghf-unmixed":
                                rep, cont = (not restricted), (not restricted)
                            else:
                                rep = (not restricted) or beta_inside_alpha
                                cont = (not restricted) or na >= nb
                            st = check_init_case(res, cfg, label, trial, wd, ket, n, na, nb, restricted, rep, ham, cont, kind,
                                                 site_suffix="/complex-orbitals" if frame == "complex" else "")
                            if frame == "complex":
                                res.guard("complex_orbital_cases/%s-%s" % ("restricted" if restricted else "unrestricted", "open" if na != nb else "closed"))
                            if restricted and fam["nrot"] > 0 and th != 0.0:
                                res.guard("spin_broken_restricted_cases")
                                if na != nb:
                                    res.guard("spin_broken_restricted_open_shell_cases")
                                elif abs(np.cos(th)) ** fam["nrot"] <= 1e-3:
                                    res.guard("closed_shell_fallback_construction_" + ("returned" if st == "ok" else "refused" if st == "refused" else "failed"))
        res.sample(dict(part="init", kind=kind, n=n, nelec=[na, nb], thetas=[t for t, _ in thetas], rdm1=["own", "smeared"], restricted=[False, True]))
        return res
    # every other kind through the shared trial builders
    variants = {"ghf": ["", "nonorth"], "ghf_cpmc": [""], "noci": ["", "nonorth"]}.get(kind, [""])
    if kind == "multislater":
        ndet = len(trials.all_dets(n, na, nb))
        variants = ["ref:%d" % k for k in sorted(set([0, ndet // 2, ndet - 1]))]
    for v in variants:
        tc = trials.build(kind, n, na, nb, seed, v, full_basis=False)
        ham = al.small_ham(n, 2, seed, spin_dependent=False, scale=0.5)
        sec = fock.sector(n, na, nb)
        for ip, p in enumerate(tc.params):
            trial = gridmc.trial_for(tc, ip)
            letters = [("own", None)]
            if kind in ("ghf", "ghf_cpmc"):
                pass  # the exact density of a GHF state is what _calc_rdm1 returns (checked in C01); its sector projection is not it
            else:
                D = fock.rdm1(p.ket, sec)
                letters.append(("exact", np.real(0.5 * (D + D.transpose(0, 2, 1)))))
            R = reference_rdm1(kind, n, na, nb, p)
            if R is not None:
                letters.append(("ref", R))
            for rl, D in letters:
                wd = dict(p.wave_data)
                if D is not None:
                    wd["rdm1"] = jnp.asarray(D)
                try:
                    used = np.asarray(trial.get_rdm1(wd))
                except NotImplementedError:
                    res.guard("rdm1_not_implemented_for_kind")
                    continue
                gap = occupation_gap(used, na, nb)
                if not gap > 0.2:
                    res.guard("skipped_natural_occupation_gap_closed")
                    continue
                single_det = (p.label in ("ref", "zero", "zeroV", "mo")) and kind not in ("ghf", "ghf_cpmc", "GCISD", "noci")
                for restricted in (False, True):
                    label = "%s/par:%s/rdm1=%s" % (v, p.label, rl)
                    if only and (label != only["case"] or restricted != only["restricted"]):
                        continue
                    cont = (tc.restricted_ok and na >= nb) if restricted else tc.unrestricted_ok
                    # a single-determinant member of a multi-determinant family (zero amplitudes): representable by the
                    # unrestricted container; by the restricted one when both spins occupy the same orbitals
                    rep = False
                    if single_det and cfg["tier"] == "thorough":
                        same_orbs = kind in ("CISD", "cisd", "cisd_faster", "CISD_THC") or (kind == "multislater" and tuple(tc.ref[0]) == tuple(tc.ref[1]))
                        rep = (not restricted) or same_orbs
                    check_init_case(res, cfg, label, trial, wd, p.ket, n, na, nb, restricted, rep, ham, cont, kind)
    res.sample(dict(part="init", kind=kind, n=n, nelec=[na, nb], variants=variants, rdm1=["own", "exact", "ref"], restricted=[False, True]))
    return res


# ----------------------------------------------------------------------------- part C: call histories on ONE caller-owned wave_data
def _leaves(x):
    if isinstance(x, (list, tuple)):
        out = []
        for y in x:
            out += _leaves(y)
        return out
    return [np.asarray(x)]


def hold(d):
    """Separately held NumPy copies of every leaf of a dict."""
    return {k: [np.array(x, copy=True) for x in _leaves(v)] for k, v in d.items()}


def modified_keys(d, held):
    """Keys that were added, removed, or whose leaves are not bitwise equal to the held copies."""
    bad = [k for k in held if k not in d] + [k for k in d if k not in held]
    for k in held:
        if k in d:
            lv = _leaves(d[k])
            if len(lv) != len(held[k]) or any(a.shape != b.shape or not np.array_equal(a, b) for a, b in zip(lv, held[k])):
                bad.append(k)
    return sorted(set(bad))


def hist_letter(kind, n, na, nb, seed, letter):
    """Orbital letters of the existing angle/frame alphabet: L0 = (generic frame, theta 0), L1 = (another orthogonal frame, theta 0),
    L2 = (generic frame, theta pi/3).  Returns (moa, mob) as NumPy."""
    F = al.frame(n, seed, 2) if letter != "L1" else al.frame(n, seed, 5)
    th = np.pi / 3 if letter == "L2" else 0.0
    nrot = 0 if kind == "rhf" else min(nb, n - na)
    G = np.eye(n)
    for k in range(nrot):
        G = G @ al.givens(n, k, na + k, th)
    return F[:, :na], (F @ G)[:, :nb]


def hist_set_orbitals(kind, wd, moa, mob):
    """The user assigns new orbitals IN the same dict."""
    jnp, wf = trials.lib()
    wd["mo_coeff"] = jnp.asarray(moa) if kind == "rhf" else [jnp.asarray(moa), jnp.asarray(mob)]


def hist_current_orbitals(kind, wd, na, nb):
    if kind == "rhf":
        mo = np.asarray(wd["mo_coeff"])
        return mo[:, :na], mo[:, :nb]
    return np.asarray(wd["mo_coeff"][0]), np.asarray(wd["mo_coeff"][1])


def beta_inside_alpha(moa, mob):
    """Input test: can a restricted walker (beta = leading columns of the alpha block) represent the determinant?"""
    if mob.shape[1] == 0:
        return True
    Q = np.linalg.qr(moa)[0]
    return bool(np.abs(mob - Q @ (Q.conj().T @ mob)).max() < 1e-10)


def hist_ops(kind, na, nb):
    ops = ["init_u", "init_r", "prop", "set:L1", "set:L2", "opt"]
    return ops


def history_word(cfg, word, flavour, ctxs):
    """Execute one word on ONE caller-owned wave_data dict.  Returns (signature or None, detail, n_generator_calls, counters)."""
    jnp, wf = trials.lib()
    from ad_afqmc import propagation

    kind, n, na, nb, seed = cfg["kind"], cfg["n"], cfg["na"], cfg["nb"], cfg["seed"]
    trial, ham, sec, H, hraw = ctxs["trial"], ctxs["ham"], ctxs["sec"], ctxs["H"], ctxs["hraw"]
    moa0, mob0 = hist_letter(kind, n, na, nb, seed, "L0")
    wd = {}
    hist_set_orbitals(kind, wd, moa0, mob0)
    supplied = None
    if flavour == "supplied-rdm1":  # documented: a supplied rdm1 keeps being used, whatever happens to the orbitals
        supplied = np.array([moa0 @ moa0.T, mob0 @ mob0.T])
        wd["rdm1"] = jnp.asarray(supplied)
    ncalls = 0
    cnt = {}
    for k, op in enumerate(word):
        here = dict(op=op, position=k)
        if op.startswith("set:"):
            hist_set_orbitals(kind, wd, *hist_letter(kind, n, na, nb, seed, op[4:]))
            continue
        held = hold(wd)
        if op == "opt":
            hd = {"h0": hraw[0], "h1": jnp.asarray(hraw[1]), "chol": jnp.asarray(hraw[2].reshape(len(hraw[2]), n * n)), "ene0": 0.0}
            new = trial.optimize(hd, wd)
            bad = modified_keys(wd, held)
            if bad:
                return "init-walker-path:caller-wave_data-modified/%s" % "+".join(bad), dict(here), ncalls, cnt
            extra = sorted(set(new.keys()) ^ set(held.keys()))
            if extra:
                return "optimize:returned-wave_data-keys-differ/%s" % "+".join(extra), dict(here), ncalls, cnt
            wd = new  # wave_data = trial.optimize(ham_data, wave_data)
            continue
        moa, mob = hist_current_orbitals(kind, wd, na, nb)
        ket = fock.ket_uhf(n, na, nb, moa, mob)
        E_var = (np.conj(ket) @ H @ ket) / (np.conj(ket) @ ket)
        restricted = op == "init_r" or (op == "prop" and kind == "rhf")
        ncalls += 1
        e_est = None
        try:
            if op == "prop":
                hd = gridmc.build_ham_data(n, hraw[0], hraw[1], hraw[2], trial, wd)
                cls = propagation.propagator_restricted if restricted else propagation.propagator_unrestricted
                pdat = cls(n_walkers=3).init_prop_data(trial, wd, hd)
                w, e_est, o_lib = pdat["walkers"], complex(pdat["e_estimate"]), np.asarray(pdat["overlaps"])
                cnt["prop_calls"] = cnt.get("prop_calls", 0) + 1
            else:
                w = trial.get_init_walkers(wd, 3, restricted)
        except ValueError as e:
            if restricted:
                cnt["refused"] = cnt.get("refused", 0) + 1
                bad = modified_keys(wd, held)
                if bad:
                    return "init-walker-path:caller-wave_data-modified/%s" % "+".join(bad), dict(here), ncalls, cnt
                continue
            return "init-walker-history/unrestricted:ValueError", dict(here, error=str(e)[:200]), ncalls, cnt
        # invariant: the generator / getter did not add or change entries of the caller's dict
        bad = modified_keys(wd, held)
        if bad:
            return "init-walker-path:caller-wave_data-modified/%s" % "+".join(bad), dict(here, keys_now=sorted(wd.keys())), ncalls, cnt
        msg = shape_errors(w, 3, n, na, nb, restricted)
        if msg:
            return "init-walker-history:shape", dict(here, error=msg), ncalls, cnt
        Wa = np.asarray(w) if restricted else np.asarray(w[0])
        Wb = Wa[:, :, :nb] if restricted else np.asarray(w[1])
        eo = max([_maxabs(np.einsum("wpi,wpj->wij", np.conj(X), X) - np.eye(X.shape[2])) for X in (Wa, Wb) if X.shape[2]] + [0.0])
        if not eo <= 1e-10:
            return "init-walker-history:not-orthonormal", dict(here, err=eo), ncalls, cnt
        if supplied is not None:
            # walkers must keep coming from the supplied density: same occupied spaces as its leading natural orbitals
            ep = max(_maxabs(Wa[0] @ Wa[0].conj().T - supplied[0]), _maxabs(Wb[0] @ Wb[0].conj().T - supplied[1])) if not restricted else \
                _maxabs(Wa[0] @ Wa[0].conj().T - supplied[0])
            cnt["supplied_checked"] = cnt.get("supplied_checked", 0) + 1
            if not ep <= 1e-9:
                return "init-walker-history/supplied-rdm1:walkers-not-from-supplied-density", dict(here, err=ep), ncalls, cnt
            continue
        Phi = sec.walker_vectors(Wa, Wb)
        O = np.conj(ket) @ Phi
        on = float(np.abs(O).min() / np.linalg.norm(ket))
        if not on >= OVLP_MIN * (1 - 1e-6):
            return "init-walker-history/%s:overlap-with-current-trial-not-bounded-away-from-zero" % ("restricted" if restricted else "unrestricted"), \
                dict(here, normalised_overlap=on), ncalls, cnt
        rep = (not restricted) or beta_inside_alpha(moa, mob)
        if rep:
            E = (np.conj(ket) @ H @ Phi) / O
            e = float(np.abs(E - E_var).max() / max(1.0, abs(E_var)))
            cnt["energy_checked"] = cnt.get("energy_checked", 0) + 1
            if not e <= 1e-9:
                return "init-walker-history/%s:energy-not-variational-for-current-orbitals" % ("restricted" if restricted else "unrestricted"), \
                    dict(here, impl=E[0], ref=E_var, err=e, normalised_overlap=on), ncalls, cnt
            if e_est is not None:
                e2 = abs(e_est - E_var.real) / max(1.0, abs(E_var))
                e3 = float(np.abs(o_lib - O).max() / np.abs(O).max())
                if not (e2 <= 1e-9 and e3 <= 1e-9):
                    return "init_prop_data:e_estimate-or-overlaps-not-those-of-the-current-trial", dict(here, e_estimate=e_est, ref=E_var, err=float(e2), overlap_err=e3), ncalls, cnt
    return None, {}, ncalls, cnt


def job_init_history(cfg):
    res = Result()
    jnp, wf = trials.lib()
    import jax

    kind, n, na, nb, seed, L = cfg["kind"], cfg["n"], cfg["na"], cfg["nb"], cfg["seed"], cfg["length"]
    trial = (wf.rhf if kind == "rhf" else wf.uhf)(n, (na, nb), n_opt_iter=8)
    from ad_afqmc import hamiltonian

    sec = fock.sector(n, na, nb)
    h0, h1, chol = al.small_ham(n, 2, seed, spin_dependent=False, scale=0.5)
    ctxs = dict(trial=trial, ham=hamiltonian.hamiltonian(n), sec=sec, H=sec.hamiltonian(h0, h1, chol), hraw=(h0, np.asarray(h1, dtype=float), np.asarray(chol, dtype=float)))
    ops = hist_ops(kind, na, nb)
    only = cfg.get("only")
    props = 0
    import itertools

    gens_, changes = ("init_u", "init_r", "prop"), ("set:L1", "set:L2", "opt")
    # generator -> orbitals change -> generator: the shortest words on which a stale cache can change the walkers
    sandwiches = [(a, c, b) for a in gens_[:2] for c in changes for b in gens_[:2]] + [w for c in changes for w in (("prop", c, "init_u"), ("init_u", c, "prop"))]
    for flavour in cfg.get("flavours", ("no-rdm1", "supplied-rdm1")):
        words = [w for length in range(1, L + 1) for w in itertools.product(ops, repeat=length)]
        if L < 3:
            words += sandwiches
        for word in words:
            if word[-1] not in gens_:
                continue  # a word is only observed through a generator call at its end
            if flavour == "supplied-rdm1" and len(word) > 2 and (word not in sandwiches or "prop" in word):
                continue
            if True:
                if only and (only[0] != flavour or list(only[1]) != list(word)):
                    continue
                sig, det, ncalls, cnt = history_word(cfg, list(word), flavour, ctxs)
                res.add(states=1, transitions=ncalls, evaluations=4 * ncalls, traces=len(word))
                res.guard("history_words/" + flavour)
                res.guard("history_generator_calls_after_orbitals_changed", int(any(o.startswith("set:") or o == "opt" for o in word[:-1])))
                for k, v in cnt.items():
                    res.guard("history_" + k, v)
                props += cnt.get("prop_calls", 0)
                if props >= 40:  # eager init_prop_data re-traces the scan-based measurements on every call
                    jax.clear_caches()
                    gridmc._JIT.clear()
                    props = 0
                res.nontrivial((kind, n, na, nb, flavour, word))
                if sig:
                    res.violation(sig, dict(cfg, what="history", flavour=flavour, word=list(word)), dict(det, word=list(word), flavour=flavour))
    res.sample(dict(part="init-history", kind=kind, n=n, nelec=[na, nb], ops=ops, max_length=L, flavours=["no-rdm1", "supplied-rdm1"]))
    return res


def hist_configs(tier, seed):
    thorough = tier == "thorough"
    cases = [("uhf", 3, 2, 1), ("rhf", 3, 1, 1)] + ([("uhf", 3, 2, 2), ("uhf", 4, 2, 1), ("rhf", 3, 2, 2)] if thorough else [])
    return [dict(part="inithist", kind=k, n=n, na=na, nb=nb, length=3 if thorough else 2, flavours=[fl], seed=seed, tier=tier)
            for (k, n, na, nb) in cases for fl in ("no-rdm1", "supplied-rdm1")]


# ----------------------------------------------------------------------------- walker COUNT as an axis
def job_count(cfg):
    """Number of walkers in the batch as an input axis: EVERY count in [lo, hi] contiguously, generic complex walkers that all
    differ; per walker k: Q[k] orthonormal, Q[k]^H W[k] upper triangular, Q[k] (Q[k]^H W[k]) = W[k] and factor[k] = prod diag(Q[k]^H W[k])
    - i.e. the factor returned at position k belongs to the walker at position k (a blocked / strided implementation is named)."""
    res = Result()
    rng = np.random.default_rng(1300 + cfg["seed"])
    n, na, nb = 3, 2, 1
    for nw in range(cfg["lo"], cfg["hi"] + 1):
        Wa = rng.uniform(-1, 1, (nw, n, na)) + 1j * rng.uniform(-1, 1, (nw, n, na))
        Wb = rng.uniform(-1, 1, (nw, n, nb)) + 1j * rng.uniform(-1, 1, (nw, n, nb))
        for mode in ("r", "u"):
            try:
                Qa, Qb, fa, fb = lib_qr(mode, Wa, Wb if mode == "u" else None)
            except Exception as ex:
                res.violation("qr_vmap%s:raises" % ("" if mode == "r" else "_uhf"), dict(part="count", n_walkers=nw, mode=mode, seed=cfg["seed"]),
                              dict(exception=repr(ex)[:300]))
                continue
            worst, first = 0.0, None
            for (Q, f, W) in ((Qa, fa, Wa),) + (((Qb, fb, Wb),) if mode == "u" else ()):
                R = np.einsum("kpi,kpj->kij", Q.conj(), W)
                e = np.maximum.reduce([
                    np.abs(np.einsum("kpi,kpj->kij", Q.conj(), Q) - np.eye(Q.shape[-1])).reshape(nw, -1).max(axis=1),
                    np.abs(np.einsum("kpi,kij->kpj", Q, R) - W).reshape(nw, -1).max(axis=1),
                    np.abs(np.tril(R, -1)).reshape(nw, -1).max(axis=1),
                    np.abs(np.prod(np.diagonal(R, axis1=1, axis2=2), axis=1) - f) / np.maximum(1e-300, np.abs(f))])
                badk = np.nonzero(~(e <= 1e-9))[0]
                worst = max(worst, float(np.nanmax(e)) if np.all(np.isfinite(e)) else np.inf)
                if len(badk) and first is None:
                    first = int(badk[0])
            res.add(states=nw, transitions=nw, evaluations=4 * nw, traces=1)
            res.nontrivial(("count", mode, nw))
            res.guard("walker_count_axis")
            if nw > 64:
                res.guard("walker_count_axis_above_64")
            if first is not None:
                res.violation("qr_vmap%s:factor-or-Q-not-of-the-same-walker/depends-on-number-of-walkers" % ("" if mode == "r" else "_uhf"),
                              dict(part="count", n_walkers=nw, mode=mode, seed=cfg["seed"]), dict(n_walkers=nw, first_wrong_walker=first, worst=worst))
    res.sample(dict(part="count", lo=cfg["lo"], hi=cfg["hi"]))
    return res


def count_configs(tier, seed):
    hi, step = (520, 40) if tier == "thorough" else (264, 24)
    return [dict(part="count", lo=lo, hi=min(lo + step - 1, hi), seed=seed, tier=tier) for lo in range(1, hi + 1, step)]


# ----------------------------------------------------------------------------- driver
def job(cfg):
    if cfg["part"] == "count":
        return job_count(cfg)
    if cfg["part"] == "inithist":
        return job_init_history(cfg)
    return job_qr(cfg) if cfg["part"] == "qr" else job_init(cfg)


def run(ctx):
    ctx.rule = ("part A': the NUMBER of walkers as an axis: every batch size 1..264 [1..520] contiguously through qr_vmap and qr_vmap_uhf "
                "on generic complex walkers, the QR oracle applied walker by walker (the factor at position k belongs to walker k); "
                "part A: configurations = trial kind x (norb,n_up,n_dn) x variant x {unrestricted, restricted} x column scaling "
                "{1, (1e6,1e-6,..), (1e-6,1e6,..)} x every route {qr_vmap, qr_vmap_uhf, orthonormalize_walkers and _orthogonalize_walkers of "
                "every propagator class} x trial-parameter sets {first, dense} x the full walker product grid; a state = (configuration, "
                "scaling, walker); oracle: Q^H Q = 1, Q(Q^H W) = W, Q^H W upper triangular, returned factor = prod diag(Q^H W) (column-relative "
                "1e-11/1e-9), overlap(W) = overlap(Q) x factors, energy and every force-bias component unchanged; "
                "part B: configurations = trial kind x size x {orthonormal, non-orthonormal orbitals} x spin-breaking angle "
                "{0, 0.3, pi/3, 1.5, pi/2-1e-4, pi/2} x {all, last} beta orbitals rotated x frame {generic, identity, complex unitary (uhf, uhf_cpmc)} x density-matrix letter "
                "{trial's own, supplied smeared / exact (Fock) / mean-field reference} x restricted flag x n_walkers {1, 3}; oracle: container, "
                "shape, count, orthonormal columns, Fock-model trial overlap >= 1e-3 (normalised) or ValueError, calc_overlap(init) = Fock overlap, "
                "calc_energy(init) = <psi|H|psi>/<psi|psi> for single determinants the container can represent; "
                "non-trivial & distinct = distinct non-zero overlaps after QR / of initial walkers")
    ctx.rule += ("; part C: (uhf (3;2,1), rhf (3;1,1); thorough adds uhf (3;2,2), (4;2,1), rhf (3;2,2)) x flavour {wave_data without rdm1, with a user-supplied rdm1} x every "
                 "word of length <= 2 (3 thorough) ending in a generator call over {init_u = get_init_walkers(restricted=False), init_r = get_init_walkers(restricted=True), "
                 "prop = propagator.init_prop_data, set:L1 / set:L2 = the user assigns other orbitals of the angle/frame alphabet in the same dict, opt = wave_data = "
                 "trial.optimize(ham_data, wave_data)} plus, in the quick tier, the generator -> change -> generator words of length 3; after every generator call: "
                 "the caller's dict has the same keys and bitwise the same arrays as a held copy, container/shape/count, orthonormal columns, Fock-model overlap with the "
                 "determinant of the CURRENT orbitals >= 1e-3 or ValueError (restricted), Fock-model mixed energy = variational energy of the CURRENT orbitals where the "
                 "container can represent them, init_prop_data's e_estimate / overlaps likewise; with a supplied rdm1 the walkers keep spanning the supplied density's spaces")
    ctx.assume("call histories: optimize returns a new dict (jitted) which becomes the caller's dict; a supplied rdm1 is documented to take precedence over the orbitals, so in that flavour only shape, orthonormality, 'walkers come from the supplied density' and 'dict unchanged' are demanded")
    ctx.assume("walker grids are a dense exhaustive test for QR (not a polynomial identity); walkers whose column-normalised smallest singular value is < 1e-2 or whose reference overlap is < 1e-2 of the grid maximum (energy, force bias only) are excluded beforehand")
    ctx.assume("restricted walkers with n_dn < n_up: qr_vmap returns one factor; the beta factor is the product of the leading n_dn diagonal entries of Q^H W, taken from the oracle's own Q^H W after it was verified upper triangular with prod diag = returned factor")
    ctx.assume("'unchanged' tolerances: force bias 1e-9 for every kind; energy by arithmetic class as in C02: 1e-9 float64 formulas, 2e-5 complex64 intermediates (cisd, ucisd), finite-difference AD trials 6e-6 (two evaluations each within C02's 3e-6) and 3e-5 on the 1e+-6 column scalings (round-off of the second difference at step 1e-4)")
    ctx.assume("'bounded away from zero' = |<psi_T|phi>| / (|psi_T| |phi|) >= 1e-3, the generator's own documented threshold; density-matrix letters are densities of the trial (own, exact, smeared with the trial's orbitals as leading natural orbitals, mean-field reference as mpi_jax supplies it) with an open natural-occupation gap (> 0.2) at n_sigma; a ValueError is always accepted (the property allows refusal), refusals are counted in the guards")
    ctx.assume("complex trial orbitals are admitted for uhf / uhf_cpmc only (their overlap, Green's function, intermediates and rdm1 conjugate the trial; rhf._calc_rdm1 uses mo @ mo.T and stays real); violations on complex orbitals carry the suffix /complex-orbitals")
    ctx.assume("kinds without _calc_rdm1 raise the documented NotImplementedError when no rdm1 is supplied (counted, outside the property)")
    jobs = hist_configs(ctx.tier, ctx.seed) + qr_configs(ctx.tier, ctx.seed) + init_configs(ctx.tier, ctx.seed) + count_configs(ctx.tier, ctx.seed)
    ctx.pmap(job, jobs)
    ctx.violations.sort(key=lambda v: (v["case"]["n"], v["case"]["na"] + v["case"]["nb"], v["case"].get("point", 0)))
    if ctx.violations:
        return  # vacuity guards qualify a pass; a broken generator may legitimately leave some branch unexercised
    ctx.require_guard("walker_count_axis", "walker_count_axis_above_64", "grid_points_u_none", "grid_points_r_none", "grid_points_u_hi-lo", "grid_points_r_lo-hi", "qr_nontrivial_R",
                      "open_shell_restricted_configs", "returned/restricted", "returned/unrestricted",
                      "variational_energy_checked/restricted-open-shell", "spin_broken_restricted_open_shell_cases",
                      "closed_shell_fallback_construction_returned", "refused_ValueError",
                      "history_words/no-rdm1", "history_words/supplied-rdm1", "history_generator_calls_after_orbitals_changed", "history_energy_checked",
                      "history_supplied_checked", "history_prop_calls",
                      "complex_orbital_cases/restricted-open", "complex_orbital_cases/restricted-closed", "complex_orbital_cases/unrestricted-open")


def replay(case):
    cfg = dict(case)
    if cfg["part"] == "count":
        r = job_count(dict(part="count", lo=int(cfg["n_walkers"]), hi=int(cfg["n_walkers"]), seed=cfg["seed"]))
        v = [x for x in r.violations if x["case"]["mode"] == cfg["mode"]]
        return (len(v) > 0, {"violations": [dict(signature=x["signature"], detail=x["detail"]) for x in v][:1]})
    if cfg["part"] == "inithist":
        sub = {k: v for k, v in cfg.items() if k not in ("what", "flavour", "word")}
        sub["flavours"] = [cfg["flavour"]]
        sub["only"] = [cfg["flavour"], list(cfg["word"])]
        r = job_init_history(sub)
        return (len(r.violations) > 0, {"violations": [dict(signature=x["signature"], detail=x["detail"]) for x in r.violations][:1]})
    if cfg["part"] == "init":
        keys = ("case", "restricted", "n_walkers", "what")
        sub = {k: v for k, v in cfg.items() if k not in keys}
        sub["only"] = dict(case=cfg["case"], restricted=cfg["restricted"])
        r = job_init(sub)
        v = [x for x in r.violations]
        return (len(v) > 0, {"violations": [dict(signature=x["signature"], detail={k: y for k, y in x["detail"].items() if not k.startswith("walker")}) for x in v][:2]})
    # part A: re-run the single walker through the library route and re-evaluate the one failing demand
    kind, n, na, nb, seed = cfg["kind"], cfg["n"], cfg["na"], cfg["nb"], cfg["seed"]
    thorough = cfg["tier"] == "thorough"
    mode, pat, i = cfg["mode"], cfg["scaling"], cfg["point"]
    tc = trials.build(kind, n, na, nb, seed, cfg["variant"], full_basis=False)
    grid = al.walker_grid(n, na, nb, seed, restricted=(mode == "r"), cap=qr_cap(mode, thorough, cfg.get("lite", False)))
    Wa, Wb, Phi = scaled_walkers(tc, grid, mode, pat, na, nb)
    sl = slice(i, i + 1)
    Wa1, Wb1 = Wa[sl], None if Wb is None else Wb[sl]
    if cfg["check"] == "qr":
        qa, qb, fa, fb = lib_qr(mode, Wa1, Wb1, cfg["via"])
        W_, Q_, f_ = (Wa1, qa, fa) if cfg["spin"] == "up" else (Wb1, qb, fb)
        errs, _ = qr_identities(W_, Q_, f_ if f_ is not None else np.ones(1))
        e = float(errs[cfg["what"]][0])
        tol = TOL_ALG if cfg["what"] != "factor" else TOL_OVLP
        return (not e <= tol, dict(what=cfg["what"], err=e, tol=tol))
    Qa, Qb, fa, fb = lib_qr(mode, Wa1, Wb1, "linalg")
    _, Ra = qr_identities(Wa1, Qa, fa)
    fac = overlap_factor(mode, na, nb, fa, fb, Ra)
    ip = [k for k, q in enumerate(tc.params) if q.label == cfg["label"]][0]
    p = tc.params[ip]
    trial = gridmc.trial_for(tc, ip)
    spin_dep = (kind in SPIN_DEP_KINDS and mode == "u") or (mode == "r" and kind in trials.CLOSED_ONLY)
    h0, h1, chol = meas_ham(n, seed, spin_dep)
    hd = gridmc.build_ham_data(n, h0, h1, chol, trial, p.wave_data)
    OW, EW, FW = measure(trial, p.wave_data, hd, mode, Wa1, Wb1)
    OQ, EQ, FQ = measure(trial, p.wave_data, hd, mode, Qa, Qb)
    if cfg["what"] == "overlap":
        e = float(np.abs(OW - OQ * fac)[0] / np.abs(OW)[0])
    elif cfg["what"] == "energy":
        e = float(np.abs(EW - EQ)[0] / max(1.0, np.abs(EQ)[0]))
    else:
        e = float(np.abs(FW - FQ).max() / max(1.0, np.abs(FQ).max()))
    return (not e <= cfg["tol"], dict(what=cfg["what"], err=e, tol=cfg["tol"], overlap_W=OW[0], overlap_Q=OQ[0], factor=fac[0]))
