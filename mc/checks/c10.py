"""C10 -- the CPMC step samples the discrete Hubbard-Stratonovich propagator without bias; the O(N^2)
fast updates are exact; fast == slow propagators.   Engine: probmc (every branch with its exact weight).

Three families of jobs, each worker handling one static (= one JAX compilation) configuration:

fast   every ordered pair of spin-orbitals x a 4x4 alphabet of update constants through
       trial.calc_overlap_ratio / update_greens_function / calc_full_green (uhf_cpmc, ghf_cpmc), against
       from-scratch determinants and Green's functions in NumPy.
tree   propagator_cpmc / propagator_cpmc_slow: ONE population holding one walker per leaf of the binary
       tree of field configurations (its branch forced through the Gaussian numbers propagate() receives:
       g=-40 -> uniform 0 -> field 0, g=+40 -> uniform 1 -> field 1) plus two boundary probes per internal
       node (u = p_ref -+ delta) that pin the implementation's selection probability.  Per walker the NumPy
       reference replays the same decisions with explicit diagonal scalings, from-scratch determinants and
       the same one-body half step (whatever matrix the library built - so these oracles do not depend on
       finding F6); then the exact expectation  sum_x p(x) w(x) phi'(x)/O'(x)  is compared, in the Fock
       model, with  exp(dt s) G(E) prod_i exp(-dt U n_iu n_id) G(E) phi/O   for (a) E = the half step the
       propagator actually used and (b) E = exp(-dt K/2), K the bare lattice kinetic matrix (the property as
       stated).  Every case is run twice: with exp_h1 exactly as ham.build_propagation_intermediates builds
       it from a Hubbard ham_data assembled the way examples/hubbard.ipynb does (mode "library"), and with
       exp_h1 := exp(-dt K/2) supplied by the harness (mode "bare").  K carries a spin label: besides the bare hopping
       (K_up = K_dn) a staggered Zeeman field and an edge pinning field K_s = K +- diag(f) are letters of the alphabet.
nn     propagator_cpmc_nn / propagator_cpmc_nn_slow: their uniforms come from `random` in the propagation
       module namespace; the harness rebinds that name to a pass-through fake (split(k) = (k, k);
       uniform(k, shape) = the matching slice of k) so prop_data["key"] *is* the table of uniforms - a traced
       input, one compilation serves every table - and runs all 2^(n+4*bonds) forced paths plus probes,
       fast vs slow vs the NumPy reference.
"""

import itertools
from functools import lru_cache

import numpy as np

from mc import alphabets as al
from mc import fock
from mc.core import Result

ID = "C10"
TECHNIQUE = ("exhaustive enumeration of all discrete auxiliary-field paths (one forced walker per leaf + boundary "
             "probes per node) with exact path weights against a NumPy/Fock-space reference; all spin-orbital pairs "
             "x constant alphabet for the fast updates; histories (all orders) of propagator objects that differ in one "
             "structural attribute through one process' jit cache")
TOL = 1e-9
DELTA = 1e-8          # half width of the probability probes
THR_LO, THR_HI = 1e-8, 100.0


# =============================================================================== library access
def _lib():
    from ad_afqmc import config

    config.afqmc_config["use_mpi"] = False
    config.setup_jax()
    import jax
    import jax.numpy as jnp
    from ad_afqmc import hamiltonian, propagation, wavefunctions

    return jax, jnp, wavefunctions, propagation, hamiltonian


class _PassThroughRandom:
    """Stand-in for the `random` name inside ad_afqmc.propagation: the 'key' is the table of uniforms itself.

    The table (W, n + 4*n_bonds) is a stream of two segments, one per draw of the neighbour propagators: segment 0 is
    what `uniform(shape=(W, n))` must return, segment 1 is, per walker, the row-major (4, n_bonds) array that
    `uniform(shape=(W, 4, n_bonds))` must return (bond x, channel c -> column n + c*n_bonds + x).  Numbers are handed
    out by (draw index, requested shape): the d-th draw gets segment d read cyclically in the row-major order of the
    shape it asked for.  A request with the reference shape gets the reference numbers; any other shape gets a
    different assignment of numbers to (channel, bond) - as with a real generator - and therefore shows up as a
    mismatch against the reference and the slow propagator instead of being absorbed."""

    def __init__(self):
        self.n_split = 0
        self.n_uniform = 0
        self.draw = 0       # reset by the harness before every propagate call (only read while tracing)
        self.layout = None  # (n_sites, n_bonds), set by the job before the call
        self.shapes = []

    def split(self, key, num=2):
        self.n_split += 1
        return tuple(key for _ in range(num))

    def uniform(self, key, shape=(), dtype=None, minval=0.0, maxval=1.0):
        self.n_uniform += 1
        n, nb = self.layout
        W = key.shape[0]
        shape = tuple(int(k) for k in shape)
        self.shapes.append(shape)
        if len(shape) < 2 or shape[0] != W:
            raise AssertionError("virtual RNG: unexpected uniform shape %r" % (shape,))
        d = min(self.draw, 1)
        self.draw += 1
        seg = key[:, :n] if d == 0 else key[:, n:]
        size = int(np.prod(shape[1:]))
        return seg[:, np.arange(size) % seg.shape[1]].reshape(shape)

    def __getattr__(self, name):
        raise AssertionError("virtual RNG: propagation.random.%s is not part of the alphabet" % name)


def nn_table(u, n, nb):
    """decision order (sites, then per bond x the channels uu, ud, du, dd: column n + 4x + c of `u`) -> stream layout"""
    tab = np.array(u, copy=True)
    for x in range(nb):
        for c in range(4):
            tab[:, n + c * nb + x] = u[:, n + 4 * x + c]
    return tab


_FAKE = _PassThroughRandom()


def _install_fake_random():
    _, _, _, propagation, _ = _lib()
    if propagation.random is not _FAKE:
        _FAKE.real = propagation.random
        propagation.random = _FAKE
    return _FAKE


def _restore_random():
    _, _, _, propagation, _ = _lib()
    if propagation.random is _FAKE:
        propagation.random = _FAKE.real


# =============================================================================== lattices / Hamiltonian
@lru_cache(maxsize=None)
def lattice(name):
    """(K, bonds): K = -t * adjacency of the library's lattice object (t = 1), bonds i<j from its neighbour lists."""
    _lib()
    from ad_afqmc import lattices

    if name.startswith("chain"):
        lat = lattices.one_dimensional_chain(int(name[5:]))
    elif name == "grid2x2":
        lat = lattices.two_dimensional_grid(2, 2)
    elif name[0] == "b" and ":" in name:
        # explicit neighbour list 'b<n>:ij,kl,...' kept in the given order and orientation; K = -adjacency of that graph
        n = int(name[1:name.index(":")])
        bonds = tuple((int(q[0]), int(q[1])) for q in name.split(":")[1].split(","))
        K = np.zeros((n, n))
        for (i, j) in bonds:
            K[i, j] = K[j, i] = -1.0
        return K, bonds
    elif name == "ring4diag":
        # 4-site ring plus one diagonal: 5 bonds on 4 sites (more bonds than sites, as on every 2-D lattice beyond 2x2)
        K, bonds = lattice("chain4")
        K = K.copy()
        K[0, 2] = K[2, 0] = -1.0
        return K, tuple(sorted(set(bonds) | {(0, 2)}))
    else:
        raise ValueError(name)
    A = np.asarray(lat.create_adjacency_matrix(), dtype=float)
    bonds = set()
    for i, s in enumerate(lat.sites):
        for t in lat.get_nearest_neighbors(s):
            j = int(lat.get_site_num(t))
            if i != j:
                bonds.add((min(i, j), max(i, j)))
    return -1.0 * A, tuple(sorted(bonds))


LATS = {2: ["chain2"], 3: ["chain3"], 4: ["chain4", "grid2x2"], 5: ["chain5"]}


@lru_cache(maxsize=None)
def hubbard_chol(n, U, u1=0.0, bonds=()):
    """Cholesky vectors exactly as pyscf_interface.prep_afqmc(integrals=...) makes them from the interaction
    tensor h2[i,i,i,i] = U (and h2[i,i,j,j] = u1 on bonds), see examples/hubbard.ipynb."""
    from pyscf import ao2mo
    from ad_afqmc import pyscf_interface

    h2 = np.zeros((n, n, n, n))
    for i in range(n):
        h2[i, i, i, i] = U
    for (i, j) in bonds:
        h2[i, i, j, j] = u1
        h2[j, j, i, i] = u1
    eri = ao2mo.restore(4, ao2mo.restore(8, h2, n), n)
    chol0 = pyscf_interface.modified_cholesky(eri, 1e-5)
    nchol = chol0.shape[0]
    chol = np.zeros((nchol, n, n))
    for g in range(nchol):
        for m in range(n):
            for k in range(m + 1):
                chol[g, m, k] = chol[g, k, m] = chol0[g, m * (m + 1) // 2 + k]
    return chol.reshape(nchol, -1)


FIELDS = ("none", "staggered", "edge")


def spin_K(K, field="none"):
    """One-body matrices per spin, K_sigma = K + s_sigma * diag(f), s_up = +1, s_dn = -1 (a Zeeman-type term, which
    ham_data["h1"] of shape (2,n,n) carries):  staggered f_i = 0.3 (-1)^i ;  edge: pinning field 0.5 on site 0 only."""
    n = K.shape[0]
    if field == "none":
        f = np.zeros(n)
    elif field == "staggered":
        f = 0.3 * (-1.0) ** np.arange(n)
    elif field == "edge":
        f = np.zeros(n)
        f[0] = 0.5
    else:
        raise ValueError(field)
    return np.array([K + np.diag(f), K - np.diag(f)])


def hubbard_ham_data(K, U, u1=0.0, bonds=(), field="none"):
    """ham_data as mpi_jax._prep_afqmc assembles it from the files prep_afqmc writes (h1 = [h1, h1]); a spin-dependent
    one-body letter replaces the two copies by K_up, K_dn."""
    _, jnp, _, _, _ = _lib()
    n = K.shape[0]
    hd = {"h0": jnp.asarray(0.0), "h1": jnp.asarray(spin_K(K, field)),
          "chol": jnp.asarray(hubbard_chol(n, float(U), float(u1), tuple(bonds))), "ene0": 0.0}
    return hd


# =============================================================================== trials and walkers
_H2 = np.array([[1.0, 1.0], [1.0, -1.0]]) / np.sqrt(2.0)
_H4 = np.kron(_H2, _H2)


def _uniform_orbitals(n, k, salt, seed):
    """k orthonormal real orbitals on n sites whose density diag(C C^T) is the same on every site, or None when this
    small alphabet has none (equal-modulus vectors, their complements, Hadamard columns for n = 2, 4, full bands)."""
    if k == n:
        return al.frame(n, seed, 11 + salt)
    if n in (2, 4):
        H = _H2 if n == 2 else _H4
        cols = [(salt + c) % n for c in range(k)]
        return H[:, cols] @ al.frame(k, seed, 13 + salt)
    sgn = np.ones(n)
    if salt % 3:
        sgn[(salt % 3)::2] = -1.0
    v = sgn / np.sqrt(n)
    if k == 1:
        return v[:, None]
    if k == n - 1:
        Q, _ = np.linalg.qr(np.column_stack([v, al.frame(n, seed, 17 + salt)[:, : n - 1]]))
        return Q[:, 1:n] @ al.frame(n - 1, seed, 19 + salt)
    return None


def has_uniform(n, na, nb):
    return _uniform_orbitals(n, na, 0, 0) is not None and _uniform_orbitals(n, nb, 1, 0) is not None


_THETAS = [np.pi / 4, 0.3, np.pi / 3, 1.1, 0.6]


def make_trial(kind, n, na, nb, density, seed, nonorth=False):
    """Returns (trial, wave_data, RefTrial).  kind in {uhf_cpmc, ghf_cpmc}; density in {uniform, nonuniform}.
    GHF/uniform is the UHF determinant rotated about the y axis as in examples/hubbard.ipynb; GHF/nonuniform
    is a generic real 2n x N frame.  wave_data['rdm1'] is the trial's own density (as _prep_afqmc stores it)."""
    _, jnp, wf, _, _ = _lib()
    if density == "uniform":
        if not has_uniform(n, na, nb):
            raise ValueError("no uniform-density determinant for %r" % ((n, na, nb),))
        Ca = _uniform_orbitals(n, na, 0, seed)[:, :na]
        Cb = _uniform_orbitals(n, nb, 1, seed)[:, :nb]
    else:
        Ca = al.frame(n, seed, 2)[:, :na]
        Cb = al.frame(n, seed, 3)[:, :nb]
    if kind == "uhf_cpmc":
        if nonorth:
            rng = np.random.default_rng(7700 + seed)
            Ca = Ca @ (np.diag(1.0 + 0.2 * np.arange(na)) + 0.3 / na * rng.uniform(-1, 1, size=(na, na)))
            Cb = Cb @ (np.diag(1.0 + 0.2 * np.arange(nb)) + 0.3 / nb * rng.uniform(-1, 1, size=(nb, nb)))
        trial = wf.uhf_cpmc(n, (na, nb))
        wd = {"mo_coeff": [jnp.asarray(Ca), jnp.asarray(Cb)]}
        rdm = np.array([Ca @ Ca.T, Cb @ Cb.T])
        ref = RefTrial("uhf_cpmc", n, na, nb, (Ca, Cb))
    elif kind == "ghf_cpmc":
        N = na + nb
        if density == "uniform":
            th = _THETAS[seed % len(_THETAS)]
            C = np.zeros((2 * n, N))
            C[:n, :na] = np.cos(th) * Ca
            C[n:, :na] = np.sin(th) * Ca
            C[:n, na:] = -np.sin(th) * Cb
            C[n:, na:] = np.cos(th) * Cb
        else:
            # the rotated non-uniform UHF determinant, then a generic small spin-mixing rotation of the 2n spin-orbitals
            th = _THETAS[(seed + 1) % len(_THETAS)]
            C = np.zeros((2 * n, N))
            C[:n, :na] = np.cos(th) * Ca
            C[n:, :na] = np.sin(th) * Ca
            C[:n, na:] = -np.sin(th) * Cb
            C[n:, na:] = np.cos(th) * Cb
            t = seed
            for i in range(2 * n):
                for j in range(i + 1, 2 * n):
                    C = al.givens(2 * n, i, j, [0.11, -0.07, 0.16, 0.05, -0.13][t % 5]) @ C
                    t += 1
        if nonorth:
            rng = np.random.default_rng(7800 + seed)
            C = C @ (np.diag(1.0 + 0.2 * np.arange(N)) + 0.3 / N * rng.uniform(-1, 1, size=(N, N)))
        trial = wf.ghf_cpmc(n, (na, nb))
        wd = {"mo_coeff": jnp.asarray(C)}
        dm = C @ C.T
        rdm = np.array([dm[:n, :n], dm[n:, n:]])
        ref = RefTrial("ghf_cpmc", n, na, nb, C)
    else:
        raise ValueError(kind)
    wd["rdm1"] = jnp.asarray(rdm)
    ref.density = np.diag(rdm[0]) + np.diag(rdm[1])
    return trial, wd, ref


class RefTrial:
    """From-scratch overlap and Green's function of a real UHF / GHF trial with a block (UHF-type) walker."""

    def __init__(self, kind, n, na, nb, mo):
        self.kind, self.n, self.na, self.nb, self.mo = kind, n, na, nb, mo

    def overlap(self, Wa, Wb):
        if self.kind == "uhf_cpmc":
            Ca, Cb = self.mo
            return np.linalg.det(Ca.T @ Wa) * np.linalg.det(Cb.T @ Wb)
        C = self.mo
        M = np.concatenate([C[: self.n].T @ Wa, C[self.n:].T @ Wb], axis=-1)
        return np.linalg.det(M)

    def overlap_matrices(self, Wa, Wb):
        if self.kind == "uhf_cpmc":
            return [self.mo[0].T @ Wa, self.mo[1].T @ Wb]
        return [np.concatenate([self.mo[: self.n].T @ Wa, self.mo[self.n:].T @ Wb], axis=-1)]

    def green(self, Wa, Wb):
        """Library layout: uhf (W,2,n,n) with G[s] = (W_s (C_s^T W_s)^-1 C_s^T)^T ; ghf (W,2n,2n)."""
        if self.kind == "uhf_cpmc":
            Ca, Cb = self.mo
            Ga = np.swapaxes(Wa @ np.linalg.inv(Ca.T @ Wa) @ Ca.T, -1, -2)
            Gb = np.swapaxes(Wb @ np.linalg.inv(Cb.T @ Wb) @ Cb.T, -1, -2)
            return np.stack([Ga, Gb], axis=-3)
        C, n = self.mo, self.n
        W = Wa.shape[0]
        Wg = np.zeros((W, 2 * n, self.na + self.nb))
        Wg[:, :n, : self.na] = Wa
        Wg[:, n:, self.na:] = Wb
        return np.swapaxes(Wg @ np.linalg.inv(C.T @ Wg) @ C.T, -1, -2)


def make_walker(ref, which, seed):
    """A real generic walker (phi_up, phi_dn) with positive, well-conditioned trial overlap.
    near: the trial's own spin blocks plus a 0.25 perturbation;  far: a generic O(1) matrix."""
    n, na, nb = ref.n, ref.na, ref.nb
    if ref.kind == "uhf_cpmc":
        Ba, Bb = ref.mo
    else:
        Ba, Bb = ref.mo[:n, :na], ref.mo[n:, na:]
    for attempt in range(40):
        rng = np.random.default_rng(5100 + 97 * seed + 13 * attempt + (0 if which == "near" else 1000) + 7 * n + 3 * na + nb)
        La = rng.uniform(-1, 1, size=(n, na))
        Lb = rng.uniform(-1, 1, size=(n, nb))
        if which == "near":
            Wa, Wb = Ba + 0.25 * La, Bb + 0.25 * Lb
        else:
            Wa, Wb = np.eye(n)[:, :na] * 0.5 + La, np.eye(n)[:, :nb] * 0.5 + Lb
        O = ref.overlap(Wa[None], Wb[None])[0]
        if O < 0:
            Wa = Wa.copy()
            Wa[:, 0] *= -1.0
        # conditioning pre-check on the input: every overlap matrix block well away from singular
        if min(np.linalg.svd(M, compute_uv=False)[-1] / np.linalg.svd(M, compute_uv=False)[0]
               for M in ref.overlap_matrices(Wa, Wb)) > 0.04:
            return Wa, Wb
    raise RuntimeError("no conditioned walker for %r %s" % ((ref.kind, n, na, nb), which))


# =============================================================================== the decision tree
def ops_onsite(n):
    return [((0, i), (1, i), "on") for i in range(n)]


def ops_nn(n, bonds):
    ops = ops_onsite(n)
    for (i, j) in bonds:
        ops += [((0, i), (0, j), "nn"), ((0, i), (1, j), "nn"), ((1, i), (0, j), "nn"), ((1, i), (1, j), "nn")]
    return ops


@lru_cache(maxsize=None)
def tree_spec(T, probes=True):
    """bits (W,T) forced decisions, depth (W,) = probe depth or -1 for a leaf, sign (W,) = -1/+1 probe side."""
    L = 2 ** T
    idx = np.arange(L)
    leaf_bits = ((idx[:, None] >> (T - 1 - np.arange(T))[None, :]) & 1).astype(np.int8)
    bits, depth, sign = [leaf_bits], [np.full(L, -1)], [np.zeros(L, dtype=int)]
    if probes:
        for d in range(T):
            P = 2 ** d
            pidx = np.arange(P)
            pb = np.zeros((P, T), dtype=np.int8)
            if d:
                pb[:, :d] = ((pidx[:, None] >> (d - 1 - np.arange(d))[None, :]) & 1)
            for s in (-1, +1):
                bits.append(pb)
                depth.append(np.full(P, d))
                sign.append(np.full(P, s))
    return np.concatenate(bits), np.concatenate(depth), np.concatenate(sign)


PREFIX_LETTERS = ("zeros", "ones", "alternating")


@lru_cache(maxsize=None)
def subtree_spec(T, suffix):
    """Bounded sub-tree for trees too large to enumerate (T = n + 4*bonds = 24 on the 5-bond lattice): the first T - suffix
    decisions run over a 3-letter alphabet of forced prefixes (all 0, all 1, alternating), the last `suffix` decisions over
    ALL 2^suffix patterns.  Leaves only (no probes, and no summed identity, which needs the complete tree)."""
    P = T - suffix
    pre = [np.zeros(P, dtype=np.int8), np.ones(P, dtype=np.int8), (np.arange(P) % 2).astype(np.int8)]
    idx = np.arange(2 ** suffix)
    suf = ((idx[:, None] >> (suffix - 1 - np.arange(suffix))[None, :]) & 1).astype(np.int8)
    bits = np.concatenate([np.concatenate([np.broadcast_to(p, (suf.shape[0], P)), suf], axis=1) for p in pre])
    W = bits.shape[0]
    return bits, np.full(W, -1), np.zeros(W, dtype=int)


def _scale_rows(Wa, Wb, so, c):
    """multiply row so=(spin,i) of every walker by c (scalar or per-walker array); returns new arrays"""
    s, i = so
    if s == 0:
        Wa = Wa.copy()
        Wa[:, i, :] *= np.reshape(c, (-1, 1))
    else:
        Wb = Wb.copy()
        Wb[:, i, :] *= np.reshape(c, (-1, 1))
    return Wa, Wb


def ref_tree(*args, **kw):
    with np.errstate(all="ignore"):
        return _ref_tree(*args, **kw)


def _ref_tree(ref, phi, E, hs, ops, w0, shift, dt, bits, depth, sign):
    """NumPy replay of one CPMC step for a whole population that starts from the single walker `phi`.

    E: (2,n,n) one-body half step (data); hs: {'on': 2x2, 'nn': 2x2} field constants (data, checked separately
    against the Hubbard-Stratonovich law); decisions as in tree_spec.  Semantics are the library's:
    ratio < 1e-8 -> 0 (constraint), choose field 0 iff u < prob_0, weight *= prob_0+prob_1, weight < 1e-8 -> 0,
    weight > 100 -> 0."""
    W, T = bits.shape
    pa, pb = phi
    Wa = np.broadcast_to(E[0] @ pa, (W,) + pa.shape).copy()
    Wb = np.broadcast_to(E[1] @ pb, (W,) + pb.shape).copy()
    O0 = ref.overlap(pa[None], pb[None])[0]
    O = ref.overlap(Wa, Wb)
    w = w0 * (O / O0)
    ambiguous = np.abs(w / THR_LO - 1.0) < 1e-3
    w = np.where(w < THR_LO, 0.0, w)
    u = np.zeros((W, T))
    chosen = np.zeros((W, T), dtype=np.int8)
    pchosen = np.ones(W)
    active = np.zeros(W, dtype=bool)      # some ratio was clipped by the constraint along this walker's history
    dead = np.zeros(W, dtype=bool)        # both fields rejected, or a rejected field forced: zero-probability histories whose
                                          # continuation (division by the zero cached overlap) belongs to property C09 / finding F9
    probe_ok = np.ones(W, dtype=bool)
    for t, (so_i, so_j, tab) in enumerate(ops):
        H = hs[tab]
        r = []
        for x in (0, 1):
            Xa, Xb = _scale_rows(Wa, Wb, so_i, H[x, 0])
            Xa, Xb = _scale_rows(Xa, Xb, so_j, H[x, 1])
            r.append(ref.overlap(Xa, Xb) / O)
        r0, r1 = r
        ambiguous |= (np.abs(r0) > 2e-9) & (np.abs(r0) < 5e-8) | (np.abs(r1) > 2e-9) & (np.abs(r1) < 5e-8)
        active |= (r0 < THR_LO) | (r1 < THR_LO)
        r0 = np.where(r0 < THR_LO, 0.0, r0)
        r1 = np.where(r1 < THR_LO, 0.0, r1)
        p0, p1 = r0 / 2.0, r1 / 2.0
        norm = p0 + p1
        dead |= norm == 0
        with np.errstate(invalid="ignore", divide="ignore"):
            prob0 = p0 / norm
        # uniforms: forced bits for leaves / before the probe; p_ref -+ delta at the probe; 0 after it
        ut = np.where(bits[:, t] == 1, 1.0, 0.0)
        at = depth == t
        ok = at & (prob0 > 10 * DELTA) & (prob0 < 1 - 10 * DELTA)
        probe_ok &= ~at | ok
        ut = np.where(ok, prob0 + sign * DELTA, ut)
        u[:, t] = ut
        with np.errstate(invalid="ignore"):
            c0 = ut < prob0
        chosen[:, t] = np.where(c0, 0, 1)
        cst_i = np.where(c0, H[0, 0], H[1, 0])
        cst_j = np.where(c0, H[0, 1], H[1, 1])
        Wa, Wb = _scale_rows(Wa, Wb, so_i, cst_i)
        Wa, Wb = _scale_rows(Wa, Wb, so_j, cst_j)
        rc = np.where(c0, r0, r1)
        dead |= (rc == 0) & (norm != 0)    # forced (u = 0 or 1 exactly) into a branch of probability zero: off the support
        O = rc * O
        w = w * norm
        with np.errstate(invalid="ignore"):
            pchosen = pchosen * np.where(c0, prob0, 1.0 - prob0)
    O_mid = ref.overlap(Wa, Wb)            # from-scratch determinant of the product of scalings
    Wa = E[0] @ Wa
    Wb = E[1] @ Wb
    Onew = ref.overlap(Wa, Wb)
    with np.errstate(invalid="ignore", divide="ignore"):
        w = w * (Onew / O_mid)
    ambiguous |= np.abs(w / THR_LO - 1.0) < 1e-3
    w = np.where(w < THR_LO, 0.0, w)
    w = w * np.exp(dt * shift)
    ambiguous |= np.abs(w / THR_HI - 1.0) < 1e-3
    clipped_hi = w > THR_HI
    w = np.where(clipped_hi, 0.0, w)
    return dict(Wa=Wa, Wb=Wb, O=Onew, w=w, u=u, chosen=chosen, p=pchosen, active=active, dead=dead,
                ambiguous=ambiguous, probe_ok=probe_ok, clipped=clipped_hi | ((w == 0) & ~dead), O0=O0)


def uniforms_to_gaussians(u):
    from scipy.special import erfinv

    with np.errstate(divide="ignore"):
        g = np.sqrt(2.0) * erfinv(2.0 * u - 1.0)
    g = np.where(u <= 0.0, -40.0, g)
    g = np.where(u >= 1.0, 40.0, g)
    return g


def init_weights(W):
    k = np.arange(W)
    return 0.6 + 0.8 * ((k * 7919) % 101) / 101.0


# =============================================================================== Fock-space side of the identity
def _sym_log(E):
    lam, V = np.linalg.eigh(0.5 * (E + E.T))
    if lam.min() <= 0:
        raise RuntimeError("one-body half step is not positive definite")
    return (V * np.log(lam)) @ V.T


def _sym_expm(A):
    lam, V = np.linalg.eigh(0.5 * (A + A.T))
    return (V * np.exp(lam)) @ V.T


def fock_rhs(n, na, nb, E, U, dt, shift, phi, O0, u1=0.0, bonds=()):
    """exp(dt s) G(E) prod_i exp(-dt U n_iu n_id) [prod_bonds prod_ss' exp(-dt u1 n_is n_js')] G(E) |phi> / O0
    with G(E) the Fock-space representation of the orbital transformation E (per spin)."""
    sec = fock.sector(n, na, nb)
    Z = np.zeros((n, n))
    nocc = {}
    for i in range(n):
        P = np.zeros((n, n))
        P[i, i] = 1.0
        nocc[0, i] = np.diag(sec.op1(P, Z)).copy()
        nocc[1, i] = np.diag(sec.op1(Z, P)).copy()
    D = np.ones(sec.dim)
    for i in range(n):
        D = D * np.exp(-dt * U * nocc[0, i] * nocc[1, i])
    for (i, j) in bonds:
        for s in (0, 1):
            for t in (0, 1):
                D = D * np.exp(-dt * u1 * nocc[s, i] * nocc[t, j])
    G = _sym_expm(sec.op1(_sym_log(E[0]), _sym_log(E[1])))
    v0 = sec.walker_vectors(phi[0][None], phi[1][None])[:, 0]
    v1 = G @ v0
    chk = sec.walker_vectors((E[0] @ phi[0])[None], (E[1] @ phi[1])[None])[:, 0]
    if not np.abs(v1 - chk).max() <= 1e-11 * max(1.0, np.abs(chk).max()):
        raise RuntimeError("reference self-test failed: G(E)|phi> != |E phi>")
    return np.exp(dt * shift) * (G @ (D * v1)) / O0


def fock_lhs(n, na, nb, Wa, Wb, coef):
    sec = fock.sector(n, na, nb)
    return sec.walker_vectors(Wa, Wb) @ coef


def hs_law_error(H, V, dt):
    """|1/2 sum_x B(x) - exp(-dt V n_a n_b)| on the four occupations of the two spin-orbitals."""
    H = np.asarray(H, dtype=float)
    return max(abs(0.5 * (H[0, 0] + H[1, 0]) - 1.0), abs(0.5 * (H[0, 1] + H[1, 1]) - 1.0),
               abs(0.5 * (H[0, 0] * H[0, 1] + H[1, 0] * H[1, 1]) - np.exp(-dt * V)))


# =============================================================================== one population through the real code
def _finite_max(x):
    x = np.abs(np.asarray(x, dtype=float))
    x = x[np.isfinite(x)]
    return max(float(x.max()) if x.size else 0.0, 1e-30)


def _relmax(a, b, floor):
    a, b = np.asarray(a), np.asarray(b)
    d = np.abs(a - b) / np.maximum(np.abs(b), floor)
    return np.where(np.isfinite(a) & np.isfinite(b), d, np.inf)


@lru_cache(maxsize=None)
def _prop_for(pname, dt, W, bonds):
    _, _, _, propagation, _ = _lib()
    cls = getattr(propagation, pname)
    if "nn" in pname:
        return cls(dt=dt, n_walkers=W, neighbors=tuple(tuple(b) for b in bonds))
    return cls(dt=dt, n_walkers=W)


_JIT_INIT = {}


def _jitted_init(prop, trial):
    """prop.init_prop_data is plain Python around eager scans (0.7 s per call); the same method under jit."""
    jax = _lib()[0]
    key = (type(prop).init_prop_data, prop.dt, prop.n_walkers, trial)
    if key not in _JIT_INIT:
        _JIT_INIT[key] = jax.jit(lambda wd, hd, w: prop.init_prop_data(trial, wd, hd, w))
    return _JIT_INIT[key]


def half_step_origin(prop):
    """Name of the function that builds exp_h1 for this propagator class (the call site of finding F6)."""
    f = type(prop)._build_propagation_intermediates
    f = getattr(f, "__wrapped__", f)
    return getattr(f, "__qualname__", repr(f))


def run_population(case):
    """Execute ONE case = one population (all leaves + probes of one configuration) through the real
    propagator and compare with the reference.  Returns dict(viol=[(signature, detail)], info=...)."""
    jax, jnp, wf, propagation, hamiltonian = _lib()
    n, na, nb = case["n"], case["na"], case["nb"]
    kind, pname, mode = case["trial"], case["prop"], case["mode"]
    U, dt, u1 = float(case["U"]), float(case["dt"]), float(case.get("u1", 0.0))
    seed = case["seed"]
    is_nn = "nn" in pname
    K, bonds = lattice(case["lat"])
    bonds = bonds if is_nn else ()
    ops = ops_nn(n, bonds) if is_nn else ops_onsite(n)
    T = len(ops)
    if case.get("subtree"):
        bits, depth, sign = subtree_spec(T, int(case["subtree"]))
    else:
        bits, depth, sign = tree_spec(T, bool(case.get("probes", True)))
    L = int((depth == -1).sum())         # leaves come first
    pad = int(case.get("pad", 0))
    if pad:  # copies of leaf 0 (depth -2: neither leaf nor probe) that only make n_walkers - a static jit attribute - unique
        bits = np.concatenate([bits, np.repeat(bits[:1], pad, axis=0)])
        depth = np.concatenate([depth, np.full(pad, -2)])
        sign = np.concatenate([sign, np.zeros(pad, dtype=int)])
    W = bits.shape[0]
    complete = L == 2 ** T
    shift = float(case["shift"])
    viol = []

    trial, wd, ref = make_trial(kind, n, na, nb, case["density"], seed)
    phi = make_walker(ref, case["walker"], seed)
    prop = _prop_for(pname, dt, W, bonds)
    ham = hamiltonian.hamiltonian(n)
    field = case.get("field", "none")
    Ks = spin_K(K, field)
    hd = hubbard_ham_data(K, U, u1 if is_nn else 0.0, bonds, field)
    hd = ham.build_measurement_intermediates(hd, trial, wd)
    hd = ham.build_propagation_intermediates(hd, prop, trial, wd)
    hd["u"] = U
    if is_nn:
        hd["u_1"] = u1
    E_lib = np.asarray(hd["exp_h1"], dtype=float)
    E_bare = np.array([_sym_expm(-dt * Ks[0] / 2.0), _sym_expm(-dt * Ks[1] / 2.0)])
    if mode == "bare":
        hd["exp_h1"] = jnp.asarray(E_bare)
    E = E_bare if mode == "bare" else E_lib

    walkers0 = [jnp.asarray(np.broadcast_to(phi[0], (W,) + phi[0].shape).copy()),
                jnp.asarray(np.broadcast_to(phi[1], (W,) + phi[1].shape).copy())]
    pd = _jitted_init(prop, trial)(wd, hd, walkers0)
    w0 = init_weights(W)
    pd["weights"] = jnp.asarray(w0)
    pd["pop_control_ene_shift"] = jnp.asarray(shift)
    # --- state built by init_prop_data: overlaps, Green's functions (calc_full_green), field constants
    O0 = ref.overlap(phi[0][None], phi[1][None])[0]
    e = _relmax(np.asarray(pd["overlaps"]), O0, abs(O0)).max()
    if not e <= TOL:
        viol.append(("%s.init_prop_data:overlaps" % pname, dict(relerr=float(e), trial=kind)))
    if "greens" in pd:
        Gref = ref.green(phi[0][None], phi[1][None])[0]
        e = np.abs(np.asarray(pd["greens"]) - Gref[None]).max() / max(1.0, np.abs(Gref).max())
        if not e <= TOL:
            viol.append(("%s.calc_full_green" % kind, dict(relerr=float(e), via="init_prop_data")))
    hs = {}
    if is_nn:
        hs["on"] = np.asarray(pd["hs_constant_onsite"], dtype=float)
        hs["nn"] = np.asarray(pd["hs_constant_nn"], dtype=float)
        laws = [("hs_constant_onsite", hs["on"], U), ("hs_constant_nn", hs["nn"], u1)]
    else:
        hs["on"] = np.asarray(pd["hs_constant"], dtype=float)
        laws = [("hs_constant", hs["on"], U)]
    for nm, H, V in laws:
        e = hs_law_error(H, V, dt)
        if not e <= 1e-12:
            viol.append(("%s.init_prop_data:%s-not-a-Hubbard-Stratonovich-pair" % (pname, nm),
                         dict(err=float(e), table=H, strength=V, dt=dt)))

    # --- reference replay, which also fixes the uniforms of the probes
    R = ref_tree(ref, phi, E, hs, ops, w0, shift, dt, bits, depth, sign)

    # --- the real propagator
    if is_nn:
        fake = _install_fake_random()
        fake.layout = (n, len(bonds))
        fake.draw = 0
        before = fake.n_uniform
        pd["key"] = jnp.asarray(nn_table(R["u"], n, len(bonds)))
        rns = jnp.zeros((W, n))
    else:
        rns = jnp.asarray(uniforms_to_gaussians(R["u"]))
    out = prop.propagate(trial, hd, pd, rns, wd)
    if is_nn:
        key = (pname, kind, n, na, nb, dt, W)
        if key not in _TRACED:
            if fake.n_uniform < before + 2:
                raise RuntimeError("virtual RNG was not consulted while tracing %r (stale jit cache?)" % (key,))
            _TRACED.add(key)
    Ia, Ib = np.asarray(out["walkers"][0]), np.asarray(out["walkers"][1])
    IO, Iw = np.asarray(out["overlaps"]), np.asarray(out["weights"])

    # --- per walker bookkeeping (independent of how exp_h1 was built: the reference used the same matrix)
    cmp_ok = ~R["dead"] & ~R["ambiguous"] & R["probe_ok"]
    wscale = np.maximum(np.abs(R["Wa"]).max(axis=(1, 2)), np.abs(R["Wb"]).max(axis=(1, 2)))
    e_walk = np.maximum(np.abs(Ia - R["Wa"]).max(axis=(1, 2)), np.abs(Ib - R["Wb"]).max(axis=(1, 2))) / wscale
    e_walk = np.where(np.isfinite(e_walk), e_walk, np.inf)
    e_ovlp = _relmax(IO, R["O"], 1e-6 * _finite_max(R["O"][cmp_ok]))
    e_wt = _relmax(Iw, R["w"], 1e-3 * _finite_max(R["w"][cmp_ok]))
    base = "%s.propagate" % pname
    ref_mismatch = False
    for nm, err in (("walkers", e_walk), ("overlaps", e_ovlp), ("weights", e_wt)):
        bad = np.nonzero(cmp_ok & ~(err <= TOL))[0]
        if bad.size and not ref_mismatch:   # later classes follow from the first one; report the first only
            ref_mismatch = True
            k = int(bad[0])
            is_probe = depth[k] >= 0
            only_probes = not (cmp_ok[:L] & ~(err[:L] <= TOL)).any()
            viol.append(("%s:%s-differ-from-reference" % (base, nm),
                         dict(only_probes_fail__selection_probability_off=bool(only_probes and nm == "walkers"), walker=k,
                              kind_of_walker="probe" if is_probe else "leaf", probe_depth=int(depth[k]), probe_side=int(sign[k]), forced_bits=bits[k].tolist(), chosen_ref=R["chosen"][k].tolist(),
                              uniforms=R["u"][k].tolist(), relerr=float(err[k]), n_bad=int(bad.size), n_compared=int(cmp_ok.sum()),
                              trial=kind, impl=dict(weight=float(Iw[k]), overlap=float(IO[k])),
                              ref=dict(weight=float(R["w"][k]), overlap=float(R["O"][k])))))
    # stored overlap = overlap recomputed from the returned walkers
    Orec = ref.overlap(Ia, Ib)
    e_coh = _relmax(IO, Orec, 1e-6 * _finite_max(Orec[cmp_ok]))
    bad = np.nonzero(cmp_ok & np.isfinite(Orec) & ~(e_coh <= TOL))[0]
    if bad.size and not ref_mismatch:
        viol.append(("%s:stored-overlap-not-overlap-of-returned-walker" % base, dict(walker=int(bad[0]), relerr=float(e_coh[bad[0]]))))

    # --- the exact expectation over all field configurations
    free = complete and not (R["active"][:L].any() or R["dead"][:L].any() or R["ambiguous"][:L].any() or R["clipped"][:L].any())
    info = dict(W=W, L=L, n_probe=int(W - L), n_probe_ok=int((R["probe_ok"] & (depth >= 0)).sum()),
                n_dead=int(R["dead"].sum()), n_active=int(R["active"].sum()), n_ambiguous=int(R["ambiguous"].sum()),
                identity_evaluated=bool(free), ref_mismatch=False, E_minus_bare=float(np.abs(E_lib - E_bare).max()),
                density_spread=float(ref.density.max() - ref.density.min()),
                leaf_p=R["p"][:L], leaf_chosen_is_forced=bool((R["chosen"][:L] == bits[:L]).all()),
                cmp=dict(ok=cmp_ok, walkers=np.concatenate([Ia.reshape(W, -1), Ib.reshape(W, -1)], axis=1), overlaps=IO, weights=Iw))
    if free:
        if not (abs(R["p"][:L].sum() - 1.0) <= 1e-12 and info["leaf_chosen_is_forced"]):
            raise RuntimeError("reference self-test failed: leaf probabilities do not sum to one")
        with np.errstate(invalid="ignore", divide="ignore"):
            coef = R["p"][:L] * (Iw[:L] / w0[:L]) / IO[:L]
        lhs = fock_lhs(n, na, nb, Ia[:L], Ib[:L], coef)
        rhs_E = fock_rhs(n, na, nb, E, U, dt, shift, phi, O0, u1, bonds)
        rhs_K = fock_rhs(n, na, nb, E_bare, U, dt, shift, phi, O0, u1, bonds)
        sc = np.abs(rhs_K).max()
        res_E = float(np.abs(lhs - rhs_E).max() / np.abs(rhs_E).max()) if np.all(np.isfinite(lhs)) else float("inf")
        res_K = float(np.abs(lhs - rhs_K).max() / sc) if np.all(np.isfinite(lhs)) else float("inf")
        info.update(res_E=res_E, res_K=res_K)
        if not res_E <= TOL:
            if not ref_mismatch:   # otherwise it follows from the per-walker mismatch already reported
                viol.append(("%s:sum-over-field-configurations-is-not-the-Hubbard-Stratonovich-step" % base,
                             dict(residual=res_E, mode=mode, trial=kind,
                                  note="right-hand side built with the very half step the propagator used")))
        elif not res_K <= TOL:
            # sampling is exact given the half step, so the half step itself is what differs from exp(-dt K/2)
            c = float(np.vdot(rhs_K, lhs) / np.vdot(rhs_K, rhs_K))
            res_scaled = float(np.abs(lhs - c * rhs_K).max() / sc)
            hmod = np.array([-2.0 / dt * _sym_log(E[0]), -2.0 / dt * _sym_log(E[1])])
            viol.append(("%s->cpmc exp_h1:half-step-is-not-exp(-dt*K/2)" % half_step_origin(prop),
                         dict(residual_with_bare_K=res_K, residual_with_used_half_step=res_E,
                              max_abs_exp_h1_minus_exp_mdtK2=info["E_minus_bare"],
                              effective_h1_minus_K=hmod - Ks, one_body_field=field, pure_weight_factor=bool(res_scaled <= 1e-9),
                              weight_factor=c, trial_density=ref.density, prop=pname)))
    info["ref_mismatch"] = ref_mismatch
    return dict(viol=viol, info=info)


_TRACED = set()


# =============================================================================== jobs
def _shift_letter(*idx):
    return (0.37, -2.1)[sum(int(i) for i in idx) % 2]


def tree_cases(cfg):
    n, na, nb = cfg["n"], cfg["na"], cfg["nb"]
    full = (na == n and nb == n)
    uni = has_uniform(n, na, nb)
    out = []
    for il, lat in enumerate(LATS[n]):
        for iu, U in enumerate(cfg["Us"]):
            for idt, dt in enumerate(cfg["dts"]):
                for idn, density in enumerate(["nonuniform", "uniform"]):
                    if full and density == "nonuniform":
                        continue  # a full band has density 2 on every site whatever the orbitals
                    if density == "uniform" and not uni:
                        continue  # no uniform-density determinant in the orbital alphabet for this filling
                    for iw, walker in enumerate(["near", "far"]):
                        for pname in ("propagator_cpmc", "propagator_cpmc_slow"):
                            for mode in ("library", "bare"):
                                out.append(dict(cfg, fam="tree", lat=lat, U=U, dt=dt, density=density, walker=walker,
                                                prop=pname, mode=mode, field="none", shift=_shift_letter(il, iu, idt, idn, iw)))
    # spin-dependent one-body letter h1[0] != h1[1] (staggered Zeeman field, edge pinning field): same compiled programs
    deep = cfg.get("thorough", False)
    for il, lat in enumerate(LATS[n]):
        for ifd, field in enumerate(FIELDS[1:]):
            for iu, U in enumerate(cfg["Us"] if deep else cfg["Us"][:1]):
                for idt, dt in enumerate(cfg["dts"] if deep else cfg["dts"][:1]):
                    for idn, density in enumerate(["nonuniform", "uniform"]):
                        if (full and density == "nonuniform") or (density == "uniform" and not uni):
                            continue
                        for pname in ("propagator_cpmc", "propagator_cpmc_slow"):
                            for mode in ("library", "bare"):
                                out.append(dict(cfg, fam="tree", lat=lat, U=U, dt=dt, density=density, walker="near",
                                                prop=pname, mode=mode, field=field, shift=_shift_letter(il, iu, idt, idn, ifd)))
    return out


def nn_cases(cfg):
    n = cfg["n"]
    out = []
    if cfg.get("subtree"):
        # lattice with more bonds than sites: bounded sub-tree (see subtree_spec), per-walker oracles and fast vs slow only
        for lat in cfg["lats"]:
            for i1, u1 in enumerate(cfg.get("u1s", (1.0,))):
                for pname in ("propagator_cpmc_nn", "propagator_cpmc_nn_slow"):
                    out.append(dict(cfg, fam="nn", lat=lat, U=cfg["Us"][0], u1=u1, dt=cfg["dts"][0], density="nonuniform",
                                    walker="near", prop=pname, mode="library", field="none", shift=_shift_letter(i1)))
        return out
    for lat in LATS[n]:
        for iu, U in enumerate(cfg["Us"]):
            for i1, u1 in enumerate((0.0, 1.0)):
                for idt, dt in enumerate(cfg["dts"]):
                    for idn, density in enumerate(["nonuniform", "uniform"]):
                        if cfg["na"] == n and cfg["nb"] == n and density == "nonuniform":
                            continue
                        if density == "uniform" and not has_uniform(n, cfg["na"], cfg["nb"]):
                            continue
                        for iw, walker in enumerate(cfg["walkers"]):
                            for pname in ("propagator_cpmc_nn", "propagator_cpmc_nn_slow"):
                                out.append(dict(cfg, fam="nn", lat=lat, U=U, u1=u1, dt=dt, density=density, walker=walker,
                                                prop=pname, mode="library", field="none", shift=_shift_letter(iu, i1, idt, idn, iw)))
    # spin-dependent one-body letter (propagator_cpmc_nn_slow builds its half step on its own inheritance path)
    deep = cfg.get("thorough", False)
    full = cfg["na"] == n and cfg["nb"] == n
    for lat in LATS[n]:
        for ifd, field in enumerate(FIELDS[1:] if (deep or n == 2) else FIELDS[1:2]):
            density = "uniform" if full else "nonuniform"
            for pname in ("propagator_cpmc_nn", "propagator_cpmc_nn_slow"):
                out.append(dict(cfg, fam="nn", lat=lat, U=cfg["Us"][0], u1=1.0, dt=cfg["dts"][0], density=density, walker="near",
                                prop=pname, mode="library", field=field, shift=_shift_letter(ifd)))
    return out


def _case_key(c):
    return tuple(c.get(k) for k in ("fam", "lat", "n", "na", "nb", "trial", "U", "u1", "dt", "density", "walker", "prop", "mode", "field"))


def job_paths(cfg):
    """Worker for the 'tree' and 'nn' families: all cases of one static configuration."""
    try:
        return _job_paths(cfg)
    finally:
        _restore_random()


def _job_paths(cfg):
    res = Result()
    cases = tree_cases(cfg) if cfg["fam"] == "tree" else nn_cases(cfg)
    if cfg.get("subtree"):
        res.note("neighbour family on the 5-bond/4-site lattice (ring + diagonal): the full tree has 2^24 leaves; enumerated is the "
                 "bounded sub-tree {3 forced prefixes} x all 2^%d patterns of the last %d decisions (the last two bonds, the ones an "
                 "out-of-range bond index would be clamped onto), leaves only" % (cfg["subtree"], cfg["subtree"]))
    if not cfg.get("probes", True):
        res.note("quick tier, 3-site neighbour-interaction family: all 2^(n+4*bonds) forced paths but no probability probes "
                 "(probes for this family run on 2 sites, and on 3 sites in the thorough tier)")
    root_cache = {}
    store = {}
    for case in cases:
        out = run_population(case)
        info = out["info"]
        W, L = info["W"], info["L"]
        res.add(states=W, transitions=W, evaluations=3 * W + (2 if info["identity_evaluated"] else 0), traces=W)
        res.guard("leaves", L)
        res.guard("probes_with_interior_probability", info["n_probe_ok"])
        res.guard("walkers_on_zero_probability_histories(skipped)", info["n_dead"])
        res.guard("walkers_with_constraint_active", info["n_active"])
        res.guard("walkers_at_a_threshold(skipped)", info["n_ambiguous"])
        res.guard("populations", 1)
        if info["identity_evaluated"]:
            res.guard("identity_evaluated[%s]" % case["mode"], 1)
            res.guard("identity_evaluated[%s,%s density]" % (case["mode"], case["density"]), 1)
            if case.get("field", "none") != "none":
                res.guard("identity_evaluated[%s,spin-dependent one-body %s]" % (case["mode"], case["field"]), 1)
            res.nontrivial_values(("p",) + _case_key(case), info["leaf_p"], 10)
        elif case.get("subtree"):
            res.guard("bounded_subtree_populations(bonds > sites; no summed identity)", 1)
            res.guard("bounded_subtree_leaves", L)
        else:
            res.guard("identity_not_evaluated(constraint active or weight clipped on some path)", 1)
        for sig, det in out["viol"]:
            if case["prop"] in FAST_PROPS and sig.startswith("%s.propagate:" % case["prop"]):
                # the fast propagators are the only callers of the incremental updates; when the update used by this
                # propagator is itself wrong on this very configuration (checked from scratch on the spin-orbital
                # pairs the propagator touches), the mismatch is its echo and carries the root cause's signature
                root = _root_cause(case, root_cache)
                if root is not None:
                    det = dict(det, observed_through=sig)
                    sig = root
            res.violation(sig, case, det)
        store[_case_key(case)] = out
        if len(res.samples) < 2 and info["identity_evaluated"]:
            res.sample(dict(case={k: case[k] for k in ("lat", "n", "na", "nb", "trial", "U", "dt", "density", "walker", "prop", "mode")},
                            leaves=L, probes=W - L, residual_vs_used_half_step=info["res_E"], residual_vs_bare_K=info["res_K"],
                            leaf_probabilities=np.round(info["leaf_p"][:8], 6).tolist()))
    # fast vs slow, walker by walker, on every forced path (identical uniforms by construction)
    for case in cases:
        if case["prop"] not in ("propagator_cpmc", "propagator_cpmc_nn"):
            continue
        slow = dict(case, prop=case["prop"] + "_slow")
        a, b = store[_case_key(case)], store.get(_case_key(slow))
        if b is None:
            continue
        res.add(transitions=a["info"]["W"], evaluations=3 * a["info"]["W"])
        errs, ok = fast_slow_errors(a["info"]["cmp"], b["info"]["cmp"])
        res.guard("fast_vs_slow_walkers_compared", int(ok.sum()))
        echo = a["info"]["ref_mismatch"] or b["info"]["ref_mismatch"]   # already reported against the reference
        for nm, err in errs.items():
            bad = np.nonzero(ok & ~(err <= TOL))[0]
            if bad.size and echo:
                res.guard("fast_vs_slow_differences_already_reported_against_reference", 1)
                break
            if bad.size:
                sig = "%s-vs-%s:%s-differ" % (case["prop"], slow["prop"], nm)
                det = dict(walker=int(bad[0]), relerr=float(err[bad[0]]), n_bad=int(bad.size))
                root = _root_cause(case, root_cache)
                if root is not None:
                    det = dict(det, observed_through=sig)
                    sig = root
                res.violation(sig, dict(case, compare="fast-vs-slow"), det)
    return res


def fast_slow_errors(fa, fb):
    """walker-by-walker relative differences between two runs fed identical uniforms"""
    ok = fa["ok"] & fb["ok"]
    errs = {}
    for nm in ("walkers", "overlaps", "weights"):
        x, y = fa[nm], fb[nm]
        if nm == "walkers":
            err = np.abs(x - y).max(axis=1) / np.maximum(np.abs(y).max(axis=1), 1e-300)
        else:
            err = _relmax(x, y, (1e-3 if nm == "weights" else 1e-6) * _finite_max(y[ok]))
        errs[nm] = np.where(np.isfinite(err), err, np.inf)
    return errs, ok


FAST_PROPS = ("propagator_cpmc", "propagator_cpmc_nn")


def _root_cause(case, cache):
    """Signature of the first from-scratch failure of calc_overlap_ratio / update_greens_function / calc_full_green on
    the spin-orbital pairs that this case's fast propagator updates (same trial, same walkers' trial), or None."""
    key = (case["trial"], case["density"], case["prop"], case["lat"])
    if key not in cache:
        n = case["n"]
        pairs = {((0, i), (1, i)) for i in range(n)}
        if "nn" in case["prop"]:
            for (i, j) in lattice(case["lat"])[1]:
                pairs |= {((0, i), (0, j)), ((0, i), (1, j)), ((1, i), (0, j)), ((1, i), (1, j))}
        r = Result()
        _fast_checks(dict(kind=case["trial"], n=n, na=case["na"], nb=case["nb"], seed=case["seed"], density=case["density"],
                          nonorth=False), r, pair_filter=pairs)
        cache[key] = r.violations[0]["signature"] if r.violations else None
    return cache[key]


# ------------------------------------------------------------------------------- history family
# The propagators (and trials) are *static* jit arguments: the compiled program is looked up by their __hash__/__eq__ and
# everything read from `self` while tracing (bond list, dt) is baked into it.  "The result of a call does not depend on
# which objects were used before" is checked by running words over a menu of objects that agree in every scalar attribute
# and array shape and differ in ONE structural attribute, all in one process with no cache clearing in between; every
# word gets its own n_walkers (padding) so that it starts from a cache that has never seen its static key.
MENUS = {
    # neighbour lists on 3 sites / 2 bonds: different graph, same graph in another bond order, another orientation
    "nn3": ["b3:01,12", "b3:12,01", "b3:02,12", "b3:10,21", "b3:01,02"],
    # 4 sites / 4 bonds: ring, open chain + diagonal, open 2x2 grid
    "nn4": ["b4:01,03,12,23", "b4:01,12,23,02", "b4:01,02,13,23"],
    # time step of the on-site classes
    "dt": [0.1, 0.03, 0.01],
}
HIST_SIG = "%s.propagate:result-depends-on-propagator-objects-used-before"


def hist_words(menu, tier):
    """quick: the two words (a,b,c), (c,b,a) over the first three letters - every ordered pair of them occurs as an
    earlier/later pair; thorough: every ordered pair of distinct letters of the whole menu and every ordered triple of
    the first three."""
    import itertools as it

    m = len(MENUS[menu])
    if tier != "thorough":
        k = min(m, 3)
        return [tuple(range(k)), tuple(reversed(range(k)))]
    return list(it.permutations(range(m), 2)) + list(it.permutations(range(min(m, 3)), 3))


def _hist_case(cfg, letter, pad):
    menu = cfg["menu"]
    base = dict(fam="hist", menu=menu, n=cfg["n"], na=cfg["na"], nb=cfg["nb"], trial=cfg["trial"], seed=cfg["seed"],
                prop=cfg["prop"], U=4.0, u1=1.0, density="nonuniform", walker="near", mode="library", field="none",
                shift=0.37, pad=pad, probes=False)
    if cfg.get("subtree"):
        base["subtree"] = cfg["subtree"]
    if menu == "dt":
        return dict(base, lat="chain%d" % cfg["n"], dt=MENUS[menu][letter])
    return dict(base, lat=MENUS[menu][letter], dt=0.1)


def run_word(cfg, word, pad):
    """The calls of one word, in order, in this process.  Returns [(position, case, out)]."""
    outs = []
    for k, letter in enumerate(word):
        case = dict(_hist_case(cfg, letter, pad), word=[int(x) for x in word], pos=k)
        outs.append((k, case, run_population(case)))
    return outs


def job_hist(cfg):
    try:
        return _job_hist(cfg)
    finally:
        _restore_random()


def _job_hist(cfg):
    res = Result()
    for word, pad in cfg["words"]:
        if relieve_maps():      # between words only: a word always runs against one uninterrupted cache history
            res.guard("jit_caches_dropped_between_words(map limit)", 1)
        for k, case, out in run_word(cfg, word, pad):
            info = out["info"]
            res.add(states=info["L"], transitions=info["L"], evaluations=3 * info["L"], traces=info["L"])
            res.guard("history_calls[%s]" % cfg["menu"], 1)
            res.guard("history_calls_after_another_object[%s]" % cfg["menu"], int(k > 0))
            if info["identity_evaluated"]:
                res.guard("history_identity_evaluated", 1)
            for sig, det in out["viol"]:
                if k > 0:
                    # same object, same inputs, but under a static key (n_walkers) this process has never compiled
                    alone = run_population(dict(case, pad=100000 + 10 * case["pad"] + k))
                    if not alone["viol"]:
                        det = dict(det, observed_as=sig, word=case["word"], position=k,
                                   objects=[MENUS[cfg["menu"]][x] for x in word],
                                   note="the same call is correct under a fresh static key in the same process")
                        sig = HIST_SIG % cfg["prop"]
                res.violation(sig, case, det)
        res.nontrivial((cfg["menu"], cfg["prop"], cfg["trial"], tuple(word)))
    res.sample(dict(family="hist", menu=cfg["menu"], letters=MENUS[cfg["menu"]], prop=cfg["prop"], trial=cfg["trial"],
                    words=[list(w) for w, _ in cfg["words"]]))
    return res


def hist_jobs(tier, seed):
    thorough = tier == "thorough"
    jobs = []
    pad = 1000
    plan = [("nn3", "propagator_cpmc_nn", 3, (2, 1), None), ("nn3", "propagator_cpmc_nn_slow", 3, (2, 1), None),
            ("dt", "propagator_cpmc", 3, (2, 1), None), ("dt", "propagator_cpmc_slow", 3, (2, 1), None)]
    if thorough:
        plan += [("nn4", "propagator_cpmc_nn", 4, (2, 1), 8), ("nn4", "propagator_cpmc_nn_slow", 4, (2, 1), 8)]
    for menu, pname, n, (na, nb), subtree in plan:
        for kind in (("uhf_cpmc", "ghf_cpmc") if thorough else ("uhf_cpmc",)):
            words = []
            for w in hist_words(menu, tier):
                pad += 1      # unique over the whole family: jobs may share a worker process
                words.append((w, pad))
            chunk = 4 if thorough else 1
            for a in range(0, len(words), chunk):
                jobs.append(("hist", dict(fam="hist", menu=menu, prop=pname, n=n, na=na, nb=nb, trial=kind, seed=seed,
                                          subtree=subtree, words=words[a:a + chunk])))
    return jobs


# ------------------------------------------------------------------------------- fast update family
_CONST = [-0.55, -0.2, 0.35, 1.2]


def const_alphabet(seed):
    s = 1.0 + 0.02 * (seed % 5)
    r = seed % 4
    return [_CONST[(i + r) % 4] * s for i in range(4)]


def _fast_checks(cfg, res, pair_filter=None, only_case=None):
    jax, jnp, wf, _, _ = _lib()
    kind, n, na, nb, seed = cfg["kind"], cfg["n"], cfg["na"], cfg["nb"], cfg["seed"]
    trial, wd, ref = make_trial(kind, n, na, nb, cfg["density"], seed, nonorth=cfg.get("nonorth", False))
    walkers = [make_walker(ref, w, seed) for w in ("near", "far")]
    Wa = np.array([w[0] for w in walkers])
    Wb = np.array([w[1] for w in walkers])
    nW = Wa.shape[0]
    O = ref.overlap(Wa, Wb)
    Gref = ref.green(Wa, Wb)
    G = np.asarray(trial.calc_full_green_vmap([jnp.asarray(Wa), jnp.asarray(Wb)], wd))
    res.add(states=nW, transitions=nW, evaluations=nW, traces=nW)
    e = np.abs(G - Gref).max() / max(1.0, np.abs(Gref).max())
    if not e <= TOL:
        res.violation("%s.calc_full_green" % kind, dict(cfg, fam="fast", what="full_green"), dict(relerr=float(e)))
    sos = [(s, i) for s in (0, 1) for i in range(n)]
    pairs = [(a, b) for a in sos for b in sos if not (a[0] == b[0] and a[1] == b[1])]
    if pair_filter is not None:
        pairs = [p for p in pairs if p in pair_filter]
    cs = const_alphabet(seed)
    consts = [(c0, c1) for c0 in cs for c1 in cs]
    ratio_1 = jax.jit(jax.vmap(trial.calc_overlap_ratio, in_axes=(None, None, 0)))          # over constants
    upd_1 = jax.jit(jax.vmap(trial.update_greens_function, in_axes=(None, 0, None, 0)))     # over (ratio, constants)
    C = np.array(consts)
    for (a, b) in pairs:
        cls = "same-spin" if a[0] == b[0] else "opposite-spin"
        idx = jnp.asarray(np.array([list(a), list(b)]))
        # reference: scale the two rows, recompute determinant and Green's function from scratch
        for w in range(nW):
            if only_case is not None and (only_case["pair"] != [list(a), list(b)] or only_case["walker"] != w):
                continue
            Xa = np.repeat(Wa[w][None], len(consts), axis=0)
            Xb = np.repeat(Wb[w][None], len(consts), axis=0)
            Xa, Xb = _scale_rows(Xa, Xb, a, 1.0 + C[:, 0])
            Xa, Xb = _scale_rows(Xa, Xb, b, 1.0 + C[:, 1])
            r_ref = ref.overlap(Xa, Xb) / O[w]
            conditioned = np.abs(r_ref) > 1e-2           # the update divides by the ratio: pre-check on the input
            G_new_ref = ref.green(Xa, Xb)
            Gw = jnp.asarray(G[w])
            r_impl = np.asarray(ratio_1(Gw, idx, jnp.asarray(C)))
            # the batched entry point the propagators call (greens mapped, constants shared)
            r_vm = np.array([np.asarray(trial.calc_overlap_ratio_vmap(jnp.asarray(G), idx, jnp.asarray(C[k])))[w]
                             for k in range(len(consts))])
            g_impl = np.asarray(upd_1(Gw, jnp.asarray(np.where(conditioned, r_ref, 1.0)), idx, jnp.asarray(C)))
            nc = len(consts)
            res.add(states=nc, transitions=2 * nc, evaluations=2 * nc, traces=2 * nc)
            res.guard("pair_constant_cases[%s]" % cls, nc)
            res.guard("cases_excluded_small_ratio(pre-check)", int((~conditioned).sum()))
            res.nontrivial_values((kind, n, na, nb, a, b, w), r_ref[conditioned], 10)
            er = np.abs(r_impl - r_ref) / np.maximum(np.abs(r_ref), 1e-2)
            bad = np.nonzero(~(er <= TOL))[0]
            if bad.size:
                k = int(bad[0])
                res.violation("%s.calc_overlap_ratio:%s" % (kind, cls),
                              dict(cfg, fam="fast", what="ratio", pair=[list(a), list(b)], walker=w, const=list(consts[k])),
                              dict(impl=float(r_impl[k]), ref=float(r_ref[k]), relerr=float(er[k]), n_bad=int(bad.size)))
            if r_vm.size:
                ev = np.abs(r_vm - r_ref) / np.maximum(np.abs(r_ref), 1e-2)
                res.add(transitions=nc, traces=nc)
                bad = np.nonzero(~(ev <= TOL))[0]
                if bad.size:
                    k = int(bad[0])
                    res.violation("%s.calc_overlap_ratio:%s" % (kind, cls),
                                  dict(cfg, fam="fast", what="ratio", pair=[list(a), list(b)], walker=w, const=list(consts[k])),
                                  dict(impl=float(r_vm[k]), ref=float(r_ref[k]), relerr=float(ev[k]), via="calc_overlap_ratio_vmap"))
            eg = np.abs(g_impl - G_new_ref).reshape(nc, -1).max(axis=1) / np.maximum(1.0, np.abs(G_new_ref).reshape(nc, -1).max(axis=1))
            eg = np.where(conditioned, eg, 0.0)
            bad = np.nonzero(~(eg <= TOL))[0]
            if bad.size:
                k = int(bad[0])
                res.violation("%s.update_greens_function:%s" % (kind, cls),
                              dict(cfg, fam="fast", what="green", pair=[list(a), list(b)], walker=w, const=list(consts[k])),
                              dict(max_abs_err=float(np.abs(g_impl[k] - G_new_ref[k]).max()), relerr=float(eg[k]), ratio=float(r_ref[k]),
                                   n_bad=int(bad.size), n_cases=int(conditioned.sum())))
        # the batched entry point for the update (greens, ratios and constants mapped per walker)
        if only_case is None:
            k = (sos.index(a) * 7 + sos.index(b) * 3) % len(consts)
            Xa, Xb = _scale_rows(Wa, Wb, a, 1.0 + C[k, 0])
            Xa, Xb = _scale_rows(Xa, Xb, b, 1.0 + C[k, 1])
            r_ref = ref.overlap(Xa, Xb) / O
            if np.all(np.abs(r_ref) > 1e-2):
                gv = np.asarray(trial.update_greens_function_vmap(jnp.asarray(G), jnp.asarray(r_ref), idx,
                                                                  jnp.asarray(np.repeat(C[k][None], nW, axis=0))))
                gr = ref.green(Xa, Xb)
                ev = np.abs(gv - gr).max() / max(1.0, np.abs(gr).max())
                res.add(transitions=nW, traces=nW, evaluations=nW)
                if not ev <= TOL:
                    res.violation("%s.update_greens_function:%s" % (kind, cls),
                                  dict(cfg, fam="fast", what="green", pair=[list(a), list(b)], walker=0, const=list(consts[k])),
                                  dict(relerr=float(ev), via="update_greens_function_vmap"))
    return res


def job_fast(cfg):
    res = Result()
    _fast_checks(cfg, res)
    res.sample(dict(family="fast", kind=cfg["kind"], n=cfg["n"], nelec=[cfg["na"], cfg["nb"]], density=cfg["density"],
                    nonorth=cfg.get("nonorth", False), constants=const_alphabet(cfg["seed"])))
    return res


# ------------------------------------------------------------------------------- the example's route, once
def job_example_route(cfg):
    """ham_data made by pyscf_interface.prep_afqmc + mpi_jax._prep_afqmc exactly as in examples/hubbard.ipynb
    (files in a scratch directory, removed afterwards) is the ham_data the other jobs assemble directly."""
    import contextlib
    import io
    import os
    import tempfile

    jax, jnp, wf, propagation, hamiltonian = _lib()
    res = Result()
    from pyscf import ao2mo, gto, scf

    with contextlib.redirect_stdout(io.StringIO()):
        from ad_afqmc import mpi_jax, pyscf_interface

    for lat, nelec, U in cfg["cells"]:
        K, _ = lattice(lat)
        n = K.shape[0]
        h2 = np.zeros((n, n, n, n))
        for i in range(n):
            h2[i, i, i, i] = U
        integrals = {"h0": 0.0, "h1": K, "h2": ao2mo.restore(8, h2, n)}
        mol = gto.Mole()
        mol.nelectron = sum(nelec)
        mol.incore_anyway = True
        mol.spin = abs(nelec[0] - nelec[1])
        mol.verbose = 0
        mol.build()
        umf = scf.UHF(mol)
        umf.get_hcore = lambda *a: integrals["h1"]
        umf.get_ovlp = lambda *a: np.eye(n)
        umf._eri = ao2mo.restore(8, integrals["h2"], n)
        umf.verbose = 0
        cwd = os.getcwd()
        with tempfile.TemporaryDirectory() as tmp:
            os.chdir(tmp)
            try:
                with contextlib.redirect_stdout(io.StringIO()):
                    umf.kernel()
                    pyscf_interface.prep_afqmc(umf, basis_coeff=np.eye(n), integrals=integrals)
                    ham_data, ham, prop, trial, wave_data, sampler, observable, options, MPI = mpi_jax._prep_afqmc(
                        {"dt": 0.1, "n_walkers": 4, "walker_type": "uhf", "trial": "uhf"})
            finally:
                os.chdir(cwd)
        mine = hubbard_ham_data(K, U)
        L1 = np.asarray(ham_data["chol"]).reshape(-1, n, n)
        L2 = np.asarray(mine["chol"]).reshape(-1, n, n)
        e = max(np.abs(np.asarray(ham_data["h1"]) - np.asarray(mine["h1"])).max(),
                np.abs(np.einsum("gij,gkl->ijkl", L1, L1) - np.einsum("gij,gkl->ijkl", L2, L2)).max(),
                abs(float(ham_data["h0"]) - float(mine["h0"])),
                np.abs(np.einsum("gij,gkl->ijkl", L1, L1) - h2).max())
        res.add(states=1, transitions=1, evaluations=1, traces=1)
        res.guard("example_route_cells", 1)
        if not e <= 1e-9:
            raise RuntimeError("harness: ham_data assembled directly differs from the prep_afqmc/_prep_afqmc route by %g for %r" % (e, (lat, nelec, U)))
        # and the half step the CPMC propagator gets from it through the public builder
        propc = propagation.propagator_cpmc(dt=0.1, n_walkers=4)
        trialc = wf.uhf_cpmc(n, tuple(nelec))
        hd = ham.build_propagation_intermediates(dict(ham_data), propc, trialc, wave_data)
        hd2 = ham.build_propagation_intermediates(dict(mine), propc, trialc, wave_data)
        if not np.abs(np.asarray(hd["exp_h1"]) - np.asarray(hd2["exp_h1"])).max() <= 1e-12:
            raise RuntimeError("harness: exp_h1 differs between the two routes")
        res.sample(dict(family="example-route", lat=lat, nelec=list(nelec), U=U, n_chol=int(L1.shape[0]),
                        chol_carries_U=bool(np.abs(np.einsum("gij,gkl->ijkl", L1, L1) - h2).max() < 1e-9)))
    return res


# =============================================================================== run / replay
def fillings(n, tier):
    allf = [(na, nb) for na in range(1, n + 1) for nb in range(1, na + 1)]
    if tier == "thorough":
        if n == 5:
            return [(1, 1), (2, 1), (2, 2), (3, 2), (4, 1), (4, 4)]
        return allf + ([(1, 2)] if n == 3 else [])
    return {2: [(1, 1), (2, 1), (2, 2)], 3: [(1, 1), (2, 1), (2, 2)], 4: [(1, 1), (2, 1), (2, 2)]}[n]


def make_jobs(tier, seed):
    thorough = tier == "thorough"
    jobs = []
    # fast update
    for kind in ("uhf_cpmc", "ghf_cpmc"):
        for n in ((2, 3, 4, 5) if thorough else (2, 3, 4)):
            for (na, nb) in fillings(n, tier):
                vs = [("nonuniform", False), ("uniform", False), ("nonuniform", True)] if thorough else \
                    ([("nonuniform", False), ("nonuniform", True)] if n < 4 else [("nonuniform", False)])
                for density, nonorth in vs:
                    if na == n and nb == n and density == "nonuniform" and not nonorth:
                        density = "uniform"
                    if density == "uniform" and not has_uniform(n, na, nb):
                        continue
                    j = ("fast", dict(fam="fast", kind=kind, n=n, na=na, nb=nb, seed=seed, density=density, nonorth=nonorth))
                    if j not in jobs:
                        jobs.append(j)
    # on-site propagators: all 2^n paths + probes
    for n in ((2, 3, 4, 5) if thorough else (2, 3, 4)):
        for (na, nb) in fillings(n, tier):
            for kind in ("uhf_cpmc", "ghf_cpmc"):
                jobs.append(("paths", dict(fam="tree", n=n, na=na, nb=nb, trial=kind, seed=seed, Us=[4.0, 1.0, 8.0], dts=[0.1, 0.01],
                                           thorough=thorough)))
    # neighbour-interaction propagators with the virtual RNG
    for n in (2, 3):
        if n == 2:
            fl = fillings(n, tier)
        else:
            fl = [(1, 1), (2, 1), (2, 2), (3, 2), (1, 2)] if thorough else [(2, 1)]
        for (na, nb) in fl:
            for kind in ("uhf_cpmc", "ghf_cpmc"):
                jobs.append(("paths", dict(fam="nn", n=n, na=na, nb=nb, trial=kind, seed=seed, thorough=thorough,
                                           Us=[4.0, 1.0] if (thorough and n == 2) else [4.0],
                                           dts=[0.1, 0.01] if thorough else [0.1],
                                           walkers=["near"] if (n == 3 and not thorough) else ["near", "far"],
                                           probes=(thorough or n == 2))))
    # more bonds than sites (neighbour list longer than the site count): bounded sub-tree on ring + diagonal
    for kind in ("uhf_cpmc", "ghf_cpmc"):
        for (na, nb) in ([(2, 1), (2, 2)] if thorough else [(2, 1)]):
            jobs.append(("paths", dict(fam="nn", n=4, na=na, nb=nb, trial=kind, seed=seed, thorough=thorough, lats=["ring4diag"],
                                       subtree=(10 if thorough else 8), Us=[4.0], dts=[0.1], u1s=((1.0, 0.0) if thorough else (1.0,)),
                                       walkers=["near"], probes=True)))
    return jobs


def relieve_maps(limit=20000):
    """Every XLA compilation maps executable memory; a long-lived worker that compiles a fresh program per call (the
    history words do, on purpose) runs into vm.max_map_count and segfaults.  Between jobs / between words - never inside
    a word - drop all compiled programs once the process holds too many mappings."""
    try:
        with open("/proc/self/maps") as f:
            nmaps = sum(1 for _ in f)
    except OSError:
        return False
    if nmaps <= limit:
        return False
    import gc

    jax = _lib()[0]
    _JIT_INIT.clear()
    _TRACED.clear()
    jax.clear_caches()
    gc.collect()
    return True


def job(j):
    relieve_maps()
    fam, cfg = j
    if fam == "fast":
        return job_fast(cfg)
    if fam == "paths":
        return job_paths(cfg)
    if fam == "example":
        return job_example_route(cfg)
    if fam == "hist":
        return job_hist(cfg)
    raise ValueError(fam)


def _cost(j):
    fam, cfg = j
    if fam == "example":
        return -100
    if fam == "hist":
        return -45
    if fam == "paths" and cfg["fam"] == "nn":
        return -(50 + 10 * cfg["n"])
    if fam == "paths":
        return -(10 * cfg["n"])
    return -cfg["n"]


def run(ctx):
    ctx.rule = ("fast: trial kind x (n_sites, n_up, n_dn) x {orthonormal uniform / non-uniform density, non-orthonormal} x 2 real "
                "walkers x every ordered pair of distinct spin-orbitals x 4x4 update constants; a state is one (trial, walker, pair, "
                "constants) and is non-trivial when its reference overlap ratio is a distinct non-zero number.  tree/nn: lattice x "
                "filling x U x dt x trial kind x density profile x walker x propagator x half-step source x one-body letter (spin-"
                "independent hopping, + staggered Zeeman field, + edge pinning field: h1[0] != h1[1]); a state is one forced "
                "walker = one complete field configuration (leaf) or one boundary probe of one internal node of the decision tree, "
                "all executed in one population through prop.propagate (neighbour family: complete trees on chain2 = 1 bond / 2 sites and the "
                "3-ring = 3 bonds / 3 sites; on ring+diagonal = 5 bonds / 4 sites a bounded sub-tree: 3 forced prefixes x all 2^8 (2^10 "
                "thorough) patterns of the last decisions, leaves only, no summed identity); non-trivial & distinct = distinct non-zero leaf "
                "probabilities of the configurations on which the summed identity was evaluated.  hist: words over a menu of "
                "propagator objects equal in every scalar attribute and array shape but one structural (static-jit) attribute - "
                "neighbour lists on 3 sites/2 bonds (other graph, other bond order, other orientation; 4 sites/4 bonds ring / "
                "chain+diagonal / open 2x2 in thorough) for propagator_cpmc_nn(_slow), dt in {0.1,0.03,0.01} for "
                "propagator_cpmc(_slow) - executed in order in ONE process without any cache clearing, each word under an "
                "n_walkers no earlier call used, every call compared with the same references (quick: words abc, cba = all "
                "ordered pairs of 3 letters; thorough: all ordered pairs and triples); a state is one leaf of one call of one word")
    ctx.assume("history layer: the trial classes uhf_cpmc/ghf_cpmc have no attribute that changes the result at equal array shapes "
               "(norb/nelec change shapes; n_batch/n_opt_iter do not enter the CPMC paths), and n_exp_terms/n_batch of the propagators "
               "are not read by the CPMC classes, so only neighbour lists and dt are letters")
    ctx.assume("trial orbitals and walkers real (propagator_cpmc.init_prop_data takes the real part); hopping t=1; the Fock-space "
               "reference mc/fock.py (self-tested) and NumPy determinants are the trusted base")
    ctx.assume("selection probabilities are pinned to the reference within +-1e-8 by boundary probes; thresholds (ratio<1e-8, "
               "weight<1e-8, weight>100) are replayed with the library's semantics and walkers within a factor 1e-3..5 of a "
               "threshold are skipped and counted")
    ctx.assume("walkers whose history has probability zero (both fields rejected, or a rejected field forced by u=0/1 exactly) divide by "
               "a zero cached overlap afterwards; that is property C09 (finding F9) and they are skipped here (counted)")
    jobs = make_jobs(ctx.tier, ctx.seed) + hist_jobs(ctx.tier, ctx.seed)
    jobs.append(("example", dict(cells=[("chain2", (1, 1), 4.0), ("chain3", (2, 1), 8.0)] + ([("grid2x2", (2, 2), 1.0)] if ctx.thorough else []))))
    jobs.sort(key=_cost)
    # Workers finish in arbitrary order; collect their violations and enter them simplest-first (smallest lattice,
    # fewest electrons, on-site before neighbour family) so that the recorded counterexample is the smallest one.
    collected = []
    plain_merge = ctx.merge

    def merge_keep_violations(d):
        d = d.to_dict() if isinstance(d, Result) else dict(d)
        collected.extend((i, v) for i, v in enumerate(d["violations"]))
        d["violations"] = []
        plain_merge(d)

    ctx.merge = merge_keep_violations
    try:
        ctx.pmap(job, jobs)
    finally:
        ctx.merge = plain_merge
    fam_rank = {"fast": 0, "tree": 1, "nn": 2, "hist": 3}

    def simplicity(iv):
        i, v = iv
        c = v["case"]
        return (int(c["n"]), int(c["na"]) + int(c["nb"]), fam_rank.get(c.get("fam"), 3),
                {"uhf_cpmc": 0, "ghf_cpmc": 1}.get(c.get("trial", c.get("kind")), 2),
                {"nonuniform": 0, "uniform": 1}.get(c.get("density"), 2), bool(c.get("nonorth", False)), i)

    for _, v in sorted(collected, key=simplicity):
        ctx.violation(v["signature"], v["case"], v["detail"])
    ctx.require_guard("leaves", "probes_with_interior_probability", "identity_evaluated[library]", "identity_evaluated[bare]",
                      "identity_evaluated[library,uniform density]", "identity_evaluated[library,nonuniform density]",
                      "identity_evaluated[library,spin-dependent one-body staggered]",
                      "identity_evaluated[library,spin-dependent one-body edge]",
                      "pair_constant_cases[same-spin]", "pair_constant_cases[opposite-spin]", "fast_vs_slow_walkers_compared", "bounded_subtree_leaves",
                      "history_calls_after_another_object[nn3]", "history_calls_after_another_object[dt]", "history_identity_evaluated",
                      "example_route_cells", "walkers_with_constraint_active")


def replay(case):
    """Plain driver: re-execute the one recorded case (one population, or one pair of the fast update)."""
    try:
        return _replay(case)
    finally:
        _restore_random()


def _replay(case):
    case = dict(case)
    for k in ("n", "na", "nb", "seed"):
        case[k] = int(case[k])
    fam = case.get("fam")
    if fam == "hist":
        # re-execute the whole word up to the recorded position, in order, under its own static key
        cfg = dict(menu=case["menu"], n=case["n"], na=case["na"], nb=case["nb"], trial=case["trial"], seed=case["seed"],
                   prop=case["prop"], subtree=case.get("subtree"))
        word = [int(x) for x in np.asarray(case["word"]).tolist()]
        outs = run_word(cfg, word[: int(case["pos"]) + 1], int(case["pad"]))
        k, c, out = outs[-1]
        sigs = [sg for sg, _ in out["viol"]]
        return (len(sigs) > 0, dict(word=word, position=k, earlier_calls_ok=[not o["viol"] for _, _, o in outs[:-1]],
                                    signatures=sigs, first=out["viol"][0][1] if sigs else None))
    if fam == "fast":
        r = Result()
        only = None
        if "pair" in case:
            only = dict(pair=[[int(x) for x in p] for p in np.asarray(case["pair"]).tolist()], walker=int(case["walker"]))
        _fast_checks(case, r, only_case=only)
        return (len(r.violations) > 0, dict(signatures=sorted({v["signature"] for v in r.violations}),
                                            first=r.violations[0]["detail"] if r.violations else None))
    if case.get("compare") == "fast-vs-slow":
        a = run_population({k: v for k, v in case.items() if k != "compare"})
        b = run_population(dict({k: v for k, v in case.items() if k != "compare"}, prop=case["prop"] + "_slow"))
        errs, ok = fast_slow_errors(a["info"]["cmp"], b["info"]["cmp"])
        e = max(float(err[ok].max()) if ok.any() else 0.0 for err in errs.values())
        return (not e <= TOL, dict(max_relerr_fast_vs_slow=e))
    out = run_population(case)
    sigs = [s for s, _ in out["viol"]]
    return (len(sigs) > 0, dict(signatures=sigs, first=out["viol"][0][1] if sigs else None,
                                res_E=out["info"].get("res_E"), res_K=out["info"].get("res_K")))
