"""C18 -- trial optimisation (rhf.optimize / uhf.optimize) is a stable SCF with orthonormal output;
linalg_utils._eigh's custom derivative = first-order perturbation theory on non-degenerate spectra and
finite on (nearly) degenerate ones.

Part E (gridmc): every A = Q diag(lambda) Q^T with lambda every multiset of size <= 4 over
{0, 1, 1+1e-7, 1+1e-3, 2}, Q from a finite Givens alphabet, x every symmetric basis tangent.
Part O (gridmc): systems (synthetic well-gapped Hamiltonians, small molecules; closed and open shells) x
n_opt_iter in {5, 30} x initial orbitals = converged reference orbitals rotated by every word of length
<= 2 over Givens(occ, virt, theta), theta in {0.05, 0.3} (theta = 0 is the empty word) + malformed guesses.
Independent SCF solver: pyscf (DIIS) on the same integrals.
"""

import itertools
import warnings

import numpy as np

from mc import alphabets as al
from mc.core import Result

ID = "C18"
TECHNIQUE = ("exhaustive enumeration: spectra (multisets over a 5-letter alphabet incl. exact and near degeneracy) x Givens frames x "
             "symmetric basis tangents for _eigh's jvp vs perturbation theory; systems x all orbital-rotation words of length <= 2 x "
             "n_opt_iter for rhf/uhf.optimize vs pyscf as independent SCF solver; UHF sectors with n_up > n_dn, n_up = n_dn and "
             "n_dn > n_up, the latter with a spin-flip differential oracle")

LAMBDA = [0.0, 1.0, 1.0 + 1e-7, 1.0 + 1e-3, 2.0]
DEG_REL = 1e-5          # the property's "non-degenerate": all gaps > 1e-5 * scale
THETAS = [0.05, 0.3]
ORTH_TOL = 1e-9
PROJ_TOL = 1e-6         # converged input: occupied projector unchanged (reference converged to grad 1e-9)
ENERGY_TOL = 1e-8       # relative to max(1, |E|)
RHO_ENERGY = 0.7        # "well-conditioned": Roothaan contraction factor at the solution (0.7^30 ~ 2e-5, energy error ~ its square)
RHO_FIXED = 0.9
GAP_MIN = 0.2
FD_H = [2e-4, 1e-4]
FD_TOL = 1e-6
MAX_WORDS = 6000


def _lib():
    from ad_afqmc import config

    config.afqmc_config["use_mpi"] = False
    config.setup_jax()
    import jax
    import jax.numpy as jnp
    from ad_afqmc import linalg_utils, wavefunctions

    return jax, jnp, linalg_utils, wavefunctions


def sym_basis(n):
    out = []
    for p in range(n):
        for q in range(p, n):
            T = np.zeros((n, n))
            T[p, q] = 1.0
            T[q, p] = 1.0
            out.append(((p, q), T))
    return out


# ============================================================================= part E: _eigh
def frames(n, seed):
    """Finite alphabet of orthogonal frames: identity, single Givens rotations, generic products."""
    out = [("I", np.eye(n))]
    if n >= 2:
        out.append(("G01(0.3)", al.givens(n, 0, 1, 0.3)))
        out.append(("G0%d(pi/4)" % (n - 1), al.givens(n, 0, n - 1, np.pi / 4)))
        out.append(("frame%d" % seed, al.frame(n, seed, 1)))
        out.append(("frame%d'" % seed, al.frame(n, seed + 1, 4)))
    return out


def spectra(n):
    return [tuple(LAMBDA[k] for k in c) for c in itertools.combinations_with_replacement(range(len(LAMBDA)), n)]


def eigh_reference(lam, Q, T):
    """First-order perturbation theory with the constructed (exact) eigen-system, ascending order."""
    order = np.argsort(lam, kind="stable")
    w = np.array(lam)[order]
    V = Q[:, order]
    G = V.T @ T @ V
    dw = np.diag(G).copy()
    n = len(w)
    C = np.zeros((n, n))
    for i in range(n):
        for j in range(n):
            if i != j and w[i] != w[j]:
                C[j, i] = G[j, i] / (w[i] - w[j])
    return w, V, dw, V @ C


_EIGH = {}


def _eigh_funs(n):
    if n not in _EIGH:
        jax, jnp, lu, _ = _lib()
        prim = jax.jit(jax.vmap(lambda A: lu._eigh(A)))
        tang = jax.jit(jax.vmap(lambda A, T: jax.jvp(lu._eigh, (A,), (T,))))
        _EIGH[n] = (prim, tang)
    return _EIGH[n]


def eigh_cases(n, seed):
    out = []
    for lam in spectra(n):
        for qlab, Q in frames(n, seed):
            out.append((lam, qlab, Q))
    return out


def eigh_check(n, seed, res, only=None):
    jax, jnp, lu, _ = _lib()
    prim, tang = _eigh_funs(n)
    cases = eigh_cases(n, seed)
    tans = sym_basis(n)
    As, Ts, meta = [], [], []
    for ic, (lam, qlab, Q) in enumerate(cases):
        A = Q @ np.diag(lam) @ Q.T
        A = (A + A.T) / 2
        for (pq, T) in tans:
            if only is not None and (ic, list(pq)) != only:
                continue
            As.append(A)
            Ts.append(T)
            meta.append((ic, pq))
    (w, v), (dw, dv) = tang(jnp.asarray(np.array(As)), jnp.asarray(np.array(Ts)))
    w, v, dw, dv = (np.asarray(x) for x in (w, v, dw, dv))
    res.add(states=len(As), transitions=len(As), evaluations=len(As), traces=len(As))
    for k, (ic, pq) in enumerate(meta):
        lam, qlab, Q = cases[ic]
        A, T = As[k], Ts[k]
        case = dict(part="eigh", n=n, seed=seed, case=ic, spectrum=list(lam), frame=qlab, tangent=list(pq))
        ws = np.sort(lam)
        scale = max(1.0, np.abs(ws).max())
        gaps = np.diff(ws)
        mingap = gaps.min() if len(gaps) else np.inf
        nondeg = mingap > DEG_REL * scale
        # primal: an eigen-decomposition of A (both regimes)
        vk, wk = v[k], w[k]
        if not (np.all(np.isfinite(vk)) and np.abs(vk.T @ vk - np.eye(n)).max() <= 1e-9
                and np.abs(A @ vk - vk * wk).max() <= 1e-9 * scale and np.abs(wk - ws).max() <= 1e-9 * scale):
            res.violation("linalg_utils._eigh:primal-not-an-eigendecomposition", dict(case, what="primal"),
                          dict(matrix=A, w=wk, v=vk))
            continue
        if not (np.all(np.isfinite(dw[k])) and np.all(np.isfinite(dv[k]))):
            res.guard("eigh_jvp_cases_" + ("nondegenerate" if nondeg else "degenerate"))
            res.violation("linalg_utils._eigh_jvp:not-finite(%s)" % ("non-degenerate" if nondeg else "degenerate-or-near-degenerate"),
                          dict(case, what="finite"), dict(matrix=A, tangent=T, dw=dw[k], dv=dv[k], min_gap=float(mingap)))
            continue
        if not nondeg:
            res.guard("eigh_jvp_cases_degenerate")
            if mingap == 0.0:
                res.guard("eigh_jvp_exactly_degenerate_finite")
            else:
                res.guard("eigh_jvp_near_degenerate_finite")
            continue
        res.guard("eigh_jvp_cases_nondegenerate")
        _, V, dw_ref, dv_ref = eigh_reference(lam, Q, T)
        sgn = np.sign(np.sum(V * vk, axis=0))
        sgn[sgn == 0] = 1.0
        dv_ref = dv_ref * sgn
        tol = 1e-9 * max(1.0, 1.0 / mingap) ** 2
        e_w = np.abs(dw[k] - dw_ref).max()
        e_v = np.abs(dv[k] - dv_ref).max()
        if mingap < 0.5:
            res.guard("eigh_jvp_compared_small_gap(1e-3)")
        if not (e_w <= 1e-9 and e_v <= tol):
            res.violation("linalg_utils._eigh_jvp:!=first-order-perturbation-theory", dict(case, what="pt"),
                          dict(matrix=A, tangent=T, dw=dw[k], dw_ref=dw_ref, dv=dv[k], dv_ref=dv_ref, err_dw=float(e_w),
                               err_dv=float(e_v), tol_dv=float(tol), min_gap=float(mingap)))
    return len(As)


def job_eigh(cfg):
    res = Result()
    n, seed = cfg["n"], cfg["seed"]
    eigh_check(n, seed, res)
    for lam in spectra(n):
        res.nontrivial(("eigh", n, lam))
    res.sample(dict(routine="jax.jvp(linalg_utils._eigh)", n=n, n_spectra=len(spectra(n)), frames=[q for q, _ in frames(n, seed)],
                    tangents=len(sym_basis(n)), example_spectrum=list(spectra(n)[min(7, len(spectra(n)) - 1)])))
    return res


# ============================================================================= part O: optimize
_GEOM = {
    "H2": [("H", (0, 0, 0)), ("H", (0, 0, 0.74))],
    "H3chain": [("H", (0, 0, 0)), ("H", (0, 0, 0.9)), ("H", (0, 0, 1.85))],
    "H4chain": [("H", (0, 0, 0.9 * k)) for k in range(4)],
    "H4ring": [("H", (1.0, 0, 0)), ("H", (0, 1.1, 0)), ("H", (-1.0, 0, 0)), ("H", (0, -1.1, 0))],
    "LiH": [("Li", (0, 0, 0)), ("H", (0, 0, 1.6))],
    "OH": [("O", (0, 0, 0)), ("H", (0, 0, 0.97))],
    "H2O": [("O", (0, 0, 0)), ("H", (0, 0.757, 0.587)), ("H", (0, -0.757, 0.587))],
}
BOND_SCALE = [1.0, 0.9, 1.15, 1.3]


def flip_problem(prob):
    """The same physics with the two spin labels exchanged."""
    return dict(prob, na=prob["nb"], nb=prob["na"], h1=np.array([prob["h1"][1], prob["h1"][0]]))


def build_problem(sysd):
    """-> dict(n, na, nb, h0, h1[2,n,n], chol[g,n,n]) in an orthonormal basis.  sysd['flip'] exchanges the spin
    labels of the system described by the other keys (sectors with n_dn > n_up)."""
    if sysd.get("flip"):
        return flip_problem(build_problem({k: v for k, v in sysd.items() if k != "flip"}))
    if sysd["type"] == "synth":
        n, na, nb, seed = sysd["n"], sysd["na"], sysd["nb"], sysd["seed"]
        Q = al.frame(n, seed, 5)
        kind = sysd.get("flavour", "gapped")
        # level spacing 0.9 everywhere (so that the beta Fermi level of an open shell is gapped too), 1.9 at the alpha Fermi level
        occ = -1.1 - 0.9 * np.arange(na)[::-1]
        vir = 0.8 + 0.9 * np.arange(n - na)
        if kind == "deg-occ":      # exactly degenerate occupied pair, one-body limit
            occ = np.full(na, -1.5)
        if kind == "deg-virt":
            vir = np.full(n - na, 1.0)
        eps = np.concatenate([occ, vir])
        h = Q @ np.diag(eps) @ Q.T
        h = (h + h.T) / 2
        strength = 0.0 if kind in ("deg-occ", "deg-virt") else 0.25
        chol = np.array([al.dense_sym(n, seed, 10 + g, strength) for g in range(3)])
        hb = h
        if sysd.get("spin_dep"):
            hb = h + 0.1 * al.dense_sym(n, seed, 31)
        return dict(n=n, na=na, nb=nb, h0=0.3, h1=np.array([h, hb]), chol=chol)
    from pyscf import gto

    name, basis = sysd["mol"].split("/")
    atom = [(s, tuple(sysd.get("scale", 1.0) * np.array(x, dtype=float))) for s, x in _GEOM[name]]
    mol = gto.M(atom=atom, basis=basis, spin=sysd.get("spin", 0), charge=sysd.get("charge", 0), verbose=0, unit="Angstrom")
    S = mol.intor("int1e_ovlp")
    w, v = np.linalg.eigh(S)
    X = v @ np.diag(w ** -0.5) @ v.T
    h = X.T @ (mol.intor("int1e_kin") + mol.intor("int1e_nuc")) @ X
    h = (h + h.T) / 2
    n = h.shape[0]
    eri = np.einsum("pqrs,pi,qj,rk,sl->ijkl", mol.intor("int2e"), X, X, X, X).reshape(n * n, n * n)
    ev, U = np.linalg.eigh((eri + eri.T) / 2)
    keep = ev > 1e-13 * ev.max()
    chol = (U[:, keep] * np.sqrt(ev[keep])).T.reshape(-1, n, n)
    chol = (chol + chol.transpose(0, 2, 1)) / 2
    na, nb = mol.nelec
    return dict(n=n, na=int(na), nb=int(nb), h0=float(mol.energy_nuc()), h1=np.array([h, h]), chol=chol)


def pyscf_reference(prob, uhf):
    """Independent SCF (pyscf, DIIS) on the same integrals.  -> (converged, e_tot, [Ca, Cb], [eps_a, eps_b])."""
    from pyscf import ao2mo, gto, scf

    n, na, nb = prob["n"], prob["na"], prob["nb"]
    mol = gto.M(verbose=0)
    mol.nelectron = na + nb
    mol.spin = na - nb
    mol.incore_anyway = True
    eri = np.einsum("gij,gkl->ijkl", prob["chol"], prob["chol"])
    h1 = prob["h1"]
    with warnings.catch_warnings():
        warnings.simplefilter("ignore")
        if uhf:
            mf = scf.UHF(mol)
            mf.get_hcore = lambda *a: h1
        else:
            mf = scf.RHF(mol)
            mf.get_hcore = lambda *a: (h1[0] + h1[1]) / 2
        mf.get_ovlp = lambda *a: np.eye(n)
        mf._eri = ao2mo.restore(8, eri, n)
        mf.energy_nuc = lambda *a: prob["h0"]
        mf.conv_tol = 1e-13
        mf.conv_tol_grad = 1e-9
        mf.max_cycle = 300
        mf.init_guess = "1e"
        if uhf:
            ha, hb = h1[0], h1[1]
            dm0 = []
            for hh, ne in ((ha, na), (hb, nb)):
                e, c = np.linalg.eigh(hh)
                dm0.append(c[:, :ne] @ c[:, :ne].T)
            mf.kernel(dm0=np.array(dm0))
            C = [np.asarray(mf.mo_coeff[0]), np.asarray(mf.mo_coeff[1])]
            E = [np.asarray(mf.mo_energy[0]), np.asarray(mf.mo_energy[1])]
        else:
            e, c = np.linalg.eigh((h1[0] + h1[1]) / 2)
            mf.kernel(dm0=2 * c[:, :na] @ c[:, :na].T)
            C = [np.asarray(mf.mo_coeff)] * 2
            E = [np.asarray(mf.mo_energy)] * 2
    return bool(mf.converged), float(mf.e_tot), C, E


def hf_energy(prob, Pa, Pb):
    h1, chol = prob["h1"], prob["chol"]
    P = Pa + Pb
    j = np.einsum("gij,ij->g", chol, P)
    ex = sum(np.einsum("gij,jk,gkl,li->", chol, Q, chol, Q) for Q in (Pa, Pb))
    return prob["h0"] + np.sum(h1[0] * Pa) + np.sum(h1[1] * Pb) + 0.5 * np.sum(j * j) - 0.5 * ex


def scf_commutator(prob, P, uhf):
    """max |[F_s, P_s]| of the reference solution with the boring Fock matrix."""
    chol, h1 = prob["chol"], prob["h1"]
    Pt = P[0] + P[1]
    J = np.einsum("gij,g->ij", chol, np.einsum("gij,ij->g", chol, Pt))
    worst = 0.0
    for s in (0, 1):
        Ps = P[s] if uhf else Pt / 2
        hs = h1[s] if uhf else (h1[0] + h1[1]) / 2
        F = hs + J - np.einsum("gij,jk,gkl->il", chol, Ps, chol)
        worst = max(worst, np.abs(F @ Ps - Ps @ F).max())
    return worst


def roothaan_rho(prob, C, E, uhf):
    """Spectral radius of the linearised Roothaan map at the reference solution (input-side conditioning)."""
    n, chol = prob["n"], prob["chol"]
    ne = [prob["na"], prob["nb"]]
    spins = [0, 1] if uhf else [0]
    idx = [(s, i, a) for s in spins for i in range(ne[s]) for a in range(ne[s], n)]
    if not idx:
        return 0.0
    M = np.zeros((len(idx), len(idx)))
    for col, (s, j, b) in enumerate(idx):
        K = np.zeros((n, n))
        K[b, j] = K[j, b] = 1.0
        dPs = C[s] @ K @ C[s].T
        dPtot = dPs if uhf else 2 * dPs
        J = np.einsum("gij,g->ij", chol, np.einsum("gij,ij->g", chol, dPtot))
        for row, (t, i, a) in enumerate(idx):
            if uhf:
                Kx = np.einsum("gij,jk,gkl->il", chol, dPs, chol) if t == s else 0.0
                dF = J - Kx
            else:
                dF = J - 0.5 * np.einsum("gij,jk,gkl->il", chol, dPtot, chol)
            dFmo = C[t].T @ dF @ C[t]
            M[row, col] = -dFmo[a, i] / (E[t][a] - E[t][i])
    return float(np.abs(np.linalg.eigvals(M)).max())


def rotation_letters(n, ne, uhf):
    """Givens(occ, virt, theta) letters: (spin, i, a, theta)."""
    out = []
    for s in ([0, 1] if uhf else [0]):
        for i in range(ne[s]):
            for a in range(ne[s], n):
                for th in THETAS:
                    out.append((s, i, a, th))
    return out


def words(letters, max_len=2):
    out = [()]
    for k in range(1, max_len + 1):
        out += list(itertools.product(letters, repeat=k))
    return out


def apply_word(C, word, n):
    """Rotate the reference orbitals: C_s <- C_s G(i,a,theta) for every letter (in order)."""
    Cs = [C[0].copy(), C[1].copy()]
    for (s, i, a, th) in word:
        Cs[s] = Cs[s] @ al.givens(n, i, a, th)
    return Cs


def malformed_guesses(C, n, na, nb, seed):
    """Inputs outside any SCF manual: scaled, non-orthogonal, dense and zero initial orbitals (only
    orthonormality / finiteness of the output is judged)."""
    D = al.dense_sym(n, seed, 55)
    out = []
    out.append(("scaled", [1.3 * C[0], 0.6 * C[1]]))
    out.append(("non-orthogonal", [C[0] + 0.4 * np.roll(C[0], 1, axis=1), C[1] + 0.4 * np.roll(C[1], 1, axis=1)]))
    out.append(("dense", [D, D[::-1].copy()]))
    out.append(("zero", [0.0 * C[0], 0.0 * C[1]]))
    return out


class OptRig:
    def __init__(self, prob, uhf, n_opt_iter):
        jax, jnp, lu, wf = _lib()
        self.jax, self.jnp = jax, jnp
        n, na, nb = prob["n"], prob["na"], prob["nb"]
        self.n, self.na, self.nb, self.uhf = n, na, nb, uhf
        self.trial = (wf.uhf if uhf else wf.rhf)(n, (na, nb), n_opt_iter=n_opt_iter)
        self.hd = {"h0": prob["h0"], "h1": jnp.asarray(prob["h1"]),
                   "chol": jnp.asarray(prob["chol"].reshape(len(prob["chol"]), n * n)), "ene0": 0.0}
        trial, hd = self.trial, self.hd
        if uhf:
            def opt(Ca, Cb, h1):
                out = trial.optimize(dict(hd, h1=h1), {"mo_coeff": [Ca, Cb]})["mo_coeff"]
                return out[0], out[1]
        else:
            def opt(Ca, Cb, h1):
                out = trial.optimize(dict(hd, h1=h1), {"mo_coeff": Ca})["mo_coeff"]
                return out, out
        self.opt = opt
        self.batched = jax.jit(jax.vmap(opt, in_axes=(0, 0, None)))
        self.tang = jax.jit(jax.vmap(lambda Ca, Cb, h1, T: jax.jvp(lambda x: opt(Ca, Cb, x), (h1,), (T,)), in_axes=(None, None, None, 0)))
        self.prim_h = jax.jit(jax.vmap(lambda Ca, Cb, h1: opt(Ca, Cb, h1), in_axes=(None, None, 0)))

    def run_batch(self, Cas, Cbs):
        oa, ob = self.batched(self.jnp.asarray(Cas), self.jnp.asarray(Cbs), self.hd["h1"])
        return np.asarray(oa), np.asarray(ob)


def h1_tangents(n, uhf):
    out = []
    for pq, T in sym_basis(n):
        out.append(("ab", pq, np.array([T, T])))
        if uhf:
            out.append(("a", pq, np.array([T, 0 * T])))
    return out


def opt_check(sysd, uhf, seed, res, only=None, thorough=False):
    """All of part O for one system.  `only` = dict(n_opt_iter=.., word=.. | guess=.. | jvp=..) restricts to one case (replay)."""
    prob = build_problem(sysd)
    n, na, nb = prob["n"], prob["na"], prob["nb"]
    kind = "uhf" if uhf else "rhf"
    base = dict(part="opt", kind=kind, system=sysd, seed=seed, tier="thorough" if thorough else "quick")
    if sysd.get("flip"):  # reference solved in the n_up >= n_dn labelling, then relabelled (exact symmetry of the problem)
        conv, e_ref, C, E = pyscf_reference(flip_problem(prob), uhf)
        C, E = [C[1], C[0]], [E[1], E[0]]
    else:
        conv, e_ref, C, E = pyscf_reference(prob, uhf)
    ne = [na, nb]
    Pref = [C[s][:, :ne[s]] @ C[s][:, :ne[s]].T for s in (0, 1)]
    if abs(hf_energy(prob, Pref[0], Pref[1]) - e_ref) > 1e-9 * max(1, abs(e_ref)):
        raise RuntimeError("reference energy model disagrees with pyscf for %r" % (sysd,))
    comm = scf_commutator(prob, Pref, uhf)
    if comm > 1e-8:  # pyscf's own flag is too strict at conv_tol 1e-13; the stationarity of its solution is what matters
        res.guard("systems_reference_scf_not_stationary(not judged)")
        res.note("reference SCF not converged for %r: |[F,P]| = %.1e (pyscf converged=%s); system skipped" % (sysd, comm, conv))
        return res
    rho = roothaan_rho(prob, C, E, uhf)
    gaps = [E[s][ne[s]] - E[s][ne[s] - 1] for s in (0, 1) if 0 < ne[s] < n]
    gap = min(gaps) if gaps else np.inf
    spec_gap = min([np.diff(np.sort(E[s])).min() for s in ((0, 1) if uhf else (0,)) if n > 1] or [np.inf])
    judged_energy = rho <= RHO_ENERGY and gap >= GAP_MIN
    judged_fixed = rho <= RHO_FIXED and gap >= GAP_MIN
    res.guard("systems_%s" % kind)
    if uhf and nb > na:
        res.guard("systems_uhf_n_dn>n_up")
    res.guard("systems_energy_judged" if judged_energy else "systems_ill_conditioned_energy_not_judged")
    if not judged_fixed:
        res.guard("systems_ill_conditioned_fixed_point_not_judged")
    letters = rotation_letters(n, ne, uhf)
    wl = words(letters, 3 if (thorough and len(letters) <= 8) else 2)   # thorough: length-3 words on the small systems
    if len(wl) > MAX_WORDS:
        res.cap("%s %r: %d rotation words, only the first %d (all of length <= 1 and a prefix of length 2) run" % (kind, sysd, len(wl), MAX_WORDS))
        wl = wl[:MAX_WORDS]
    scale_e = max(1.0, abs(e_ref))
    for n_it in (5, 30):
        if only is not None and only["n_opt_iter"] != n_it:
            continue
        rig = OptRig(prob, uhf, n_it)
        # ---------------- rotation words
        sel = list(range(len(wl)))
        if only is not None:
            sel = [only["word"]] if "word" in only else []
        if sel:
            Cw = [apply_word(C, wl[k], n) for k in sel]
            Cas = np.array([c[0][:, :na] for c in Cw])
            Cbs = np.array([c[1][:, :nb] for c in Cw])
            oa, ob = rig.run_batch(Cas, Cbs)
            res.add(states=len(sel), transitions=len(sel), evaluations=len(sel), traces=len(sel))
            mirror = None
            if uhf and sysd.get("flip") and n_it == 30:
                # spin-flip differential oracle: the library on the relabelled problem (spins, one-body matrices,
                # electron counts and initial orbitals all exchanged) must return the mirror image
                rig0 = OptRig(flip_problem(prob), True, n_it)
                ma, mb = rig0.run_batch(Cbs, Cas)
                mirror = (mb, ma)
                res.add(transitions=len(sel), evaluations=len(sel), traces=len(sel))
            for t, k in enumerate(sel):
                word = wl[k]
                case = dict(base, n_opt_iter=n_it, word=k, word_letters=[list(l) for l in word], what="word")
                outs = [oa[t], ob[t]]
                if mirror is not None:
                    res.guard("spin_flip_cases")
                    mo = [mirror[0][t], mirror[1][t]]
                    e_a = e_b = None
                    okm = all(np.all(np.isfinite(mo[s])) and mo[s].shape == outs[s].shape for s in (0, 1)) and \
                        all(np.all(np.isfinite(outs[s])) for s in (0, 1))
                    if okm:
                        e_a = hf_energy(prob, outs[0] @ outs[0].T, outs[1] @ outs[1].T)
                        e_b = hf_energy(prob, mo[0] @ mo[0].T, mo[1] @ mo[1].T)
                        okm = (not judged_fixed) or abs(e_a - e_b) <= ENERGY_TOL * scale_e
                    if not okm:
                        res.violation("uhf.optimize:spin-flip-asymmetry(n_dn>n_up vs n_up>n_dn)", dict(case, what="flip"),
                                      dict(nelec=[na, nb], e_this=e_a, e_mirror=e_b, rho=rho))
                bad_orth = False
                for s in (0, 1):
                    o = outs[s]
                    if o.shape != (n, ne[s]) or not np.all(np.isfinite(o)) or (ne[s] and np.abs(o.T @ o - np.eye(ne[s])).max() > ORTH_TOL):
                        bad_orth = True
                if bad_orth:
                    res.violation("%s.optimize:output-not-orthonormal" % kind, dict(case, what="orth"),
                                  dict(out_up=outs[0], out_dn=outs[1], n_opt_iter=n_it))
                    continue
                Po = [outs[s] @ outs[s].T for s in (0, 1)]
                if len(word) == 0:
                    res.guard("fixed_point_cases")
                    dP = max(np.abs(Po[s] - Pref[s]).max() for s in (0, 1))
                    if judged_fixed and not dP <= PROJ_TOL:
                        res.violation("%s.optimize:converged-solution-not-a-fixed-point" % kind, dict(case, what="fixed"),
                                      dict(max_dP=float(dP), rho=rho, gap=float(gap), n_opt_iter=n_it,
                                           dE=float(hf_energy(prob, Po[0], Po[1]) - e_ref)))
                if n_it == 30:
                    e_out = hf_energy(prob, Po[0], Po[1])
                    if judged_energy:
                        res.guard("energy_cases")
                        if len(word) == 2 and all(l[3] == 0.3 for l in word):
                            res.guard("energy_cases_strongly_perturbed")
                        if not abs(e_out - e_ref) <= ENERGY_TOL * scale_e:
                            res.violation("%s.optimize:energy!=independent-SCF" % kind, dict(case, what="energy"),
                                          dict(e_out=float(e_out), e_pyscf=e_ref, diff=float(e_out - e_ref), rho=rho, gap=float(gap),
                                               e_guess=float(hf_energy(prob, *[Cw[t][s][:, :ne[s]] @ Cw[t][s][:, :ne[s]].T for s in (0, 1)]))))
                    res.nontrivial_values((kind, repr(sysd), "e_guess"), [hf_energy(prob, *[Cw[t][s][:, :ne[s]] @ Cw[t][s][:, :ne[s]].T for s in (0, 1)])], 8)
        # ---------------- malformed guesses: orthonormal output for *every* input
        mg = malformed_guesses(C, n, na, nb, seed)
        for glab, G in mg:
            if only is not None and only.get("guess") != glab:
                continue
            oa, ob = rig.run_batch(np.array([G[0][:, :na]]), np.array([G[1][:, :nb]]))
            res.add(states=1, transitions=1, evaluations=1, traces=1)
            res.guard("malformed_guess_cases")
            for s, o in ((0, oa[0]), (1, ob[0])):
                if not np.all(np.isfinite(o)) or (ne[s] and np.abs(o.T @ o - np.eye(ne[s])).max() > ORTH_TOL):
                    res.violation("%s.optimize:output-not-orthonormal" % kind,
                                  dict(base, n_opt_iter=n_it, guess=glab, what="orth-malformed"), dict(out=o, spin=s))
                    break
        # ---------------- jvp of optimize itself w.r.t. the one-body Hamiltonian
        if only is not None and "jvp" not in only:
            continue
        starts = [("converged", C)]
        if letters:
            starts.append(("rotated", apply_word(C, (letters[-1],), n)))
        tans = h1_tangents(n, uhf)
        for slab, Cs in starts:
            Ca, Cb = rig.jnp.asarray(Cs[0][:, :na]), rig.jnp.asarray(Cs[1][:, :nb])
            Tarr = np.array([t[2] for t in tans])
            (pa, pb), (ta, tb) = rig.tang(Ca, Cb, rig.hd["h1"], rig.jnp.asarray(Tarr))
            pa, pb, ta, tb = (np.asarray(x) for x in (pa, pb, ta, tb))
            res.add(transitions=len(tans), evaluations=len(tans), traces=len(tans))
            compare = judged_energy and spec_gap > 1e-3 and n_it == 30
            fd = None
            if compare or (n_it == 30 and judged_fixed):  # the second case is informational only (guards, never a verdict)
                fd = []
                for h in FD_H:
                    hp = np.array([prob["h1"] + h * T for T in Tarr])
                    hm = np.array([prob["h1"] - h * T for T in Tarr])
                    op = rig.prim_h(Ca, Cb, rig.jnp.asarray(hp))
                    om = rig.prim_h(Ca, Cb, rig.jnp.asarray(hm))
                    Pp = [np.einsum("tik,tjk->tij", np.asarray(x), np.asarray(x)) for x in op]
                    Pm = [np.einsum("tik,tjk->tij", np.asarray(x), np.asarray(x)) for x in om]
                    fd.append([(Pp[s] - Pm[s]) / (2 * h) for s in (0, 1)])
                    res.add(evaluations=2 * len(tans), traces=2 * len(tans))
            for it, (tl, pq, T) in enumerate(tans):
                jcase = dict(base, n_opt_iter=n_it, jvp=[slab, tl, list(pq)], what="jvp")
                if only is not None and only["jvp"] != jcase["jvp"]:
                    continue
                res.guard("optimize_jvp_cases")
                if not (np.all(np.isfinite(ta[it])) and np.all(np.isfinite(tb[it]))):
                    res.violation("%s.optimize:jvp-not-finite" % kind, dict(jcase, what="jvp-finite"),
                                  dict(tangent_up=ta[it], tangent_dn=tb[it], spectrum_gap=float(spec_gap)))
                    continue
                worst = 0.0
                if fd is not None:
                    for s, (p, t) in enumerate(((pa[it], ta[it]), (pb[it], tb[it]))):
                        dP = t @ p.T + p @ t.T
                        rich = (4 * fd[1][s][it] - fd[0][s][it]) / 3.0
                        worst = max(worst, np.abs(dP - rich).max() if dP.size else 0.0)
                if not compare:
                    res.guard("optimize_jvp_finite_only")
                    if fd is not None:  # degenerate Fock spectrum or slow contraction: the property only asks for finiteness
                        res.guard("info_not_judged:projector_jvp_%s_central_difference_on_degenerate_or_slow_system"
                                  % ("agrees_with" if worst <= FD_TOL * max(1.0, 1.0 / gap) else "DISAGREES_with"))
                    continue
                res.guard("optimize_jvp_projector_compared")
                if not worst <= FD_TOL * max(1.0, 1.0 / gap):
                    res.violation("%s.optimize:jvp(occupied-projector)!=central-difference" % kind, dict(jcase, what="jvp-fd"),
                                  dict(err=float(worst), gap=float(gap), rho=rho))
    res.sample(dict(routine="%s.optimize" % kind, system=sysd, norb=n, nelec=[na, nb], e_pyscf=e_ref, roothaan_rho=round(rho, 4),
                    homo_lumo_gap=round(float(gap), 4), rotation_letters=len(letters), words=len(wl)))
    res.nontrivial((kind, repr(sysd)))
    return res


def job_opt(cfg):
    res = Result()
    opt_check(cfg["system"], cfg["uhf"], cfg["seed"], res, thorough=cfg.get("tier") == "thorough")
    return res


# ============================================================================= run / replay
def systems(tier, seed):
    thorough = tier == "thorough"
    out = []
    S = lambda n, na, nb, **kw: dict(type="synth", n=n, na=na, nb=nb, seed=seed, **kw)
    M = lambda mol, **kw: dict(type="mol", mol=mol, **kw)
    sc = BOND_SCALE[seed % len(BOND_SCALE)]
    rhf = [S(3, 1, 1), S(4, 2, 2), S(4, 1, 1), S(4, 2, 2, flavour="deg-occ"), S(4, 2, 2, flavour="deg-virt"),
           M("H2/sto-3g", scale=sc), M("H2/6-31g", scale=sc), M("H4chain/sto-3g", scale=sc), M("LiH/sto-3g", scale=sc)]
    uhf = [S(3, 1, 1), S(3, 2, 1), S(4, 2, 1), S(4, 2, 2, spin_dep=True), S(3, 2, 0), S(4, 2, 2, flavour="deg-occ"),
           M("H2/sto-3g", scale=sc), M("H3chain/sto-3g", spin=1, scale=sc), M("LiH/sto-3g", scale=sc), M("OH/sto-3g", spin=1, scale=sc)]
    # sectors with n_dn > n_up (the spin labels of an n_up > n_dn system exchanged) + the spin-flip differential oracle
    uhf += [S(3, 2, 1, flip=True), S(4, 2, 1, spin_dep=True, flip=True), S(3, 2, 0, flip=True), M("H3chain/sto-3g", spin=1, scale=sc, flip=True)]
    if thorough:
        rhf += [S(5, 2, 2), S(5, 3, 3), S(5, 1, 1), S(4, 3, 3), M("H4chain/6-31g"), M("H2O/sto-3g"), M("H4ring/sto-3g"), M("LiH/6-31g")]
        uhf += [S(5, 3, 2), S(5, 3, 1), S(4, 3, 1), S(5, 2, 2), S(4, 3, 3, flavour="deg-virt"), M("H4chain/sto-3g"), M("H2O/sto-3g"),
                M("H4chain/sto-3g", spin=2), M("H2/6-31g"), M("H4ring/sto-3g")]
        uhf += [S(5, 3, 2, flip=True), S(5, 3, 1, flip=True), S(4, 3, 1, spin_dep=True, flip=True), S(4, 4, 2, flip=True),
                M("OH/sto-3g", spin=1, flip=True), M("H4chain/sto-3g", spin=2, flip=True)]
        for s in BOND_SCALE:
            if s != sc:
                rhf += [M("H2/sto-3g", scale=s), M("H4chain/sto-3g", scale=s), M("LiH/sto-3g", scale=s)]
                uhf += [M("H3chain/sto-3g", spin=1, scale=s), M("OH/sto-3g", spin=1, scale=s)]
    if thorough:  # the synthetic family for two more members of the frame / interaction catalogue
        for extra in (1, 2):
            S2 = lambda n, na, nb, **kw: dict(type="synth", n=n, na=na, nb=nb, seed=seed + 5 * extra, **kw)
            rhf += [S2(3, 1, 1), S2(4, 2, 2), S2(4, 1, 1), S2(5, 2, 2)]
            uhf += [S2(3, 2, 1), S2(4, 2, 1), S2(4, 2, 2, spin_dep=True), S2(4, 3, 1)]
    return ([dict(part="opt", system=s, uhf=False, seed=seed, tier=tier) for s in rhf]
            + [dict(part="opt", system=s, uhf=True, seed=seed, tier=tier) for s in uhf])


def job(cfg):
    return {"eigh": job_eigh, "opt": job_opt}[cfg["part"]](cfg)


def run(ctx):
    ctx.rule = ("_eigh: every multiset of size n <= 4 (5 thorough) over {0,1,1+1e-7,1+1e-3,2} as spectrum x 5 Givens frames x every symmetric basis "
                "tangent; optimize: systems (synthetic gapped / degenerate one-body-limit Hamiltonians, molecules in the Loewdin basis; "
                "closed and open shells incl. n_dn > n_up (every layer; plus library(problem) vs library(spin-relabelled problem)); rhf and uhf) x n_opt_iter {5,30} x every word of length <= 2 (3 in the thorough tier for systems with <= 8 letters) over "
                "Givens(occ,virt,theta in {0.05,0.3}) applied to the pyscf-converged orbitals (empty word = converged input) + 4 malformed guesses x jvp along every "
                "symmetric one-body tangent; a state is one (system, n_opt_iter, initial orbitals | tangent); non-trivial & distinct = "
                "distinct spectra / distinct energies of the initial determinants")
    ctx.assume("pyscf (DIIS, conv_tol 1e-13) on the same integrals is the independent SCF solver; 'well-conditioned' = linearised Roothaan "
               "contraction factor <= 0.7 and HOMO-LUMO gap >= 0.2 at the reference solution (computed from the inputs); the fixed-point "
               "statement is judged for contraction factor <= 0.9; energies are compared at n_opt_iter = 30 only")
    ctx.assume("'non-degenerate' = all eigenvalue gaps > 1e-5*max(1,|lambda|max); otherwise only finiteness of the jvp is demanded. "
               "The jvp of optimize is demanded finite everywhere; its occupied-projector part is compared with central differences only on "
               "well-conditioned systems with a non-degenerate Fock spectrum")
    jobs = systems(ctx.tier, ctx.seed)
    jobs.sort(key=lambda j: -(j["system"].get("n", 7) ** 2) * (2 if j["uhf"] else 1))
    jobs += [dict(part="eigh", n=n, seed=ctx.seed) for n in ((5, 4, 3, 2, 1) if ctx.thorough else (4, 3, 2, 1))]
    ctx.pmap(job, jobs)
    ctx.require_guard("eigh_jvp_cases_nondegenerate", "eigh_jvp_exactly_degenerate_finite", "eigh_jvp_near_degenerate_finite",
                      "eigh_jvp_compared_small_gap(1e-3)", "systems_rhf", "systems_uhf", "systems_energy_judged", "fixed_point_cases",
                      "energy_cases", "energy_cases_strongly_perturbed", "malformed_guess_cases", "spin_flip_cases", "systems_uhf_n_dn>n_up", "optimize_jvp_cases",
                      "optimize_jvp_projector_compared", "optimize_jvp_finite_only")


def replay(case):
    res = Result()
    if case["part"] == "eigh":
        eigh_check(case["n"], case["seed"], res, only=(case["case"], list(case["tangent"])))
        v = res.violations
        return (len(v) > 0, v[0]["detail"] if v else {})
    only = dict(n_opt_iter=case["n_opt_iter"])
    for k in ("word", "guess", "jvp"):
        if k in case:
            only[k] = case[k]
    if "jvp" in only:
        only["jvp"] = [only["jvp"][0], only["jvp"][1], list(only["jvp"][2])]
    opt_check(case["system"], case["kind"] == "uhf", case["seed"], res, only=only, thorough=case.get("tier") == "thorough")
    v = res.violations
    return (len(v) > 0, v[0]["detail"] if v else {})
