"""C14 -- walkers evolve independently; batching and storage format change nothing.

Engine: seqmc (permutation group / substitution / option matrix enumeration on the real routines).
 (1) every permutation of a population of 4 (generators + reversal for 6) applied to walkers, fields, weights,
     overlaps permutes the outputs of calc_overlap/energy/force_bias, _apply_trotprop, propagate,
     propagate_free and the CPMC propagate the same way; the scalar shift is invariant;
 (2) every batch count dividing the population gives the same outputs;
 (3) substituting one walker changes no other walker's outputs;
 (4) closed shell: restricted walkers + RHF vs unrestricted walkers (equal blocks) + UHF with the same
     jax.random seed follow identical trajectories through propagate, every sampler entry point and
     driver.afqmc."""

import contextlib
import io
import itertools
import os
import shutil

import numpy as np

from mc import alphabets as al
from mc import gridmc, samplers, trials
from mc.core import Result

ID = "C14"
TECHNIQUE = "exhaustive enumeration of population permutations, batch counts and single-walker substitutions on every batched routine; restricted-vs-unrestricted differential runs over the sampler/driver option matrix with the real jax.random"


def lib_prop():
    jnp, wf = trials.lib()
    from ad_afqmc import hamiltonian, propagation

    return jnp, hamiltonian, propagation


def configs(tier, seed):
    thorough = tier == "thorough"
    out = []
    kinds_u = ["uhf", "ghf", "noci", "ucisd", "multislater", "rhf"] + (["UCISD", "GCISD"] if thorough else [])
    kinds_r = ["rhf", "cisd"] + (["CISD", "cisd_faster", "CISD_THC", "uhf"] if thorough else [])
    for kind in kinds_u:
        out.append(dict(part="equivariance", kind=kind, mode="u", n=3, na=(1 if kind in ("rhf", "ghf") else 2), nb=1, npop=4, seed=seed, tier=tier))
    for kind in kinds_r:
        out.append(dict(part="equivariance", kind=kind, mode="r", n=3, na=1, nb=1, npop=4, seed=seed, tier=tier))
    out.append(dict(part="equivariance", kind="uhf", mode="u", n=3, na=2, nb=1, npop=6, seed=seed, tier=tier))
    out.append(dict(part="equivariance", kind="rhf", mode="r", n=3, na=1, nb=1, npop=6, seed=seed, tier=tier))
    for cls in ["propagator_cpmc", "propagator_cpmc_slow", "propagator_cpmc_continuous"]:
        for tk in ["uhf_cpmc", "ghf_cpmc"]:
            if cls == "propagator_cpmc_continuous" and tk == "ghf_cpmc" and not thorough:
                continue
            out.append(dict(part="cpmc", cls=cls, kind=tk, n=3, na=2, nb=1, npop=4, seed=seed, tier=tier))
    structs = [(2, 1, 1), (1, 2, 2)] if not thorough else [(1, 1, 1), (2, 1, 1), (2, 2, 1), (1, 2, 2), (2, 2, 2)]
    for st in structs:
        out.append(dict(part="container", level="sampler", n_steps=st[0], n_ene=st[1], n_sr=st[2], seed=seed, tier=tier))
    cells = [(None, True, True), ("forward", True, True), ("reverse", False, False)] if not thorough else \
        [(ad, o, s) for ad in (None, "forward", "reverse") for o in (True, False) for s in (True, False)]
    for (ad, o, s) in cells:
        out.append(dict(part="container", level="driver", ad_mode=ad, orbital_rotation=o, do_sr=s, seed=seed, tier=tier))
    return out


def perms(npop):
    if npop <= 4:
        return list(itertools.permutations(range(npop)))
    gens = [tuple(range(npop))]
    gens.append(tuple([1, 0] + list(range(2, npop))))  # transposition
    gens.append(tuple(list(range(1, npop)) + [0]))  # cycle
    gens.append(tuple(reversed(range(npop))))
    gens.append(tuple([2, 0, 1] + list(range(3, npop))))
    return gens


def population(tc, mode, npop, seed):
    """npop distinct walkers (grid points), distinct fields, weights, in the lab frame."""
    grid = al.walker_grid(tc.n, tc.na, tc.nb, seed, restricted=(mode == "r"), cap=4)
    Wa, Wb, _ = gridmc.lab_walkers(tc, grid, mode == "r")
    idx = [(3 * i + 1) % grid["P"] for i in range(npop)]
    assert len(set(idx)) == npop
    return Wa[idx], (None if Wb is None else Wb[idx])


def job_equivariance(cfg):
    res = Result()
    jnp, hamiltonian, propagation = lib_prop()
    kind, mode, n, na, nb, npop, seed = cfg["kind"], cfg["mode"], cfg["n"], cfg["na"], cfg["nb"], cfg["npop"], cfg["seed"]
    variant = {"multislater": "ref:1", "uhf": "same" if mode == "r" else ""}.get(kind, "")
    tc = trials.build(kind, n, na, nb, seed, variant, full_basis=False)
    ip = len(tc.params) - 1
    p = tc.params[ip]
    trial0 = gridmc.trial_for(tc, ip)
    Wa, Wb = population(tc, mode, npop, seed)
    nchol = 2
    h0, h1, chol = al.small_ham(n, nchol, seed, spin_dependent=(mode == "u"), scale=0.5)
    rng = np.random.default_rng(10 + seed)
    fields = np.array([[0.3 * (i + 1) * (-1) ** i, -0.2 * (i + 2)] for i in range(npop)])
    weights = np.array([0.5 + 0.37 * i for i in range(npop)])
    wd = dict(p.wave_data)
    try:
        rdm1 = np.asarray(trial0.get_rdm1(p.wave_data)).real
    except NotImplementedError:
        rdm1 = np.array([np.diag([1.0] * na + [0.0] * (n - na)), tc.Qb[:, :nb] @ tc.Qb[:, :nb].T])
    wd["rdm1"] = jnp.asarray(rdm1)
    dt = 0.05
    sig0 = "%s/%s" % (kind, "restricted" if mode == "r" else "unrestricted")

    def pack(Wa_, Wb_):
        return jnp.asarray(Wa_) if mode == "r" else [jnp.asarray(Wa_), jnp.asarray(Wb_)]

    def run_all(Wa_, Wb_, fields_, weights_, nbatch):
        """All batched routines on one population; returns dict of numpy outputs (per-walker leading axis)."""
        trial = gridmc.with_batch(trial0, nbatch)
        cls = propagation.propagator_restricted if mode == "r" else propagation.propagator_unrestricted
        prop = cls(dt=dt, n_walkers=len(weights_), n_batch=nbatch)
        ham = hamiltonian.hamiltonian(n)
        hd = {"h0": h0, "h1": jnp.asarray(h1), "chol": jnp.asarray(chol.reshape(nchol, n * n)), "ene0": 0.0}
        hd = ham.build_measurement_intermediates(hd, trial, wd)
        hd = ham.build_propagation_intermediates(hd, prop, trial, wd)
        W = pack(Wa_, Wb_)
        out = {}
        J = gridmc.jitted
        out["overlap"] = np.asarray(J(trial, "calc_overlap")(W, wd))
        out["energy"] = np.asarray(J(trial, "calc_energy")(W, hd, wd))
        out["force_bias"] = np.asarray(J(trial, "calc_force_bias")(W, hd, wd))
        tw = prop._apply_trotprop(hd, pack(Wa_, Wb_), jnp.asarray(fields_))
        out["trotprop"] = np.asarray(tw) if mode == "r" else np.asarray(tw[0])
        if mode == "u":
            out["trotprop_dn"] = np.asarray(tw[1])
        pd = {"weights": jnp.asarray(weights_), "walkers": pack(Wa_, Wb_), "overlaps": jnp.asarray(out["overlap"]),
              "e_estimate": jnp.asarray(0.2), "pop_control_ene_shift": jnp.asarray(0.25)}
        po = prop.propagate(trial, hd, dict(pd), jnp.asarray(fields_), wd)
        out["prop_weights"] = np.asarray(po["weights"])
        out["prop_overlaps"] = np.asarray(po["overlaps"])
        out["prop_walkers"] = np.asarray(po["walkers"]) if mode == "r" else np.asarray(po["walkers"][0])
        out["_shift"] = float(po["pop_control_ene_shift"])
        if mode == "u" and nb > 0:
            pf = dict(pd)
            pf["walkers"] = pack(Wa_, Wb_)
            pf["norms"] = jnp.ones(len(weights_)) + 0j
            pf["normed_overlaps"] = pf["overlaps"]
            fo = prop.propagate_free(trial, hd, pf, jnp.asarray(fields_), wd)
            out["free_walkers"] = np.asarray(fo["walkers"][0])
            out["free_norms"] = np.asarray(fo["norms"])
            out["free_overlaps"] = np.asarray(fo["overlaps"])
        return out

    base = run_all(Wa, Wb, fields, weights, 1)
    scale = {k: max(1.0, np.abs(v).max()) for k, v in base.items() if not k.startswith("_")}
    # cisd/ucisd cast one energy intermediate to complex64: arithmetic comparisons at that precision
    # ... and the finite-difference energies of the AD trials amplify round-off by 1/eps^2 = 1e8
    tolk = lambda k: (2e-6 if (k == "energy" and kind in ("cisd", "cisd_faster", "ucisd")) else
                      1e-6 if (k == "energy" and kind in trials.AUTO_KINDS) else 1e-12)
    # (1) permutations
    for pi in perms(npop):
        pi = list(pi)
        o = run_all(Wa[pi], None if Wb is None else Wb[pi], fields[pi], weights[pi], 1)
        res.add(states=1, transitions=len(base), evaluations=1, traces=1)
        for k, v in base.items():
            if k.startswith("_"):
                continue
            d = np.abs(o[k] - v[pi]).max() / scale[k]
            if not d <= tolk(k):
                res.violation(sig0 + "/%s/not-permutation-equivariant" % k, dict(cfg, what="perm", perm=pi), dict(err=float(d)))
        if not abs(o["_shift"] - base["_shift"]) <= 1e-10 * max(1, abs(base["_shift"])):
            res.violation(sig0 + "/shift-not-symmetric", dict(cfg, what="perm", perm=pi), dict(a=o["_shift"], b=base["_shift"]))
        res.nontrivial((sig0, npop, tuple(pi)))
    res.guard("permutations", len(perms(npop)))
    # (2) batch counts
    for nbatch in [d for d in range(2, npop + 1) if npop % d == 0]:
        o = run_all(Wa, Wb, fields, weights, nbatch)
        res.add(states=1, transitions=len(base), evaluations=1, traces=1)
        res.guard("batch_counts", 1)
        for k, v in base.items():
            if k.startswith("_"):
                continue
            d = np.abs(o[k] - v).max() / scale[k]
            if not d <= tolk(k):
                res.violation(sig0 + "/%s/depends-on-batch-count" % k, dict(cfg, what="batch", n_batch=nbatch), dict(err=float(d)))
    # (3) single-walker substitution
    Wa2, Wb2 = population(tc, mode, npop + 1, seed)
    for j in range(npop):
        Wa_s, Wb_s = Wa.copy(), None if Wb is None else Wb.copy()
        Wa_s[j] = Wa2[npop]
        if Wb is not None:
            Wb_s[j] = Wb2[npop]
        f2, w2 = fields.copy(), weights.copy()
        f2[j] = [1.1, -0.9]
        w2[j] = 3.3
        o = run_all(Wa_s, Wb_s, f2, w2, 1)
        res.add(states=1, transitions=len(base), evaluations=1, traces=1)
        others = [i for i in range(npop) if i != j]
        for k, v in base.items():
            if k.startswith("_"):
                continue
            d = np.abs(o[k][others] - v[others]).max() / scale[k]
            if not d <= tolk(k):
                res.violation(sig0 + "/%s/walkers-coupled" % k, dict(cfg, what="subst", j=j), dict(err=float(d)))
        res.guard("substitutions", 1)
    res.sample(dict(cfg=cfg, routines=sorted(k for k in base if not k.startswith("_")), permutations=len(perms(npop))))
    return res


def job_cpmc(cfg):
    res = Result()
    jnp, hamiltonian, propagation = lib_prop()
    n, na, nb, npop, seed = cfg["n"], cfg["na"], cfg["nb"], cfg["npop"], cfg["seed"]
    jnp_, wf = trials.lib()
    tc = trials.build(cfg["kind"], n, na, nb, seed, "", full_basis=False)
    trial = tc.trial
    p = tc.params[0]
    rng = np.random.default_rng(3 + seed)
    # real walkers (CPMC), lattice-like Hamiltonian: chain hopping + on-site U through chol
    K = -1.0 * (np.eye(n, k=1) + np.eye(n, k=-1))
    u = 4.0
    chol = np.array([np.sqrt(u) * np.diag(np.eye(n)[i]) for i in range(n)])
    h1 = np.array([K, K])
    Wa = np.array([np.linalg.qr(tc.Qa[:, :na] + 0.3 * rng.normal(size=(n, na)))[0] for _ in range(npop)])
    Wb = np.array([np.linalg.qr(tc.Qb[:, :nb] + 0.3 * rng.normal(size=(n, nb)))[0] for _ in range(npop)])
    gauss = rng.normal(size=(npop, n))
    weights = np.array([0.5 + 0.3 * i for i in range(npop)])
    wd = dict(p.wave_data)
    try:
        wd["rdm1"] = jnp.asarray(np.asarray(trial.get_rdm1(p.wave_data)).real)
    except Exception:
        wd["rdm1"] = jnp.asarray(np.array([np.eye(n) * na / n, np.eye(n) * nb / n]))
    dt = 0.05
    sig0 = "%s/%s" % (cfg["cls"], cfg["kind"])

    def run_one(Wa_, Wb_, g_, w_):
        prop = getattr(propagation, cfg["cls"])(dt=dt, n_walkers=len(w_))
        ham = hamiltonian.hamiltonian(n)
        hd = {"h0": 0.0, "h1": jnp.asarray(h1), "chol": jnp.asarray(chol.reshape(n, n * n)), "ene0": 0.0, "u": u}
        hd = ham.build_measurement_intermediates(hd, trial, wd)
        hd = ham.build_propagation_intermediates(hd, prop, trial, wd)
        if cfg["cls"] == "propagator_cpmc_continuous":
            hd["hs_constant"] = jnp.asarray(np.sqrt(u * dt) * np.ones(n))  # any per-site constant
        pd = prop.init_prop_data(trial, wd, hd, [jnp.asarray(Wa_ + 0j), jnp.asarray(Wb_ + 0j)])
        pd["weights"] = jnp.asarray(w_)
        pd["e_estimate"] = jnp.asarray(-1.3)  # init_prop_data averages the walkers' energies: fix the scalars
        pd["pop_control_ene_shift"] = jnp.asarray(-1.2)
        po = prop.propagate(trial, hd, pd, jnp.asarray(g_), wd)
        return dict(weights=np.asarray(po["weights"]), overlaps=np.asarray(po["overlaps"]),
                    walkers=np.asarray(po["walkers"][0]), walkers_dn=np.asarray(po["walkers"][1]), _shift=float(po["pop_control_ene_shift"]))

    base = run_one(Wa, Wb, gauss, weights)
    if not np.all(np.isfinite(base["weights"])):
        raise RuntimeError("CPMC base run not finite")
    for pi in perms(npop):
        pi = list(pi)
        o = run_one(Wa[pi], Wb[pi], gauss[pi], weights[pi])
        res.add(states=1, transitions=4, evaluations=1, traces=1)
        for k, v in base.items():
            if k.startswith("_"):
                continue
            d = np.abs(o[k] - v[pi]).max() / max(1.0, np.abs(v).max())
            if not d <= 1e-12:
                res.violation(sig0 + "/%s/not-permutation-equivariant" % k, dict(cfg, what="perm", perm=pi), dict(err=float(d)))
        if not abs(o["_shift"] - base["_shift"]) <= 1e-10 * max(1, abs(base["_shift"])):
            res.violation(sig0 + "/shift-not-symmetric", dict(cfg, what="perm", perm=pi), dict(a=o["_shift"], b=base["_shift"]))
        res.nontrivial((sig0, tuple(pi)))
    res.guard("cpmc_permutations", len(perms(npop)))
    for j in range(npop):
        Wa_s, Wb_s, g2, w2 = Wa.copy(), Wb.copy(), gauss.copy(), weights.copy()
        Wa_s[j] = np.linalg.qr(tc.Qa[:, :na] + 0.5 * rng.normal(size=(n, na)))[0]
        g2[j] = -g2[j]
        w2[j] = 2.2
        o = run_one(Wa_s, Wb_s, g2, w2)
        others = [i for i in range(npop) if i != j]
        res.add(states=1, transitions=4, evaluations=1, traces=1)
        for k, v in base.items():
            if k.startswith("_"):
                continue
            d = np.abs(o[k][others] - v[others]).max() / max(1.0, np.abs(v).max())
            if not d <= 1e-12:
                res.violation(sig0 + "/%s/walkers-coupled" % k, dict(cfg, what="subst", j=j), dict(err=float(d)))
    return res


def job_container(cfg):
    """Closed shell: restricted+RHF vs unrestricted+UHF(equal blocks), same real jax.random key."""
    res = Result()
    L = samplers.lib()
    jax, jnp = L["jax"], L["jnp"]
    n, na, nb = 3, 1, 1
    sysd = samplers.system(n, na, nb, 2, cfg["seed"], "restricted", scale=0.6)
    nw = 4
    Br = samplers.build(sysd, "restricted", nw, dt=0.05)
    Bu = samplers.build(sysd, "unrestricted", nw, dt=0.05, trial_kind="uhf")
    # second pair: the user supplies an rdm1 for the mean-field shift that is NOT the trial's own (allowed by the
    # wave_function docstring); both containers get the same one and must still follow the same trajectory
    pert = 0.06 * al.dense_sym(n, cfg["seed"], 33)
    pairs_B = [(Br, Bu)]
    if cfg["level"] == "sampler":
        B2 = []
        for B0 in (Br, Bu):
            wd2 = dict(B0["wave_data"])
            wd2["rdm1"] = B0["wave_data"]["rdm1"] + jnp.asarray(np.array([pert, pert]))
            hd2 = {k: v for k, v in B0["ham_data"].items() if k in ("h0", "h1", "chol", "ene0")}
            hd2 = B0["ham"].build_measurement_intermediates(hd2, B0["trial"], wd2)
            hd2 = B0["ham"].build_propagation_intermediates(hd2, B0["prop"], B0["trial"], wd2)
            B2.append(dict(B0, wave_data=wd2, ham_data=hd2))
        pairs_B.append(tuple(B2))
    seeds = [0, 1, 7]
    if cfg["level"] == "sampler":
        samp = L["sampling"].sampler(cfg["n_steps"], cfg["n_ene"], cfg["n_sr"], 1)
        for entry, (Br_, Bu_) in [(e, pb) for pb in pairs_B for e in ["plain", "ad", "ad_nosr", "ad_norot", "ad_nosr_norot"]]:
            for sd in seeds:
                outs = []
                for B in (Br_, Bu_):
                    pd = samplers.fresh_prop_data(B, jax.random.PRNGKey(sd))
                    e, po = samplers.call_entry(B, samp, entry, pd)
                    wk = np.asarray(po["walkers"]) if B is Br_ else np.asarray(po["walkers"][0])
                    wk_dn = wk if B is Br_ else np.asarray(po["walkers"][1])
                    outs.append((float(e), np.asarray(po["weights"]), wk, wk_dn))
                res.add(states=1, transitions=2, evaluations=1, traces=2)
                de = abs(outs[0][0] - outs[1][0])
                dw = np.abs(outs[0][1] - outs[1][1]).max()
                dk = max(np.abs(outs[0][2] - outs[1][2]).max(), np.abs(outs[0][2] - outs[1][3]).max())
                res.guard("container_pairs", 1)
                res.nontrivial((entry, sd, round(outs[0][0], 10)))
                if not (de <= 1e-9 and dw <= 1e-9 and dk <= 1e-8):
                    res.violation("sampler/%s/restricted-vs-unrestricted" % entry, dict(cfg, what="container", entry=entry, run_seed=sd),
                                  dict(e=[outs[0][0], outs[1][0]], dweights=float(dw), dwalkers=float(dk)))
        return res
    # driver level
    samp = L["sampling"].sampler(2, 1, 2, 3)
    MPI = L["config"].setup_comm()
    cwd = os.getcwd()
    tmp = os.path.join(os.path.dirname(os.path.dirname(os.path.dirname(os.path.abspath(__file__)))), "scratch", "c14_tmp", "p%d" % os.getpid())
    os.makedirs(tmp, exist_ok=True)
    try:
        os.chdir(tmp)
        for sd in seeds[:2]:
            outs = []
            for B in (Br, Bu):
                options = dict(seed=sd, n_eql=1, n_ene_blocks_eql=1, n_sr_blocks_eql=1, ad_mode=cfg["ad_mode"],
                               orbital_rotation=cfg["orbital_rotation"], do_sr=cfg["do_sr"], save_walkers=False)
                hd = {k: v for k, v in B["ham_data"].items() if k in ("h0", "h1", "chol", "ene0")}
                with contextlib.redirect_stdout(io.StringIO()):
                    e, err = L["driver"].afqmc(dict(hd), B["ham"], B["prop"], B["trial"], dict(B["wave_data"]), samp, None, options, MPI)
                raw = np.loadtxt("samples_raw.dat").reshape(-1, 3)
                outs.append((float(e), raw))
            res.add(states=1, transitions=2, evaluations=1, traces=2)
            res.guard("driver_container_pairs", 1)
            d = np.abs(outs[0][1] - outs[1][1]).max()
            res.nontrivial(("driver", str(cfg["ad_mode"]), sd, round(outs[0][0], 8)))
            if not (abs(outs[0][0] - outs[1][0]) <= 2e-6 and d <= 2e-6 * max(1.0, np.abs(outs[0][1]).max())):
                res.violation("driver/restricted-vs-unrestricted", dict(cfg, what="container-driver", run_seed=sd),
                              dict(e=[outs[0][0], outs[1][0]], raw_r=outs[0][1], raw_u=outs[1][1]))
    finally:
        os.chdir(cwd)
        shutil.rmtree(tmp, ignore_errors=True)
    return res


def job(cfg):
    return {"equivariance": job_equivariance, "cpmc": job_cpmc, "container": job_container}[cfg["part"]](cfg)


def run(ctx):
    ctx.rule = ("(1-3) trial kind x container x population {4: all 24 permutations, 6: generators+reversal} x routine "
                "{calc_overlap, calc_energy, calc_force_bias, _apply_trotprop, propagate, propagate_free, CPMC propagate (3 classes x "
                "UHF/GHF)} x every batch count dividing the population x every single-walker substitution; (4) closed shell "
                "restricted+RHF vs unrestricted+UHF over sampler entry points x block structures x seeds and driver.afqmc option cells; "
                "state = (routine, permutation / batch count / substitution / cell)")
    ctx.assume("equivariance compared at 1e-12 relative (arithmetic may fuse differently for different batch shapes); container comparison at 1e-9 (sampler) / 2e-6 (driver stores float32)")
    ctx.pmap(job, configs(ctx.tier, ctx.seed), tasks_per_child=2)
    ctx.require_guard("permutations", "batch_counts", "substitutions", "cpmc_permutations", "container_pairs", "driver_container_pairs")


def replay(case):
    cfg = {k: v for k, v in case.items() if k not in ("what", "perm", "n_batch", "j", "entry", "run_seed")}
    r = job(cfg)
    return (len(r.violations) > 0, {"violations": [(v["signature"], v["detail"]) for v in r.violations][:2]})
