"""C19 -- blocking analysis, outlier rejection and jackknife of ad_afqmc/stat_utils.py follow their
statistical definitions.

Engines: gridmc (every sample/weight word over small alphabets, every equilibration cut, every column / m)
and probmc (the exact expectation of error_b^2 by enumerating EVERY path of i.i.d. and two-state Markov
series with its exact probability; for long AR(1) series the quadratic form err_b^2 = e^T Q e is read off
the implementation on the complete polarisation set {d_i, d_i+d_k} and contracted with the exact
covariance).  Nothing is sampled.

Reading of the property that is implemented (DESIGN.md section 2 / section 7):
  * mean = sum(w e)/sum(w) after the equilibration cut;
  * the estimate at block size b is sqrt( sum_j W_j (E_j - m)^2 / (V1 - V2/V1) / (n_B - 1) ) -- the unbiased
    weighted variance divided by (number of blocks - 1), *exactly that normalisation*;
  * "agrees with the true standard error": E[error_b^2] * (n_B-1)/n_B = Var(mean of the n_B*b samples used)
    for i.i.d. equal-weight data, at every block size; for positively correlated data the same quantity is
    <= the true variance and grows with b;
  * the returned value is one of the per-block-size estimates, chosen by the 5 % rule, or None;
  * per-block-size estimates are observed through the lines the routine prints (7 significant digits), the
    returned mean / plateau value exactly.
"""

import itertools
import math

import numpy as np

from mc.core import Result

ID = "C19"
TECHNIQUE = ("exhaustive enumeration of sample/weight words, cuts, columns and thresholds against textbook formulas; "
             "exact expectation of error^2 over every path of i.i.d. / two-state Markov series and via the "
             "polarisation set for long AR(1) series")

TOL = 1e-9          # float64 algebra, relative to the scale of the reference value
TOL_PRINT = 1.5e-6  # estimates read from the printed table: '%.6e' -> 5e-7 relative
TOL_PRINT_MEAN = 2e-8  # '%.8e'
TOL_EXP = 4e-6      # expectation of squares of printed values

SAMPLE_LETTERS = [(0.0, 1.0, 2.0), (-1.0, 0.0, 1.0), (0.0, 1.0, 3.0), (0.5, 1.5, 2.5), (-2.0, 0.0, 1.0)]
WEIGHT_LETTERS = [(1.0, 2.0), (1.0, 3.0), (0.5, 1.0), (2.0, 3.0), (1.0, 4.0)]
SCALES = (2.0 ** -20, 3.0, 2.0 ** 27)      # common weight rescalings ("positive weights of any scale")
SHIFTS = (1.0, -7.5, 1024.0)               # added constants
OUTLIER_LETTERS = [(0.0, 1.0, 2.0, 5.0, 100.0), (-3.0, 0.0, 1.0, 2.0, 50.0), (0.0, 0.5, 1.0, 4.0, 64.0),
                   (-100.0, -1.0, 0.0, 1.0, 2.0), (1.0, 2.0, 3.0, 4.0, 1000.0)]
M_LETTERS = (0.0, 0.5, 1.0, 2.0, 3.0, 10.0)
JK_NUM = [(0.0, 1.0, -2.0), (1.0, 2.0, -1.0), (0.5, -1.5, 3.0), (0.0, 2.0, 5.0), (-1.0, 1.0, 4.0)]
JK_DEN = [(1.0, 2.0, 4.0), (1.0, 3.0, 0.5), (2.0, 3.0, 8.0), (0.5, 1.0, 2.0), (1.0, 1.5, 6.0)]
JK_NUM_C = [(1.0 + 1.0j, -2.0j, 0.5), (2.0 - 1.0j, 1.0j, -1.0)]
JK_DEN_C = [(1.0 + 0.5j, 2.0 - 1.0j, 1.0), (2.0 + 1.0j, 1.0 - 0.5j, 3.0)]


# ============================================================================ calling the implementation
def _su():
    from ad_afqmc import stat_utils

    return stat_utils


class Capture:
    """Rebind stat_utils.print so that the per-block-size table can be read."""

    def __init__(self):
        self.lines = []

    def __call__(self, *a, **k):
        self.lines.append(a[0] if a else "")

    def __enter__(self):
        self.su = _su()
        self.saved = self.su.__dict__.get("print")
        self.su.print = self
        return self

    def __exit__(self, *exc):
        if self.saved is None:
            del self.su.print
        else:
            self.su.print = self.saved

    def table(self):
        """[(b, n_blocks, mean, error)] parsed from the data lines; clears the buffer."""
        rows = []
        for ln in self.lines:
            if ln.lstrip().startswith("#"):
                continue
            t = ln.split()
            if len(t) != 4:
                raise RuntimeError("unexpected line printed by blocking_analysis: %r" % ln)
            rows.append((int(t[0]), int(t[1]), float(t[2]), float(t[3])))
        self.lines.clear()
        return rows


def call_ba(cap, w, e, neql=0):
    """One execution of the real blocking_analysis; returns (mean, plateau or None, table rows)."""
    cap.lines.clear()
    m, p = cap.su.blocking_analysis(w, e, neql=neql, printQ=True)
    return m, p, cap.table()


# ============================================================================ textbook references
def ref_block(w, e, b):
    """Textbook weighted blocked estimate (scalar code, written for clarity)."""
    n = len(w)
    nb = n // b
    if nb < 2:
        return nb, float("nan"), float("nan")   # no error bar can be formed from fewer than two blocks
    W = [sum(w[j * b:(j + 1) * b]) for j in range(nb)]
    E = [sum(w[k] * e[k] for k in range(j * b, (j + 1) * b)) / W[j] for j in range(nb)]
    v1 = sum(W)
    v2 = sum(x * x for x in W)
    m = sum(W[j] * E[j] for j in range(nb)) / v1
    s2 = sum(W[j] * (E[j] - m) ** 2 for j in range(nb)) / (v1 - v2 / v1)   # unbiased weighted variance
    return nb, m, math.sqrt(s2 / (nb - 1))


def ref_plateau(errs, scale, margin=0.0):
    """Documented rule: first block size whose estimate is < 1.05 x the previous one; value = max of the two.
    Returns (value or None, knife_edge) -- knife_edge if the deciding comparison is within round-off (or within
    `margin`, relative, when the estimates are only known to print precision)."""
    prev = 0.0
    for x in errs:
        if abs(x - 1.05 * prev) <= 1e-12 * max(scale, prev) + margin * prev:   # includes 0 vs 0: constant data, judged separately
            return None, True
        if x < 1.05 * prev:
            return max(x, prev), False
        prev = x
    return None, False


def vref_block(W, E, b):
    """Vectorised version over a batch of series: W, E arrays (N, n). Returns (nb, mean (N,), err (N,))."""
    N, n = E.shape
    nb = n // b
    w = W[:, : nb * b].reshape(N, nb, b)
    we = (W * E)[:, : nb * b].reshape(N, nb, b)
    Wb = w.sum(-1)
    Eb = we.sum(-1) / Wb
    v1 = Wb.sum(-1)
    v2 = (Wb ** 2).sum(-1)
    m = (Wb * Eb).sum(-1) / v1
    s2 = (Wb * (Eb - m[:, None]) ** 2).sum(-1) / (v1 - v2 / v1)
    return nb, m, np.sqrt(s2 / (nb - 1))


def vref_plateau(errs, scale, N):
    """errs: list of (N,) arrays per block size.  Returns plateau (nan = None), knife mask."""
    prev = np.zeros(N)
    plat = np.full(N, np.nan)
    done = np.zeros(N, bool)
    knife = np.zeros(N, bool)
    for x in errs:
        k = (~done) & (np.abs(x - 1.05 * prev) <= 1e-12 * np.maximum(scale, prev))
        knife |= k
        done |= k
        hit = (~done) & (x < 1.05 * prev)
        plat = np.where(hit, np.maximum(x, prev), plat)
        done |= hit
        prev = x
    return plat, knife


def block_sizes_for(cap, n):
    """Block sizes the routine uses for n samples (learnt from one probe call), sanity-checked."""
    if n < 1:
        return []
    w = np.ones(n)
    e = np.arange(n, dtype=float) % 3
    _, _, rows = call_ba(cap, w, e)
    bs = [r[0] for r in rows]
    if bs != sorted(set(bs)) or any(b < 1 for b in bs):
        raise RuntimeError("unexpected block-size table for n=%d: %r" % (n, rows))
    return bs


# tolerances: `scale` is the magnitude of the data (>= 1, >= max|sample|, >= |added constant|)
def ok_mean(m, ref, scale):          # returned mean: float64 algebra
    return abs(m - ref) <= TOL * scale


def ok_bmean(m, ref, scale):         # printed '%.8e'
    return abs(m - ref) <= TOL_PRINT_MEAN * scale


def ok_err(x, ref, scale, k=1.0):    # printed '%.6e'
    return abs(x - ref) <= k * TOL_PRINT * abs(ref) + 1e-12 * scale


def ok_plat(p, ref, scale):          # returned plateau value: float64 algebra
    return abs(p - ref) <= TOL * abs(ref) + 1e-11 * scale


# ============================================================================ one blocking-analysis case
def ba_case(case):
    """Re-execute ONE (samples, weights, neql, transform) case on the real code and on the textbook formulas.
    Returns a list of (signature, detail)."""
    e0 = np.asarray(case["samples"], float)
    w0 = np.asarray(case["weights"], float)
    neql = int(case.get("neql", 0))
    scale_w = float(case.get("wscale", 1.0))
    shift = float(case.get("shift", 0.0))
    fails = []
    with Capture() as cap:
        w_call, e_call = w0 * scale_w, e0 + shift
        if case.get("wdtype"):
            w_call = w_call.astype(case["wdtype"])
        if case.get("edtype"):
            e_call = e_call.astype(case["edtype"])
        m, p, rows = call_ba(cap, w_call, e_call, neql)
        if scale_w != 1.0 or shift != 0.0:
            m_b, p_b, rows_b = call_ba(cap, w0, e0, neql)
    w = w0[neql:].tolist()
    e = e0[neql:].tolist()
    scale = max(1.0, float(np.abs(e0).max()), abs(shift))
    # --- against the definitions (on the untransformed series, mapped through the stated invariances)
    mean_ref = sum(a * b for a, b in zip(w, e)) / sum(w)
    obs = dict(mean=m, plateau=p, table=rows)
    if not ok_mean(m, mean_ref + shift, scale):
        fails.append(("blocking_analysis:mean!=sum(w*e)/sum(w)", dict(obs, mean_ref=mean_ref + shift)))
    errs = []
    for (b, nb, mb, eb) in rows:
        nb_r, m_r, e_r = ref_block(w, e, b)
        errs.append(e_r)
        tag = "b=1" if b == 1 else "b>1"
        if nb != nb_r or not ok_bmean(mb, m_r + shift, scale):
            fails.append(("blocking_analysis:block-mean[%s]" % tag, dict(obs, b=b, mean_b_ref=m_r + shift, n_blocks_ref=nb_r)))
        if not ok_err(eb, e_r, scale):
            fails.append(("blocking_analysis:block-error!=sqrt(unbiased-weighted-variance/(n_blocks-1))[%s]" % tag,
                          dict(obs, b=b, n_blocks=nb_r, error_impl=eb, error_ref=e_r, ratio=(eb / e_r if e_r else None))))
    if len(w) >= 3 and (not rows or rows[0][0] != 1):
        fails.append(("blocking_analysis:no-block-size-1-estimate", dict(obs)))
    # the returned value is one of the routine's own per-block-size estimates, chosen by the 5 % rule
    p_own, knife_own = ref_plateau([r[3] for r in rows], scale, margin=4 * TOL_PRINT)
    if not knife_own:
        if (p is None) != (p_own is None) or (p is not None and not ok_err(p, p_own, scale, 2.0)):
            fails.append(("blocking_analysis:returned-error!=5%-rule-on-its-own-block-estimates", dict(obs, expected=p_own)))
    # ... and, when those estimates are right, it is right to float64 accuracy
    p_ref, knife = ref_plateau(errs, scale)
    rows_ok = not any(s.startswith(("blocking_analysis:block-", "blocking_analysis:returned-error")) for s, _ in fails)
    if rows_ok and not knife:
        if (p is None) != (p_ref is None) or (p is not None and not ok_plat(p, p_ref, scale)):
            fails.append(("blocking_analysis:returned-error!=selected-block-estimate", dict(obs, plateau_ref=p_ref, errors_ref=errs)))
    if len(set(e)) == 1 and p is not None and abs(p) > TOL * scale:
        fails.append(("blocking_analysis:constant-data-nonzero-error", dict(obs)))
    if len(set(e)) == 1 and any(abs(r[3]) > TOL * scale for r in rows):
        fails.append(("blocking_analysis:constant-data-nonzero-error", dict(obs)))
    # --- direct invariance: transformed run vs untransformed run of the implementation itself
    if scale_w != 1.0 or shift != 0.0:
        what = "weight-rescaling" if scale_w != 1.0 else "added-constant"
        bad = not ok_mean(m, m_b + shift, scale)
        if not knife:
            bad = bad or (p is None) != (p_b is None) or (p is not None and not ok_plat(p, p_b, scale))
        if len(rows) != len(rows_b):
            bad = True
        else:
            for r, rb in zip(rows, rows_b):
                bad = bad or not ok_err(r[3], rb[3], scale, 2.0) or not ok_bmean(r[2], rb[2] + shift, 2 * scale)
        if bad:
            fails.append(("blocking_analysis:not-invariant-under-%s" % what,
                          dict(obs, base=dict(mean=m_b, plateau=p_b, table=rows_b))))
    return fails


def _words(letters, L):
    return np.array(list(itertools.product(letters, repeat=L)), float)


def job_words(job):
    """All sample words x a chunk of weight words of one length; optional cuts / invariances."""
    res = Result()
    L, seed = job["L"], job["seed"]
    SL, WL = SAMPLE_LETTERS[seed % 5], WEIGHT_LETTERS[seed % 5]
    S = _words(SL, L)
    Wall = _words(WL, L)
    c, nc = job["chunk"]
    Wc = Wall[c::nc]
    scale = max(1.0, max(abs(x) for x in SL))
    variants = [dict(neql=0, wscale=1.0, shift=0.0)]
    if job.get("cuts"):
        variants += [dict(neql=k, wscale=1.0, shift=0.0) for k in range(1, L)]
    if job.get("invariances"):
        variants += [dict(neql=0, wscale=s, shift=0.0) for s in SCALES]
        variants += [dict(neql=0, wscale=1.0, shift=a) for a in SHIFTS]
        # the same numbers in another array dtype (integer multiplicities / integer-valued samples, float32): "positive
        # weights of any scale" says nothing about the dtype the caller stores them in
        if all(float(x).is_integer() for x in WL):
            variants += [dict(neql=0, wscale=1.0, shift=0.0, wdtype="int64")]
        if all(float(x).is_integer() for x in SL):
            variants += [dict(neql=0, wscale=1.0, shift=0.0, edtype="int64")]
        variants += [dict(neql=0, wscale=1.0, shift=0.0, wdtype="float32")]
    with Capture() as cap:
        su = cap.su
        for var in variants:
            neql, ws, sh = var["neql"], var["wscale"], var["shift"]
            n = L - neql
            bs = block_sizes_for(cap, n)
            vscale = max(scale, abs(sh))
            for wrow in Wc:
                Wm = np.broadcast_to(wrow[neql:], (S.shape[0], n))
                Em = S[:, neql:]
                mean_ref = (Wm * Em).sum(1) / Wm.sum(1)
                refs = [vref_block(Wm, Em, b) for b in bs]
                plat_ref, knife = vref_plateau([r[2] for r in refs], vscale, S.shape[0])
                w_in = wrow * ws
                if var.get("wdtype"):
                    w_in = w_in.astype(var["wdtype"])
                    res.guard("weights_in_another_dtype", 1)
                for i in range(S.shape[0]):
                    e_in = S[i] + sh if sh else S[i]
                    if var.get("edtype"):
                        e_in = e_in.astype(var["edtype"])
                        res.guard("samples_in_another_dtype", 1)
                    cap.lines.clear()
                    m, p = su.blocking_analysis(w_in, e_in, neql=neql, printQ=True)
                    rows = cap.table()
                    ok = ok_mean(m, mean_ref[i] + sh, vscale) and len(rows) == len(bs)
                    if ok:
                        for r, b, rf in zip(rows, bs, refs):
                            if r[0] != b or r[1] != rf[0] or not ok_bmean(r[2], rf[1][i] + sh, vscale) \
                                    or not ok_err(r[3], rf[2][i], vscale):
                                ok = False
                    if ok and not knife[i]:
                        pr = plat_ref[i]
                        if p is None:
                            ok = pr != pr
                        else:
                            ok = pr == pr and ok_plat(p, pr, vscale)
                    const = bool(np.all(Em[i] == Em[i][0]))
                    if ok and const and p is not None and abs(p) > TOL * vscale:
                        ok = False
                    if not ok:
                        case = dict(part="words", samples=S[i].tolist(), weights=wrow.tolist(), **var)
                        fails = ba_case(case)
                        if not fails:
                            raise RuntimeError("bulk comparison and single-case driver disagree on %r" % (case,))
                        for sig, det in fails:
                            res.violation(sig, case, det)
                    if p is None:
                        res.guard("plateau_none")
                    else:
                        res.guard("plateau_value")
                    if const:
                        res.guard("constant_series")
                N = S.shape[0]
                res.add(states=N, transitions=N * (1 + len(bs)), evaluations=N * (2 + len(bs)), traces=N)
                res.guard("plateau_knife_edge_skipped_nonconstant", int((knife & (Em != Em[:, :1]).any(1)).sum()))
                if neql:
                    res.guard("equilibration_cut_cases", N)
                if ws != 1.0:
                    res.guard("weight_rescaling_cases", N)
                if sh != 0.0:
                    res.guard("added_constant_cases", N)
                if neql == 0 and ws == 1.0 and sh == 0.0:
                    for b, rf in zip(bs, refs):
                        res.nontrivial_values(("err", L, b, tuple(wrow)), rf[2])
            # direct invariance (implementation vs implementation) is covered because both the transformed and
            # the untransformed run are compared with the same reference values at 1e-9 / print precision
    res.sample(dict(part="words", L=L, sample_letters=SL, weight_letters=WL, weight_words=len(Wc), sample_words=len(S),
                    variants=len(variants), last_case=dict(samples=S[-2].tolist(), weights=Wc[-1].tolist())))
    return res


def job_const(job):
    """Constant non-integer data with every weight word: error must be zero (to round-off of the constant) or None."""
    res = Result()
    seed = job["seed"]
    consts = (0.0, 0.1, 1.0 / 3.0, -1234.5678, 1e6 + 0.1)
    wl = (1.0, 2.0, 3.0) if seed % 2 == 0 else (0.3, 1.0, 7.0)
    for L in range(4, 8 if job["tier"] == "quick" else 10):
        for wrow in itertools.product(wl, repeat=L):
            for c in consts:
                case = dict(part="words", samples=[c] * L, weights=list(wrow), neql=0)
                for sig, det in ba_case(case):
                    res.violation(sig, case, det)
                res.add(states=1, transitions=1, evaluations=1, traces=1)
                res.guard("constant_series")
    return res


LONG_LENGTHS_QUICK = (9, 10, 11, 12, 21, 22, 41, 101, 102, 201, 401, 601, 801, 1001, 2001)
LONG_LENGTHS_THOROUGH = LONG_LENGTHS_QUICK + (2002, 5000, 20001, 20002)


def long_series(n, pat_e, pat_w):
    k = np.arange(n)
    e = np.asarray(pat_e, float)[k % len(pat_e)] + ((k // 7) % 2) * 0.5   # period-lcm(p,14) staircase: blocks differ
    w = np.asarray(pat_w, float)[k % len(pat_w)]
    return w, e


def long_case(case):
    w, e = long_series(case["n"], case["pat_e"], case["pat_w"])
    fails = ba_case(dict(samples=e, weights=w, neql=case.get("neql", 0)))
    return fails


def job_long(job):
    """Every periodic pattern (period <= 3 samples x period <= 2 weights) extended to the lengths that reach
    every entry of the block-size table (up to 10000)."""
    res = Result()
    seed = job["seed"]
    SL, WL = SAMPLE_LETTERS[seed % 5], WEIGHT_LETTERS[seed % 5]
    pats_e = [p for r in (1, 2, 3) for p in itertools.product(SL, repeat=r)]
    pats_w = [p for r in (1, 2) for p in itertools.product(WL, repeat=r)]
    n = job["n"]
    if n > 110:  # the routine is O(n) python per block size: longer series use every 4th period-3 sample pattern, all weights
        pats_e = [p for p in pats_e if len(p) == 3][::4]
    cuts = (0, 3) if n <= 1100 else (0,)
    for pe in pats_e:
        for pw in pats_w:
            for neql in cuts:
                case = dict(part="long", n=n, pat_e=list(pe), pat_w=list(pw), neql=neql)
                fails = long_case(case)
                for sig, det in fails:
                    res.violation(sig, case, det)
                res.add(states=1, transitions=1, evaluations=1, traces=1)
    with Capture() as cap:
        bs = block_sizes_for(cap, n)
    res.guard("long_series_max_block_size_%d" % (max(bs) if bs else 0))
    res.guard("long_series_cases", len(pats_e) * len(pats_w) * len(cuts))
    return res


# ============================================================================ statistics, exactly
def ensembles(tier):
    T = tier == "thorough"
    Lb = 20 if T else 14
    out = [
        dict(name="iid-2pt-fair", kind="markov", a=0.5, b=0.5, Ls=list(range(4, Lb + 1)), wpat=[1.0]),
        dict(name="iid-2pt-biased", kind="markov", a=0.25, b=0.75, Ls=list(range(4, Lb + 1)), wpat=[1.0]),
        dict(name="iid-3pt", kind="iid3", probs=[0.5, 0.25, 0.25], Ls=list(range(4, (12 if T else 9) + 1)), wpat=[1.0]),
        dict(name="markov-stay3/4", kind="markov", a=0.25, b=0.25, Ls=list(range(4, (21 if T else 14) + 1)), wpat=[1.0]),
        dict(name="markov-stay7/8", kind="markov", a=0.125, b=0.125, Ls=list(range(4, Lb + 1)), wpat=[1.0]),
        dict(name="markov-asym", kind="markov", a=0.25, b=0.125, Ls=list(range(4, Lb + 1)), wpat=[1.0]),
        dict(name="markov-antipersistent", kind="markov", a=0.75, b=0.75, Ls=list(range(4, Lb + 1)), wpat=[1.0]),
        dict(name="iid-2pt-weighted", kind="markov", a=0.5, b=0.5, Ls=list(range(4, (16 if T else 12) + 1)), wpat=[1.0, 2.0]),
        dict(name="markov-weighted", kind="markov", a=0.25, b=0.25, Ls=list(range(4, (16 if T else 12) + 1)), wpat=[1.0, 3.0, 2.0]),
    ]
    return out


def ens_values(ens, seed):
    if ens["kind"] == "iid3":
        return [(0.0, 1.0, 3.0), (-1.0, 0.0, 2.0), (0.0, 2.0, 3.0), (0.5, 1.0, 2.5), (-2.0, 0.0, 1.0)][seed % 5]
    return [(0.0, 1.0), (-1.0, 1.0), (0.0, 2.0), (0.5, 2.0), (1.0, -0.5)][seed % 5]


def enumerate_paths(ens, L):
    """All paths (as integer state arrays (N, L)) with exact probabilities (N,)."""
    if ens["kind"] == "iid3":
        idx = np.array(list(itertools.product(range(3), repeat=L)), dtype=np.int8)
        pr = np.asarray(ens["probs"])[idx].prod(1)
        return idx, pr
    a, b = ens["a"], ens["b"]          # P(0->1) = a, P(1->0) = b
    N = 1 << L
    k = np.arange(N, dtype=np.int64)
    idx = ((k[:, None] >> np.arange(L - 1, -1, -1)[None, :]) & 1).astype(np.int8)
    pi = np.array([b, a]) / (a + b)
    T = np.array([[1 - a, a], [b, 1 - b]])
    pr = pi[idx[:, 0]].copy()
    for t in range(1, L):
        pr *= T[idx[:, t - 1], idx[:, t]]
    return idx, pr


def covariance(ens, vals, L):
    """Exact mean and covariance matrix of the stationary process (closed form, not by enumeration)."""
    v = np.asarray(vals, float)
    if ens["kind"] == "iid3":
        p = np.asarray(ens["probs"])
        mu = (p * v).sum()
        return mu, ((p * v * v).sum() - mu * mu) * np.eye(L), 0.0
    a, b = ens["a"], ens["b"]
    pi = np.array([b, a]) / (a + b)
    mu = (pi * v).sum()
    s2 = (pi * v * v).sum() - mu * mu
    rho = 1.0 - a - b
    d = np.abs(np.arange(L)[:, None] - np.arange(L)[None, :])
    return mu, s2 * rho ** d, rho


def qform(w, b):
    """Matrix Q with  error_b^2 = e^T Q e  for fixed weights (definition written with explicit matrices)."""
    n = len(w)
    nb = n // b
    A = np.zeros((nb, n))
    for j in range(nb):
        A[j, j * b:(j + 1) * b] = w[j * b:(j + 1) * b] / w[j * b:(j + 1) * b].sum()
    Wb = np.array([w[j * b:(j + 1) * b].sum() for j in range(nb)])
    mrow = (Wb[:, None] * A).sum(0) / Wb.sum()
    D = A - mrow[None, :]
    v1, v2 = Wb.sum(), (Wb ** 2).sum()
    return nb, (D.T * Wb) @ D / (v1 - v2 / v1) / (nb - 1)


def stat_case(case, res=None):
    """One (ensemble, L): run the real routine on EVERY path; exact expectations vs closed forms."""
    ens, L, seed = case["ens"], case["L"], case["seed"]
    vals = ens_values(ens, seed)
    idx, pr = enumerate_paths(ens, L)
    E = np.asarray(vals, float)[idx]
    N = E.shape[0]
    wp = np.asarray(ens["wpat"], float)
    w = wp[np.arange(L) % len(wp)]
    scale = max(1.0, np.abs(vals).max())
    fails = []
    with Capture() as cap:
        su = cap.su
        bs = block_sizes_for(cap, L)
        Wm = np.broadcast_to(w, (N, L))
        refs = [vref_block(Wm, E, b) for b in bs]
        plat_ref, knife = vref_plateau([r[2] for r in refs], scale, N)
        mean_ref = (Wm * E).sum(1) / w.sum()
        means = np.empty(N)
        errs = np.empty((len(bs), N))
        nmis = 0
        for i in range(N):
            cap.lines.clear()
            m, p = su.blocking_analysis(w, E[i], neql=0, printQ=True)
            rows = cap.table()
            means[i] = m
            ok = len(rows) == len(bs) and ok_mean(m, mean_ref[i], scale)
            if ok:
                for k, r in enumerate(rows):
                    errs[k, i] = r[3]
                    if r[0] != bs[k] or r[1] != refs[k][0] or not ok_bmean(r[2], refs[k][1][i], scale) \
                            or not ok_err(r[3], refs[k][2][i], scale):
                        ok = False
                if not knife[i]:
                    pr_ = plat_ref[i]
                    ok = ok and ((pr_ != pr_) if p is None else bool(pr_ == pr_ and ok_plat(p, pr_, scale)))
            if not ok:
                nmis += 1
                if nmis <= 3:
                    pc = dict(part="words", samples=E[i].tolist(), weights=w.tolist(), neql=0)
                    pf = ba_case(pc)
                    if not pf:
                        raise RuntimeError("bulk comparison and single-case driver disagree on %r" % (pc,))
                    for sig, det in pf:
                        fails.append((sig, det, pc))
                if len(rows) != len(bs):
                    errs[:, i] = np.nan
                else:
                    for k, r in enumerate(rows):
                        errs[k, i] = r[3]
    mu, C, rho = covariance(ens, vals, L)
    ptot = pr.sum()
    if abs(ptot - 1.0) > 1e-12:
        raise RuntimeError("path probabilities do not sum to one")
    # reference self-test + mean: E[mean] = mu, Var[mean] = a^T C a
    avec = w / w.sum()
    Em = (pr * means).sum()
    Vm = (pr * (means - mu) ** 2).sum()
    if abs(Em - mu) > 1e-11 * scale:
        fails.append(("blocking_analysis:E[mean]!=mu", dict(E_mean=Em, mu=mu), None))
    if abs(Vm - avec @ C @ avec) > 1e-10 * scale ** 2:
        fails.append(("blocking_analysis:Var[mean]!=true-variance", dict(var_enum=Vm, var_true=avec @ C @ avec), None))
    equal_w = len(set(w.tolist())) == 1
    rb = []
    summary = []
    for k, b in enumerate(bs):
        nb, Q = qform(w, b)
        e2_enum = (pr * errs[k] ** 2).sum()                 # exact expectation over every path (implementation)
        e2_true = np.trace(Q @ C)                           # closed form with the documented normalisation
        tag = "b=1" if b == 1 else "b>1"
        det = dict(b=b, n_blocks=nb, E_err2_enumerated=e2_enum, E_err2_closed_form=e2_true,
                   ratio=e2_enum / e2_true if e2_true else None, paths=N, rho=rho)
        if not abs(e2_enum - e2_true) <= TOL_EXP * e2_true + 1e-12 * scale ** 2:
            fails.append(("blocking_analysis:E[error^2]!=exact[%s]" % tag, det, None))
        used = nb * b
        au = np.zeros(L)
        au[:used] = w[:used] / w[:used].sum()
        vtrue = au @ C @ au                                 # true variance of the mean of the samples used
        r = e2_enum * (nb - 1) / nb / vtrue
        rb.append(r)
        summary.append(dict(b=b, n_blocks=nb, E_err2=e2_enum, true_var_of_mean=vtrue, ratio_after_removing_nB_over_nBm1=r))
        if equal_w and rho == 0.0:
            # i.i.d.: agreement with the true standard error, with exactly the (n_B-1) normalisation
            if abs(r - 1.0) > TOL_EXP:
                fails.append(("blocking_analysis:iid-error^2*(nB-1)/nB!=true-variance[%s]" % tag, dict(det, ratio_to_truth=r), None))
        if equal_w and rho > 0.0 and r > 1.0 + TOL_EXP:
            fails.append(("blocking_analysis:correlated-estimate-above-true-error[%s]" % tag, dict(det, ratio_to_truth=r), None))
    if equal_w and rho > 0.0 and len(rb) > 1:
        if any(rb[k + 1] <= rb[k] for k in range(len(rb) - 1)):
            fails.append(("blocking_analysis:correlated-estimates-do-not-grow-with-block-size", dict(ratios=rb, block_sizes=bs, rho=rho), None))
    if res is not None:
        res.add(states=N, transitions=N * (1 + len(bs)), evaluations=N * (2 + len(bs)), traces=N)
        res.guard("stat_paths", N)
        res.guard("stat_expectations", len(bs))
        res.guard("plateau_knife_edge_skipped_nonconstant", int((knife & (E != E[:, :1]).any(1)).sum()))
        res.guard("plateau_value", int((~np.isnan(plat_ref)).sum()))
        if equal_w and rho > 0.0 and len(rb) > 1:
            res.guard("markov_growth_checked")
        if equal_w and rho == 0.0:
            res.guard("iid_true_error_checked", len(bs))
        for k, b in enumerate(bs):
            res.nontrivial_values(("stat", ens["name"], L, b), refs[k][2])
    return fails, summary


def job_stat(job):
    res = Result()
    ens = job["ens"]
    last = None
    for L in ens["Ls"]:
        case = dict(part="stat", ens=ens, L=L, seed=job["seed"])
        fails, summary = stat_case(case, res)
        for sig, det, pathcase in fails:
            res.violation(sig, pathcase if pathcase is not None else case, det)
        last = dict(ensemble=ens["name"], L=L, values=ens_values(ens, job["seed"]), per_block_size=summary)
        # lengths ascend, so the first recorded counterexample of a signature is the smallest length that fails
    res.sample(last)
    return res


# ---------------------------------------------------------------------------- long AR(1) series through the quadratic form
def quad_case(case, res=None):
    """error_b^2 is a quadratic form in the samples (fixed weights).  Read Q off the implementation on the complete
    polarisation set {d_i, d_i + d_k}, verify it on dense probes, contract with the exact AR(1) covariance."""
    n = case["n"]
    wp = np.asarray(case["wpat"], float)
    w = wp[np.arange(n) % len(wp)]
    fails = []
    with Capture() as cap:
        bs = block_sizes_for(cap, n)
        nb_ = len(bs)
        diag = np.zeros((nb_, n))
        pair = np.zeros((nb_, n, n))       # error^2 of d_i + d_k
        e = np.zeros(n)
        ncalls = 0
        for i in range(n):
            e[:] = 0.0
            e[i] = 1.0
            _, _, rows = call_ba(cap, w, e)
            ncalls += 1
            for k, r in enumerate(rows):
                diag[k, i] = r[3] ** 2
        for i in range(n):
            for j in range(i + 1, n):
                e[:] = 0.0
                e[i] = 1.0
                e[j] = 1.0
                _, _, rows = call_ba(cap, w, e)
                ncalls += 1
                for k, r in enumerate(rows):
                    pair[k, i, j] = pair[k, j, i] = r[3] ** 2
        Qi = 0.5 * (pair - diag[:, :, None] - diag[:, None, :])
        # magnitude entering each reconstructed entry: bounds the effect of the 7-digit printed values
        Bud = 0.5 * (pair + diag[:, :, None] + diag[:, None, :])
        for k in range(nb_):
            Qi[k][np.arange(n), np.arange(n)] = diag[k]
            Bud[k][np.arange(n), np.arange(n)] = diag[k]
        # dense probes: the reconstructed form must reproduce the routine on non-basis inputs
        probes = [np.cos(1.3 * np.arange(n) + 0.2 * s) + 0.1 * (np.arange(n) % (3 + s)) for s in range(4)]
        for s, pv in enumerate(probes):
            _, _, rows = call_ba(cap, w, pv)
            ncalls += 1
            for k, r in enumerate(rows):
                q = pv @ Qi[k] @ pv
                tol = 2e-6 * (np.abs(pv) @ Bud[k] @ np.abs(pv)) + 2e-6 * r[3] ** 2
                if not abs(q - r[3] ** 2) <= tol:
                    fails.append(("blocking_analysis:error^2-not-a-quadratic-form-of-the-samples",
                                  dict(b=bs[k], n=n, probe=s, direct=r[3] ** 2, from_polarisation=q, tolerance=tol)))
    summ = []
    d = np.abs(np.arange(n)[:, None] - np.arange(n)[None, :])
    equal_w = len(set(w.tolist())) == 1
    for rho in case["rhos"]:
        C = rho ** d if rho != 0.0 else np.eye(n)     # unit-variance AR(1) covariance
        rb = []
        for k, b in enumerate(bs):
            nb, Q = qform(w, b)
            e2_impl = (Qi[k] * C).sum()
            e2_true = (Q * C).sum()
            tol = 2e-6 * (Bud[k] * np.abs(C)).sum()
            tag = "b=1" if b == 1 else "b>1"
            if not abs(e2_impl - e2_true) <= tol:
                fails.append(("blocking_analysis:E[error^2]!=exact[%s]" % tag,
                              dict(b=b, n_blocks=nb, n=n, rho=rho, E_err2_impl=e2_impl, E_err2_closed_form=e2_true,
                                   ratio=e2_impl / e2_true, tolerance=tol)))
            used = nb * b
            au = np.zeros(n)
            au[:used] = w[:used] / w[:used].sum()
            vtrue = au @ C @ au
            r = e2_impl * (nb - 1) / nb / vtrue
            rtol = tol * (nb - 1) / nb / vtrue
            rb.append(r)
            if equal_w and rho == 0.0 and abs(r - 1.0) > rtol:
                fails.append(("blocking_analysis:iid-error^2*(nB-1)/nB!=true-variance[%s]" % tag, dict(b=b, n=n, ratio_to_truth=r)))
            if equal_w and rho > 0.0 and r > 1.0 + rtol:
                fails.append(("blocking_analysis:correlated-estimate-above-true-error[%s]" % tag, dict(b=b, n=n, rho=rho, ratio_to_truth=r)))
        if equal_w and rho > 0.0 and any(rb[k + 1] <= rb[k] for k in range(len(rb) - 1)):
            fails.append(("blocking_analysis:correlated-estimates-do-not-grow-with-block-size", dict(ratios=rb, block_sizes=bs, rho=rho, n=n)))
        summ.append(dict(n=n, rho=rho, block_sizes=bs, E_err2_times_nBm1_over_nB_relative_to_true_variance=[round(x, 6) for x in rb]))
        if res is not None and equal_w and rho > 0.0:
            res.guard("ar1_growth_checked")
    if res is not None:
        res.add(states=ncalls, transitions=ncalls * nb_, evaluations=ncalls * nb_, traces=ncalls)
        res.guard("quadratic_form_entries", nb_ * n * (n + 1) // 2)
        res.nontrivial_values(("quad", n, tuple(wp)), Qi, 12)
    return fails, summ


def job_quad(job):
    res = Result()
    case = dict(part="quad", n=job["n"], wpat=job["wpat"], rhos=job["rhos"])
    fails, summ = quad_case(case, res)
    for sig, det in fails:
        res.violation(sig, case, det)
    res.sample(dict(part="quadratic-form", weights_pattern=job["wpat"], summary=summ))
    return res


# ============================================================================ reject_outliers
def median(xs):
    s = sorted(xs)
    n = len(s)
    return 0.5 * (s[(n - 1) // 2] + s[n // 2])


def outlier_ref(col, m):
    med = median(col)
    d = [abs(x - med) for x in col]
    mdev = median(d) + 1.0e-10
    score = [x / mdev for x in d]
    return [s < m for s in score], score


def outlier_data(word, obs, letters):
    """3-column table: the word in column `obs`, a different alphabet word and the row number in the others."""
    L = len(word)
    perm = {a: b for a, b in zip(letters, letters[1:] + letters[:1])}
    other = [perm[x] for x in word[::-1]]
    tagcol = [float(i) for i in range(L)]
    cols = [other, tagcol]
    cols.insert(obs, list(word))
    return np.array(cols, float).T


def outlier_case(case):
    su = _su()
    letters = tuple(case["letters"])
    word, obs = [float(x) for x in case["word"]], int(case["obs"])
    data = outlier_data(word, obs, letters)
    keep_ref, score = outlier_ref(word, 0.0)
    if case["m"] == "default":
        m = 10.0
        out, mask = su.reject_outliers(data.copy(), obs)
    else:
        m = score[int(case["m"][1:])] if isinstance(case["m"], str) else float(case["m"])
        out, mask = su.reject_outliers(data.copy(), obs, m)
    keep_ref = [s < m for s in score]
    mask = np.asarray(mask)
    fails = []
    det = dict(column=word, obs=obs, m=m, scores=score, kept_impl=mask.tolist(), kept_ref=keep_ref)
    if mask.shape != (len(word),) or mask.tolist() != keep_ref:
        only_boundary = mask.shape == (len(word),) and all(a == b or s == m for a, b, s in zip(mask.tolist(), keep_ref, score))
        fails.append(("reject_outliers:kept-rows!=(|x-med|/(MAD+1e-10)<m)" + ("[rows-with-score==m]" if only_boundary else ""), det))
    else:
        exp = data[np.array(keep_ref, bool)]
        if np.asarray(out).shape != exp.shape or not np.array_equal(np.asarray(out), exp):
            fails.append(("reject_outliers:returned-rows!=data[mask]", dict(det, out=np.asarray(out).tolist())))
    return fails, keep_ref, score


def job_outliers(job):
    res = Result()
    L, seed = job["L"], job["seed"]
    letters = OUTLIER_LETTERS[seed % 5]
    firsts = letters if job.get("first") is None else (letters[job["first"]],)
    for word in (((f,) + t) for f in firsts for t in itertools.product(letters, repeat=L - 1)):
        _, score = outlier_ref(list(word), 0.0)
        mlist = list(M_LETTERS) + ["default"] + ["s%d" % k for k in range(L) if score[k] not in score[:k]]
        for obs in range(3):
            for m in mlist:
                case = dict(part="outliers", letters=list(letters), word=list(word), obs=obs, m=m)
                fails, keep, sc = outlier_case(case)
                for sig, det in fails:
                    res.violation(sig, case, det)
                res.add(states=1, transitions=1, evaluations=1, traces=1)
                nrej = len(keep) - sum(keep)
                if nrej:
                    res.guard("outlier_cases_with_rejected_rows")
                if nrej and nrej < len(keep):
                    res.guard("outlier_cases_partial_rejection")
                if isinstance(m, str) and m != "default":
                    res.guard("outlier_boundary_cases")
                res.nontrivial((L, word, obs, str(m)) if 0 < nrej < len(keep) else [])
    res.sample(dict(part="outliers", L=L, letters=letters, m_letters=list(M_LETTERS) + ["default", "score of row k"], columns=3))
    return res


# ============================================================================ jackknife
def jk_ref(num, den):
    n = len(num)
    est = []
    for i in range(n):
        a = sum(num[k] for k in range(n) if k != i) / (n - 1)
        b = sum(den[k] for k in range(n) if k != i) / (n - 1)
        est.append(complex(a / b).real)
    mean = sum(est) / n
    var = sum((x - mean) ** 2 for x in est) / n
    return mean, math.sqrt((n - 1) * var), est


def jk_admissible(den):
    n = len(den)
    tot = sum(den)
    return abs(tot) > 1e-6 and all(abs(tot - den[i]) > 1e-6 for i in range(n))


def jk_case(case):
    su = _su()
    cplx = case.get("complex", False)
    num = np.array(case["num"], dtype=complex if cplx else float)
    den = np.array(case["den"], dtype=complex if cplx else float)
    m, s = su.jackknife_ratios(num, den)
    mr, sr, est = jk_ref(list(num), list(den))
    scale = max(1.0, max(abs(x) for x in est))
    fails = []
    det = dict(mean_impl=complex(m) if cplx else float(np.real(m)), sigma_impl=float(np.real(s)), mean_ref=mr, sigma_ref=sr, leave_one_out=est)
    if not (abs(complex(m) - mr) <= TOL * scale):
        fails.append(("jackknife_ratios:mean!=mean-of-leave-one-out-ratios", det))
    if not (abs(complex(s) - sr) <= TOL * scale):
        fails.append(("jackknife_ratios:sigma!=sqrt((n-1)/n*sum(dev^2))", det))
    return fails, sr


def job_jack(job):
    res = Result()
    L, seed = job["L"], job["seed"]
    sets = [(JK_NUM[seed % 5], JK_DEN[seed % 5], False)]
    if L <= job["Lc"]:
        sets.append((JK_NUM_C[seed % 2], JK_DEN_C[seed % 2], True))
    for NL, DL, cplx in sets:
        sig_vals = []
        dfirsts = DL if job.get("first") is None else (DL[job["first"]],)
        for den in (((f,) + t) for f in dfirsts for t in itertools.product(DL, repeat=L - 1)):
            if not jk_admissible(den):       # pre-check on the inputs: leave-one-out denominators must exist
                res.guard("jackknife_inadmissible_denominators")
                continue
            for num in itertools.product(NL, repeat=L):
                case = dict(part="jack", num=list(num), den=list(den), complex=cplx)
                fails, sr = jk_case(case)
                for sig, det in fails:
                    res.violation(sig, case, det)
                sig_vals.append(sr)
                res.add(states=1, transitions=1, evaluations=1, traces=1)
                res.guard("jackknife_complex_cases" if cplx else "jackknife_real_cases")
        res.nontrivial_values(("jk", L, cplx), np.array(sig_vals))
    res.sample(dict(part="jackknife", L=L, num_letters=[str(x) for x in sets[-1][0]], den_letters=[str(x) for x in sets[-1][1]]))
    return res


# ============================================================================ driver
def job(j):
    return {"words": job_words, "const": job_const, "long": job_long, "stat": job_stat, "quad": job_quad,
            "outliers": job_outliers, "jack": job_jack}[j["part"]](j)


def jobs_for(tier, seed):
    T = tier == "thorough"
    out = []
    # statistics first (longest jobs)
    sj = []
    for ens in ensembles(tier):
        base = 3 if ens["kind"] == "iid3" else 2
        cut = 10 if base == 3 else 16                      # lengths above this get a job of their own
        lo = [L for L in ens["Ls"] if L <= cut]
        sj.append((sum(base ** L for L in lo), dict(part="stat", ens=dict(ens, Ls=lo), seed=seed, tier=tier)))
        for L in ens["Ls"]:
            if L > cut:
                sj.append((base ** L, dict(part="stat", ens=dict(ens, Ls=[L]), seed=seed, tier=tier)))
    out += [j for _, j in sorted(sj, key=lambda t: -t[0])]
    for n in ((240, 120) if T else (100, 24)):
        out.append(dict(part="quad", n=n, wpat=[1.0], rhos=[0.0, 0.5, 0.8, 0.9], seed=seed))
    out.append(dict(part="quad", n=(60 if T else 24), wpat=[1.0, 2.0, 4.0], rhos=[0.0, 0.5], seed=seed))
    Lmax = 9 if T else 7
    Lcut = 7 if T else 6
    Linv = 6 if T else 5
    for L in range(Lmax, 3, -1):
        nchunks = {6: 4, 7: 8, 8: 16, 9: 64}.get(L, 1)
        for c in range(nchunks):
            out.append(dict(part="words", L=L, chunk=(c, nchunks), seed=seed, cuts=L <= Lcut, invariances=L <= Linv))
    out.append(dict(part="const", seed=seed, tier=tier))
    for n in (LONG_LENGTHS_THOROUGH if T else LONG_LENGTHS_QUICK):
        out.append(dict(part="long", n=n, seed=seed))
    for L in range((7 if T else 5), 2, -1):
        for f in (range(5) if L >= 5 else [None]):
            out.append(dict(part="outliers", L=L, first=f, seed=seed))
    for L in range((7 if T else 5), 2, -1):
        for f in (range(3) if L >= 5 else [None]):
            out.append(dict(part="jack", L=L, first=f, seed=seed, Lc=(6 if T else 5)))
    return out


def run(ctx):
    ctx.rule = ("blocking_analysis: every sample word over a 3-letter alphabet x every weight word over a 2-letter alphabet of "
                "length 4..7 (9 thorough), for lengths <= 6 (7) additionally every equilibration cut, for lengths <= 5 (6) 3 weight "
                "rescalings and 3 added constants; constant non-integer series x all weight words; periodic patterns extended to lengths that reach every "
                "entry of the block-size table; every path of i.i.d. 2-/3-point and two-state Markov series (persistence 1/2, 3/4, 7/8, asymmetric, "
                "anti-persistent; equal and patterned weights) of every length 4..14 (20/21) "
                "with its exact probability; the complete polarisation set of unit-sample series for lengths 24, 100 (120, 240). "
                "reject_outliers: every word of length 3..5 (7) over a 5-letter alphabet x 3 column positions x {6 fixed m, default m, "
                "m = score of each row}. jackknife_ratios: every numerator x denominator word of length 3..5 (7) over 3-letter real "
                "alphabets and 3..5 (6) over complex alphabets. A state is one (series, weights, cut/transform) input, one path, or one "
                "(table, column, m) input; distinct non-trivial = distinct non-zero reference error values per block size / sigma values "
                "/ partially rejected outlier inputs")
    ctx.assume("per-block-size estimates are read from the table blocking_analysis prints (7 significant digits); the returned mean and plateau value are compared at 1e-9")
    ctx.assume("the normalisation of the error is the documented one: unbiased weighted variance / (n_blocks - 1); 'true standard error' statements are taken with exactly that factor")
    ctx.assume("E[error_b^2] for long AR(1) series uses that error_b^2 is a quadratic form in the samples for fixed weights; this is verified on dense probe series")
    ctx.assume("the 5% plateau rule is compared except when the deciding comparison is within 1e-12 of equality (counted as plateau_knife_edge_skipped)")
    ctx.assume("jackknife inputs are float64 / complex128 arrays whose leave-one-out denominators are non-zero (pre-check on the inputs)")
    jobs = jobs_for(ctx.tier, ctx.seed)
    # wave 1: the smallest instance of every part, serially and in order, so that the first counterexample recorded
    # for a defect is the smallest one; then everything else in parallel
    small = [j for j in jobs if (j["part"] in ("words", "outliers", "jack") and j["L"] == min(k["L"] for k in jobs if k["part"] == j["part"]))]
    ctx.pmap(job, small, workers=1)
    ctx.pmap(job, [j for j in jobs if j not in small])
    ctx.violations.sort(key=_case_size)
    ctx.require_guard("plateau_none", "plateau_value", "constant_series", "equilibration_cut_cases", "weight_rescaling_cases",
                      "added_constant_cases", "stat_paths", "markov_growth_checked", "iid_true_error_checked", "ar1_growth_checked",
                      "outlier_cases_partial_rejection", "outlier_boundary_cases", "jackknife_real_cases", "jackknife_complex_cases",
                      "long_series_cases", "quadratic_form_entries")


def _case_size(v):
    c = v["case"]
    for k in ("samples", "word", "num"):
        if k in c:
            x = c[k]
            return len(x["__a__"]) if isinstance(x, dict) else len(x)
    return c.get("L", c.get("n", 0)) + 1000


def replay(case):
    part = case.get("part", "words")
    if part == "words":
        fails = ba_case(case)
    elif part == "long":
        fails = long_case(case)
    elif part == "stat":
        fails = [(s, d) for s, d, _ in stat_case(case)[0]]
    elif part == "quad":
        fails = quad_case(case)[0]
    elif part == "outliers":
        fails = outlier_case(case)[0]
    elif part == "jack":
        fails = jk_case(case)[0]
    else:
        raise ValueError(part)
    detail = {"failures": [s for s, _ in fails]}
    if fails:
        detail["first"] = fails[0][1]
    return (len(fails) > 0, detail)
