"""C15 -- observables are covariant under orthogonal orbital rotations; rotate_orbs is the congruence C^T X C.

Part A (job_congruence, gridmc): rotate_orbs is linear in (h1[0], h1[1], every Cholesky matrix) and quadratic in C, so
all unit matrices X = E_ij in every slot x the polarisation set C in {E_ab, E_ab + E_cd} decide it for every
(invertible or not) C and every Hamiltonian; dense non-orthogonal invertible members are added so that an accidental
non-polynomial implementation cannot hide.  Oracle: C^T X C in the slot, zero in every other slot, h0/ene0 untouched.

Part B (job_covariance, seqmc): breadth-first search over words of generators {Givens(i,j,theta), reflections,
transpositions}; state = accumulated rotation R (hashed after rounding).  Every transition applies the library's
rotate_orbs CUMULATIVELY to the already rotated ham_data; the harness rotates trial orbitals and walkers by the same
matrix (phi' = g^T phi).  Invariant in every state: energies and force biases equal those of the initial state, the
overlap ratio to the initial state is the same for every walker and equals 1; a state reached by two different words
must carry the same rotated Hamiltonian (confluence).  Two routes per state (differential oracle): (i) intermediates built
on a pristine dict holding the rotated h1/chol; (ii) the user's loop  ham_data = ham.rotate_orbs(ham_data, C); ham_data =
ham.build_measurement_intermediates(ham_data, trial, wave_data)  on the SAME dict, so rotate_orbs receives the parent
state's intermediates (rot_h1, rot_chol, ...) and the public handler has to replace every one of them.

Part C (job_history, seqmc): call histories on ONE source dict.  For every word of length 1..L over a small matrix menu
(orthogonal, invertible non-orthogonal, identity, permutation, Givens), on a raw source dict and on one that already holds
measurement intermediates: (i) after every rotate_orbs call the dict that was passed in is unchanged (same keys, every array
bitwise equal to a separately held NumPy copy) and the returned h1/chol equal the congruence computed from the held copies;
(ii) same-source route: every matrix applied to the same source dict gives the congruence of the held original with that
matrix; chained route: rotating the result again gives the congruence with the product; (iii) overlap / energy / force bias
measured from the source dict after the calls equal those measured before.
"""

import itertools

import numpy as np

from mc import alphabets as al
from mc import gridmc, trials
from mc.core import Result

ID = "C15"
TECHNIQUE = ("exhaustive basis x polarisation-set enumeration of the congruence rotate_orbs = C^T X C; breadth-first search over words of "
             "rotation generators applied cumulatively, invariants (energy, force bias, overlap ratio) checked in every state on two routes "
             "(pristine dict / dict carrying the parent's intermediates); every call history up to a length over a matrix menu on ONE source "
             "dict (input dict bitwise unchanged after each call, result = congruence of the held original, chained = product)")
TOL = 1e-9
TOL_CONG = 1e-12
KINDS = ["rhf", "uhf", "ghf", "noci"]
SPIN_DEP_KINDS = {"uhf", "ghf", "noci"}


def ham_handler(n):
    jnp, wf = trials.lib()
    from ad_afqmc import hamiltonian

    return hamiltonian.hamiltonian(n)


def lib_rotate(ham, h0, h1, chol, C, ene0=0.25):
    """One call of the library routine on a fresh dict.  chol: (g, n, n).  Returns (dict-as-numpy, raw dict)."""
    jnp, wf = trials.lib()
    n = h1.shape[-1]
    hd = {"h0": h0, "h1": jnp.asarray(np.asarray(h1, dtype=float)), "chol": jnp.asarray(np.asarray(chol, dtype=float).reshape(len(chol), n * n)),
          "ene0": ene0}
    out = ham.rotate_orbs(hd, jnp.asarray(np.asarray(C, dtype=float)))
    return dict(h0=float(out["h0"]), ene0=float(out["ene0"]), h1=np.asarray(out["h1"]), chol=np.asarray(out["chol"]).reshape(len(chol), n, n),
                keys=sorted(out.keys()))


# ----------------------------------------------------------------------------- part A: congruence
def units(n):
    out = []
    for i in range(n):
        for j in range(n):
            M = np.zeros((n, n))
            M[i, j] = 1.0
            out.append(((i, j), M))
    return out


def polarisation_set(n):
    """C in {E_ab} and {E_ab + E_cd : every unordered pair}: decides any map quadratic in C."""
    U = units(n)
    out = [("E%d%d" % ab, M) for ab, M in U]
    for x, (ab, M) in enumerate(U):
        for (cd, M2) in U[x + 1:]:
            out.append(("E%d%d+E%d%d" % (ab + cd), M + M2))
    return out


def dense_C(n, seed, k):
    """Generic non-orthogonal invertible matrices (well conditioned by construction: identity + bounded perturbation)."""
    rng = np.random.default_rng(5150 + 11 * seed + k)
    C = np.eye(n) + 0.35 * rng.uniform(-1, 1, size=(n, n))
    return C


def slots(n_chol):
    return [("h1", 0), ("h1", 1)] + [("chol", g) for g in range(n_chol)]


def place(n, n_chol, slot, X):
    h1 = np.zeros((2, n, n))
    chol = np.zeros((n_chol, n, n))
    (h1 if slot[0] == "h1" else chol)[slot[1]] = X
    return h1, chol


def congruence_case(ham, n, n_chol, slot, X, C):
    """Returns (error, detail): max deviation from  C^T X C in `slot`, 0 elsewhere, h0/ene0 unchanged."""
    h1, chol = place(n, n_chol, slot, X)
    out = lib_rotate(ham, 0.5, h1, chol, C)
    ref_h1, ref_chol = place(n, n_chol, slot, C.T @ X @ C)
    scale = max(1.0, np.abs(C.T @ X @ C).max())
    e = max(np.abs(out["h1"] - ref_h1).max(), np.abs(out["chol"] - ref_chol).max()) / scale
    e = max(e, abs(out["h0"] - 0.5), abs(out["ene0"] - 0.25))
    if not (np.isfinite(out["h1"]).all() and np.isfinite(out["chol"]).all()):
        e = np.inf
    return float(e), dict(impl_h1=out["h1"], impl_chol=out["chol"], ref_h1=ref_h1, ref_chol=ref_chol)


def job_congruence(cfg):
    res = Result()
    n, n_chol, seed = cfg["n"], cfg["n_chol"], cfg["seed"]
    ham = ham_handler(n)
    Cs = polarisation_set(n) + [("dense%d" % k, dense_C(n, seed, k)) for k in range(2)]
    conds = [np.linalg.cond(C) for lab, C in Cs if lab.startswith("dense")]
    assert max(conds) < 50, conds
    Xs = [("E%d%d" % ij, M) for ij, M in units(n)]
    rng = np.random.default_rng(77 + seed)
    Xs.append(("dense", rng.uniform(-1, 1, size=(n, n))))  # non-symmetric on purpose
    for slot in slots(n_chol):
        for xl, X in Xs:
            for cl, C in Cs:
                e, det = congruence_case(ham, n, n_chol, slot, X, C)
                res.add(states=1, transitions=1, evaluations=1, traces=1)
                ref = C.T @ X @ C
                if np.abs(ref).max() > 0:
                    res.nontrivial((n, n_chol, slot, xl, cl))
                    if np.abs(ref - ref.T).max() > 1e-12:
                        res.guard("congruence_cases_with_nonsymmetric_result")
                if not e <= TOL_CONG:
                    res.violation("rotate_orbs:congruence/%s" % slot[0], dict(cfg, slot=list(slot), X=xl, C=cl), dict(err=e, **det))
    # a dense Hamiltonian with everything filled at once: no cross-talk between slots
    h0, h1, chol = al.small_ham(n, n_chol, seed, spin_dependent=True)
    chol = chol + 0.3 * rng.uniform(-1, 1, size=chol.shape)  # not symmetric: "not merely its symmetric part"
    for cl, C in Cs[-2:] + [("frame", al.frame(n, seed, 9))]:
        out = lib_rotate(ham, h0, h1, chol, C)
        es = dict(h1=float(np.abs(out["h1"] - np.einsum("pi,spq,qj->sij", C, h1, C)).max()),
                  chol=float(np.abs(out["chol"] - np.einsum("pi,gpq,qj->gij", C, chol, C)).max()), h0=abs(out["h0"] - h0))
        res.add(states=1, transitions=1, evaluations=1, traces=1)
        res.nontrivial((n, n_chol, "dense-all", cl))
        for slot_name, e in es.items():
            if not e <= 1e-11:
                res.violation("rotate_orbs:congruence/%s" % slot_name, dict(cfg, slot=["all", 0], X="dense-all", C=cl), dict(err=float(e)))
    res.sample(dict(part="congruence", n=n, n_chol=n_chol, slots=[list(s) for s in slots(n_chol)], n_X=len(Xs), n_C=len(Cs)))
    return res


# ----------------------------------------------------------------------------- part B: covariance
def generators(n, thorough=False):
    """(label, matrix): Givens(i,j,theta) for theta in {pi/2, pi/3, 0.3}, reflections, transpositions."""
    out = []
    for (i, j) in itertools.combinations(range(n), 2):
        for tl, th in (("pi/2", np.pi / 2), ("pi/3", np.pi / 3), ("0.3", 0.3)):
            out.append(("G(%d,%d,%s)" % (i, j, tl), al.givens(n, i, j, th)))
    for i in range(n):
        M = np.eye(n)
        M[i, i] = -1.0
        out.append(("R(%d)" % i, M))
    for (i, j) in itertools.combinations(range(n), 2):
        M = np.eye(n)
        M[[i, j]] = M[[j, i]]
        out.append(("T(%d,%d)" % (i, j), M))
    return out


def state_key(R):
    return tuple((np.round(R, 7) + 0.0).ravel().tolist())


def rotate_wave_data(kind, wd, g, n):
    """Trial orbitals in the new basis: phi' = g^T phi (per spin block)."""
    jnp, wf = trials.lib()
    gt = g.T
    if kind == "rhf":
        return {"mo_coeff": jnp.asarray(gt @ np.asarray(wd["mo_coeff"]))}
    if kind == "uhf":
        return {"mo_coeff": [jnp.asarray(gt @ np.asarray(wd["mo_coeff"][0])), jnp.asarray(gt @ np.asarray(wd["mo_coeff"][1]))]}
    if kind == "ghf":
        B = np.zeros((2 * n, 2 * n))
        B[:n, :n] = gt
        B[n:, n:] = gt
        return {"mo_coeff": jnp.asarray(B @ np.asarray(wd["mo_coeff"]))}
    if kind == "noci":
        c, (du, dd) = wd["ci_coeffs_dets"]
        return {"ci_coeffs_dets": [c, [jnp.asarray(np.einsum("pq,dqk->dpk", gt, np.asarray(du))), jnp.asarray(np.einsum("pq,dqk->dpk", gt, np.asarray(dd)))]]}
    raise ValueError(kind)


def rotate_walkers(W, g):
    return [None if w is None else np.einsum("pq,wqk->wpk", g.T, w) for w in W]


def walker_alphabet(tc, n, na, nb, seed, mode):
    """A small alphabet of distinct generic complex walkers: first, a middle and the last point of the product grid."""
    grid = al.walker_grid(n, na, nb, seed, restricted=(mode == "r"), cap=4)
    Wa, Wb, _ = gridmc.lab_walkers(tc, grid, mode == "r")
    P = grid["P"]
    pick = sorted(set([0, P // 3, (2 * P) // 3 + 1 if (2 * P) // 3 + 1 < P else P - 1, P - 1]))
    return [Wa[pick], None if Wb is None else Wb[pick]]


def measure(trial, wd, raw, mode, W, n):
    """Library overlap / energy / force bias for the trial and walkers of one state on that state's rotated Hamiltonian."""
    jnp, wf = trials.lib()
    J = gridmc.jitted
    hd = gridmc.build_ham_data(n, raw["h0"], raw["h1"], raw["chol"], trial, wd)
    w = jnp.asarray(W[0]) if mode == "r" else [jnp.asarray(W[0]), jnp.asarray(W[1])]
    return (np.asarray(J(trial, "calc_overlap")(w, wd)), np.asarray(J(trial, "calc_energy")(w, hd, wd)),
            np.asarray(J(trial, "calc_force_bias")(w, hd, wd)))


def fresh_full(ham, trial, wd, raw, n):
    """The user's dictionary at the start of a loop: raw Hamiltonian + measurement intermediates built by the public handler."""
    jnp, wf = trials.lib()
    hd = {"h0": raw["h0"], "h1": jnp.asarray(np.asarray(raw["h1"], dtype=float)),
          "chol": jnp.asarray(np.asarray(raw["chol"], dtype=float).reshape(len(raw["chol"]), n * n)), "ene0": 0.0}
    return ham.build_measurement_intermediates(hd, trial, wd)


def carried_step(ham, trial, full, g, wd_new):
    """One iteration of  ham_data = ham.rotate_orbs(ham_data, C); ham_data = ham.build_measurement_intermediates(ham_data, trial,
    wave_data)  on the SAME dictionary: rotate_orbs receives a dict that already holds the parent state's intermediates."""
    jnp, wf = trials.lib()
    hd = ham.rotate_orbs(dict(full), jnp.asarray(np.asarray(g, dtype=float)))
    return ham.build_measurement_intermediates(hd, trial, wd_new)


def measure_with(trial, wd, hd, mode, W):
    jnp, wf = trials.lib()
    J = gridmc.jitted
    w = jnp.asarray(W[0]) if mode == "r" else [jnp.asarray(W[0]), jnp.asarray(W[1])]
    return (np.asarray(J(trial, "calc_overlap")(w, wd)), np.asarray(J(trial, "calc_energy")(w, hd, wd)),
            np.asarray(J(trial, "calc_force_bias")(w, hd, wd)))


def _leaves(x):
    if isinstance(x, (list, tuple)):
        out = []
        for y in x:
            out += _leaves(y)
        return out
    return [np.asarray(x)]


def stale_keys(full, clean):
    """Keys of the carried dictionary whose content differs from the dictionary built from scratch in the same state."""
    bad = []
    for k in sorted(clean.keys()):
        if k not in full:
            bad.append((k, np.inf))
            continue
        la, lb = _leaves(full[k]), _leaves(clean[k])
        e = np.inf if len(la) != len(lb) else 0.0
        if e == 0.0:
            for a, b in zip(la, lb):
                if a.shape != b.shape or not np.isfinite(a).all():
                    e = np.inf
                    break
                e = max(e, float(np.abs(a - b).max() / max(1.0, np.abs(b).max())) if b.size else 0.0)
        if not e <= 1e-10:
            bad.append((k, e))
    return bad


def carried_violation(res, cfg, kind, mode, word, gens, full, clean, errs):
    """One defect, one signature: name the stale entry of the dictionary when there is one."""
    sk = stale_keys(full, clean)
    if sk:
        sig = "build_measurement_intermediates-after-rotate_orbs:stale-%s" % sk[0][0]
    else:
        sig = "carried-ham_data/%s/%s:%s-not-invariant" % (kind, mode, sorted(k for k, e in errs.items() if not e <= TOL)[0])
    res.violation(sig, dict(cfg, what="carried", mode=mode, word=word),
                  dict(errs, stale=[[k, e] for k, e in sk], word=[gens[k][0] for k in word]))


def invariant_errors(m, m0):
    O, E, F = m
    O0, E0, F0 = m0
    ratio = O / O0
    fin = np.isfinite(ratio).all() and np.isfinite(E).all() and np.isfinite(F).all()
    if not fin:
        return dict(overlap_ratio=np.inf, energy=np.inf, force_bias=np.inf)
    return dict(overlap_ratio=float(max(np.abs(ratio - 1.0).max(), np.abs(ratio - ratio[0]).max())),
                energy=float(np.abs(E - E0).max() / max(1.0, np.abs(E0).max())),
                force_bias=float(np.abs(F - F0).max() / max(1.0, np.abs(F0).max())))


def cov_setup(cfg):
    kind, n, na, nb, seed = cfg["kind"], cfg["n"], cfg["na"], cfg["nb"], cfg["seed"]
    tc = trials.build(kind, n, na, nb, seed, cfg["variant"], full_basis=False)
    p = tc.params[-1]  # the dense parameter set (NOCI: all determinants present)
    modes = ["u"] + (["r"] if (tc.restricted_ok and na >= nb) else [])
    h0, h1, chol = al.small_ham(n, cfg["n_chol"], seed, spin_dependent=(kind in SPIN_DEP_KINDS), scale=0.5)
    raw0 = dict(h0=h0, h1=h1, chol=chol)
    W0 = {m: walker_alphabet(tc, n, na, nb, seed, m) for m in modes}
    return tc, p, modes, raw0, W0


def step(ham, raw, g):
    """One transition: the library rotates the (already rotated) Hamiltonian by generator g."""
    out = lib_rotate(ham, raw["h0"], raw["h1"], raw["chol"], g)
    return dict(h0=out["h0"], h1=out["h1"], chol=out["chol"])


def cumulative_errors(raw, raw0, R):
    ref_h1 = np.einsum("pi,spq,qj->sij", R, raw0["h1"], R)
    ref_chol = np.einsum("pi,gpq,qj->gij", R, raw0["chol"], R)
    sc = max(1.0, np.abs(ref_h1).max(), np.abs(ref_chol).max())
    bad = not (np.isfinite(raw["h1"]).all() and np.isfinite(raw["chol"]).all())
    return dict(h1=np.inf if bad else float(np.abs(raw["h1"] - ref_h1).max() / sc),
                chol=np.inf if bad else float(np.abs(raw["chol"] - ref_chol).max() / sc))


def job_covariance(cfg):
    res = Result()
    kind, n, na, nb, seed, depth = cfg["kind"], cfg["n"], cfg["na"], cfg["nb"], cfg["seed"], cfg["depth"]
    tc, p, modes, raw0, W0 = cov_setup(cfg)
    trial = gridmc.trial_for(tc, len(tc.params) - 1)
    ham = ham_handler(n)
    gens = generators(n)
    m0 = {m: measure(trial, p.wave_data, raw0, m, W0[m], n) for m in modes}
    for m in modes:
        res.nontrivial_values((kind, n, na, nb, m, "E0"), m0[m][1], 9)
    root = dict(R=np.eye(n), raw=raw0, wd=p.wave_data, W=W0, word=[], full=fresh_full(ham, trial, p.wave_data, raw0, n))
    visited = {state_key(root["R"]): root}
    frontier = [root]
    res.add(states=1)
    for d in range(1, depth + 1):
        nxt = []
        for st in frontier:
            for gi, (gl, g) in enumerate(gens):
                raw = step(ham, st["raw"], g)  # cumulative: the input is the already rotated Hamiltonian
                res.add(transitions=1, traces=1)
                R = st["R"] @ g
                key = state_key(R)
                word = st["word"] + [gi]
                # the routine is the congruence also on an already rotated Hamiltonian: compare with R^T X R of the ORIGINAL matrices
                ec = cumulative_errors(raw, raw0, R)
                res.add(evaluations=1)
                wrong = [slot for slot, e in ec.items() if not e <= 1e-10]
                if wrong:  # energies / force biases of this state would only echo the same defect: one defect, one signature
                    res.violation("rotate_orbs:congruence/%s" % wrong[0], dict(cfg, what="cumulative", word=word),
                                  dict(err=ec[wrong[0]], word=[gens[k][0] for k in word]))
                    res.guard("states_pruned_after_wrong_hamiltonian")
                    continue
                if key in visited:
                    old = visited[key]
                    e = max(np.abs(raw["h1"] - old["raw"]["h1"]).max(), np.abs(raw["chol"] - old["raw"]["chol"]).max())
                    res.guard("confluence_checks")
                    res.add(evaluations=1)
                    if old["word"] != word and not e <= 1e-10:
                        res.violation("rotate_orbs:two-words-one-state-different-hamiltonian",
                                      dict(cfg, what="confluence", word=word, other_word=old["word"]), dict(err=float(e)))
                    continue
                wd_new = rotate_wave_data(kind, st["wd"], g, n)
                # second route: the parent's dictionary WITH its intermediates goes through rotate_orbs, then the public handler rebuilds
                full = carried_step(ham, trial, st["full"], g, wd_new)
                res.add(transitions=2, traces=2)
                new = dict(R=R, raw=raw, wd=wd_new, W={m: rotate_walkers(st["W"][m], g) for m in modes}, word=word, full=full)
                visited[key] = new
                nxt.append(new)
                res.add(states=1)
                nonsym = np.abs(R - R.T).max() > 1e-6
                res.guard("states_with_nonsymmetric_rotation", int(nonsym))
                res.guard("states_at_depth_%d" % d)
                clean = fresh_full(ham, trial, new["wd"], raw, n)
                for m in modes:
                    errs = invariant_errors(measure_with(trial, new["wd"], clean, m, new["W"][m]), m0[m])
                    errs_c = invariant_errors(measure_with(trial, new["wd"], full, m, new["W"][m]), m0[m])
                    nw = len(W0[m][0])
                    res.add(evaluations=6 * nw, traces=6)
                    res.guard("carried_dict_states_measured")
                    if all(e <= TOL for e in errs.values()) and any(not e <= TOL for e in errs_c.values()):
                        carried_violation(res, cfg, kind, m, word, gens, full, clean, errs_c)
                    for what, e in errs.items():
                        if not e <= TOL:
                            res.violation("covariance/%s/%s:%s-not-invariant" % (kind, m, what),
                                          dict(cfg, what="invariant", mode=m, word=word), dict(err=e, quantity=what, word=[gens[k][0] for k in word]))
                res.nontrivial(key + (kind, na, nb))
        frontier = nxt
    res.sample(dict(part="covariance", kind=kind, n=n, nelec=[na, nb], depth=depth, n_generators=len(gens), generators=[g[0] for g in gens][:6],
                    modes=modes, states=len(visited)))
    return res


# ----------------------------------------------------------------------------- part C: call histories on ONE source dict
def history_menu(n, seed):
    """Small menu of rotation matrices: orthogonal, invertible non-orthogonal, identity, a permutation, a Givens rotation."""
    perm = np.eye(n)[:, list(range(1, n)) + [0]]
    return [("frame", al.frame(n, seed, 9)), ("dense", dense_C(n, seed, 0)), ("identity", np.eye(n)), ("perm", perm),
            ("G(0,1,0.3)", al.givens(n, 0, 1, 0.3))]


def hold(d):
    """Separately held NumPy copies of every leaf of a ham_data dict."""
    return {k: [np.array(x, copy=True) for x in _leaves(v)] for k, v in d.items()}


def modified_keys(d, held):
    """Keys of d that are missing / new / not bitwise equal to the held copies."""
    bad = [k for k in held if k not in d] + [k for k in d if k not in held]
    for k in held:
        if k in d:
            lv = _leaves(d[k])
            if len(lv) != len(held[k]) or any(a.shape != b.shape or a.dtype != b.dtype or not np.array_equal(a, b, equal_nan=True)
                                              for a, b in zip(lv, held[k])):
                bad.append(k)
    return sorted(set(bad))


def congruence_of(held, M, n):
    h1 = held["h1"][0]
    chol = held["chol"][0].reshape(-1, n, n)
    return np.einsum("pi,spq,qj->sij", M, h1, M), np.einsum("pi,gpq,qj->gij", M, chol, M)


def history_source(ham, trial, wd, raw0, n, flavour):
    """The user's source dictionary: raw integrals, or raw integrals + measurement intermediates of the original basis."""
    jnp, wf = trials.lib()
    if flavour == "with-intermediates":
        return fresh_full(ham, trial, wd, raw0, n)
    return {"h0": raw0["h0"], "h1": jnp.asarray(np.asarray(raw0["h1"], dtype=float)),
            "chol": jnp.asarray(np.asarray(raw0["chol"], dtype=float).reshape(len(raw0["chol"]), n * n)), "ene0": 0.0}


def history_word(ham, trial, wd, raw0, W0, modes, n, flavour, route, word, menu):
    """One history.  route 'same-source': every matrix of the word is applied to the SAME source dict (each result = congruence
    of the held original with that matrix).  route 'chained': the result is rotated again (result = congruence with the product).
    After EVERY call: the dict that was passed in is unchanged (keys, every array bitwise equal to its held copy) and the returned
    h1/chol equal the congruence computed from the held copies.  Finally the original-basis energy / force bias measured from
    the source dict equal those measured before the calls.  Returns (signature or None, detail, n_calls)."""
    jnp, wf = trials.lib()
    src = history_source(ham, trial, wd, raw0, n, flavour)
    held_src = hold(src)

    def meas(d):
        full = d if flavour == "with-intermediates" else ham.build_measurement_intermediates(d, trial, wd)
        return {m: measure_with(trial, wd, full, m, W0[m]) for m in modes}

    before = meas(src)
    bad = modified_keys(src, held_src)
    if bad:
        return "build_measurement_intermediates:input-dict-modified", dict(keys=bad), 0
    cur, held_cur, M = src, held_src, np.eye(n)
    calls = 0
    for k, li in enumerate(word):
        C = menu[li][1]
        inp, held_inp = (src, held_src) if route == "same-source" else (cur, held_cur)
        Mref = C if route == "same-source" else M @ C
        out = ham.rotate_orbs(inp, jnp.asarray(np.asarray(C, dtype=float)))
        calls += 1
        bad = modified_keys(inp, held_inp)
        if bad:
            return "rotate_orbs:input-dict-modified", dict(keys=bad, call=k, matrix=menu[li][0], returned_is_input=bool(out is inp)), calls
        bad = modified_keys(src, held_src)
        if bad:
            return "rotate_orbs:source-dict-modified-by-later-call", dict(keys=bad, call=k, matrix=menu[li][0]), calls
        ref_h1, ref_chol = congruence_of(held_src, Mref, n)
        sc = max(1.0, np.abs(ref_h1).max(), np.abs(ref_chol).max())
        o_h1, o_chol = np.asarray(out["h1"]), np.asarray(out["chol"]).reshape(-1, n, n)
        for slot, e in (("h1", np.abs(o_h1 - ref_h1).max() / sc), ("chol", np.abs(o_chol - ref_chol).max() / sc)):
            if not e <= 1e-11:
                return "rotate_orbs:congruence/%s" % slot, dict(err=float(e), call=k, matrix=menu[li][0]), calls
        extra = sorted(set(out.keys()) ^ set(inp.keys()))
        if extra or float(out["h0"]) != float(np.asarray(held_src["h0"][0])):
            return "rotate_orbs:keys-or-h0-changed", dict(keys=extra), calls
        cur, held_cur, M = out, hold(out), Mref
    after = meas(src)
    bad = modified_keys(src, held_src)
    if bad:
        return "build_measurement_intermediates:input-dict-modified", dict(keys=bad), calls
    for m in modes:
        for name, a, b in zip(("overlap", "energy", "force_bias"), after[m], before[m]):
            if not (np.isfinite(a).all() and np.abs(a - b).max() <= 1e-12 * max(1.0, np.abs(b).max())):
                return "rotate_orbs:source-dict-measurements-changed/%s" % name, dict(mode=m, err=float(np.abs(a - b).max())), calls
    return None, {}, calls


def job_history(cfg):
    res = Result()
    n, seed, L = cfg["n"], cfg["seed"], cfg["length"]
    tc, p, modes, raw0, W0 = cov_setup(cfg)
    trial = gridmc.trial_for(tc, len(tc.params) - 1)
    ham = ham_handler(n)
    menu = history_menu(n, seed)
    only = cfg.get("only")
    for flavour in ("raw", "with-intermediates"):
        for route in ("same-source", "chained"):
            for length in range(1, L + 1):
                for word in itertools.product(range(len(menu)), repeat=length):
                    if route == "chained" and length == 1:
                        continue  # identical to the same-source word of length 1
                    if only and (only != [flavour, route, list(word)]):
                        continue
                    sig, det, calls = history_word(ham, trial, p.wave_data, raw0, W0, modes, n, flavour, route, list(word), menu)
                    res.add(states=1, transitions=calls, evaluations=3 * calls + 2 * len(modes), traces=calls + 2)
                    res.guard("history_words_%s" % route)
                    res.guard("history_calls_on_a_dict_rotated_from_before", max(calls - 1, 0))
                    res.nontrivial((n, cfg["kind"], flavour, route, word))
                    if sig:
                        res.violation(sig, dict(cfg, what="history", flavour=flavour, route=route, word=list(word)),
                                      dict(det, word=[menu[k][0] for k in word], flavour=flavour, route=route))
    res.sample(dict(part="history", kind=cfg["kind"], n=n, nelec=[cfg["na"], cfg["nb"]], menu=[m[0] for m in menu], max_length=L,
                    flavours=["raw", "with-intermediates"], routes=["same-source", "chained"]))
    return res


# ----------------------------------------------------------------------------- driver
def job_count(cfg):
    """Length of the Cholesky list as an input axis: EVERY count in [lo, hi] (contiguous, no sampling) plus the given
    extra counts; dense non-symmetric vectors, dense non-orthogonal C; each vector judged on its own, so a routine that
    treats a block / remainder / last vector differently is named with the index of the first wrong vector."""
    res = Result()
    n, seed = cfg["n"], cfg["seed"]
    ham = ham_handler(n)
    rng = np.random.default_rng(1500 + seed)
    C = dense_C(n, seed, 0)
    h1 = rng.uniform(-1, 1, size=(2, n, n))
    for g in list(range(cfg["lo"], cfg["hi"] + 1)) + list(cfg.get("extra", [])):
        chol = rng.uniform(-1, 1, size=(g, n, n))
        try:
            out = lib_rotate(ham, 0.5, h1, chol, C)
            err = np.abs(out["chol"] - np.einsum("pi,gpq,qj->gij", C, chol, C)).reshape(g, -1).max(axis=1)
            e1 = float(np.abs(out["h1"] - np.einsum("pi,spq,qj->sij", C, h1, C)).max())
        except Exception as ex:  # a valid input: raising is a violation, not a harness error
            res.violation("rotate_orbs:raises", dict(cfg, n_chol=g), dict(exception=repr(ex)[:300]))
            continue
        res.add(states=1, transitions=1, evaluations=g + 2, traces=1)
        res.nontrivial((n, "count", g))
        res.guard("count_axis_lengths")
        if g > 128:
            res.guard("count_axis_lengths_above_128")
        if not (err.max() <= 1e-11 and e1 <= 1e-11):
            bad = [int(i) for i in np.nonzero(~(err <= 1e-11))[0]]
            res.violation("rotate_orbs:congruence/depends-on-number-of-cholesky-vectors", dict(cfg, n_chol=g),
                          dict(n_chol=g, first_wrong_vector=(bad[0] if bad else None), n_wrong_vectors=len(bad), err_chol=float(err.max()), err_h1=e1))
    res.sample(dict(part="count", n=n, lo=cfg["lo"], hi=cfg["hi"], extra=list(cfg.get("extra", []))))
    return res


def job(cfg):
    if cfg["part"] == "count":
        return job_count(cfg)
    if cfg["part"] == "history":
        return job_history(cfg)
    return job_congruence(cfg) if cfg["part"] == "congruence" else job_covariance(cfg)


def configs(tier, seed):
    thorough = tier == "thorough"
    out = [dict(part="congruence", n=n, n_chol=g, seed=seed, tier=tier) for n in (2, 3) for g in (1, 2)]
    if thorough:
        out.append(dict(part="congruence", n=4, n_chol=2, seed=seed, tier=tier))
    hi, step = (520, 40) if thorough else (280, 40)
    for lo in range(1, hi + 1, step):
        out.append(dict(part="count", n=2, lo=lo, hi=min(lo + step - 1, hi), seed=seed, tier=tier,
                        extra=([] if thorough else [511, 512, 513]) if lo == 1 else []))
    if thorough:
        out.append(dict(part="count", n=3, lo=120, hi=140, extra=[255, 256, 257, 1023, 1024, 1025], seed=seed, tier=tier))
    sizes = [(2, 1, 1), (2, 2, 1), (3, 1, 1), (3, 2, 1), (3, 2, 2), (4, 2, 1)] + ([(3, 2, 0), (3, 3, 1), (4, 2, 2), (4, 3, 1)] if thorough else [])
    for (n, na, nb) in sizes:
        for kind in KINDS:
            if not trials.admitted(kind, n, na, nb):
                continue
            variants = ["same", ""] if kind == "uhf" else [""]
            for v in variants:
                depth = (4 if n <= 3 else 3) if thorough else (3 if n <= 3 else 2)
                out.append(dict(part="covariance", kind=kind, n=n, na=na, nb=nb, variant=v, n_chol=2, depth=depth, seed=seed, tier=tier))
    hist = [("rhf", 2, 1, 1, ""), ("uhf", 3, 2, 1, "")] + ([("noci", 3, 2, 1, ""), ("ghf", 3, 2, 2, ""), ("uhf", 4, 2, 1, "same")] if thorough else [])
    for (kind, n, na, nb, v) in hist:
        out.append(dict(part="history", kind=kind, n=n, na=na, nb=nb, variant=v, n_chol=2, length=3 if thorough else 2, seed=seed, tier=tier))
    out.sort(key=lambda c: (c["part"] != "congruence", -c["n"], c.get("kind", "")))
    return out


def run(ctx):
    ctx.rule = ("part A: (norb, n_chol) x slot {h1[0], h1[1], chol[g]} x X in {every E_ij, dense non-symmetric} x C in {every E_ab, every pair sum "
                "E_ab+E_cd, dense non-orthogonal invertible}: rotate_orbs output = C^T X C in the slot, zero elsewhere; non-trivial = non-zero C^T X C; "
                "part A': the LENGTH of the Cholesky list as an axis: every count 1..280 [1..520] contiguously (+ 511..513 [+ 255..257, 1023..1025 at norb 3]) "
                "with dense non-symmetric vectors and a dense non-orthogonal C, each vector judged on its own against C^T L_g C; "
                "part B: trial kind {rhf, uhf, ghf, noci} x size x container x every word up to the depth over {Givens(i,j,theta) theta in {pi/2, pi/3, 0.3}, "
                "reflections, transpositions}; state = accumulated rotation (rounded hash); each transition = one library rotate_orbs on the already rotated "
                "Hamiltonian; in every new state calc_overlap / calc_energy / calc_force_bias on 4 generic complex walkers and the dense trial, rotated "
                "by the same matrix, equal the initial state's (ratio 1), on two routes: intermediates built on a pristine dict, and the parent state's dict "
                "WITH its intermediates passed through rotate_orbs and rebuilt by the public build_measurement_intermediates (stale entries are named by "
                "comparing the two dicts key by key); re-reached states compare their Hamiltonians (confluence); "
                "part C: (trial kind, size) x source-dict flavour {raw integrals, with measurement intermediates} x route {same-source: every matrix "
                "applied to the SAME source dict; chained: the result rotated again} x every word of length 1..L (L = 2 quick, 3 thorough) over the menu "
                "{orthogonal frame, dense invertible non-orthogonal, identity, cyclic permutation, Givens}; after EVERY rotate_orbs call the dict passed "
                "in has the same keys and every array bitwise equal to a separately held NumPy copy, the returned h1/chol equal the congruence computed "
                "from the held original (with the matrix / with the product), and overlap, energy and force bias measured from the source dict after the "
                "calls equal those measured before")
    ctx.assume("basis change for an orthogonal C: one-body and Cholesky matrices by the library (C^T X C), orbital coefficient vectors (trial orbitals, every NOCI determinant, walkers) by phi' = C^T phi; GHF orbitals by blockdiag(C^T, C^T)")
    ctx.assume("multi-Slater and CI-type trials are tied to their own orbital basis and are outside the property's quantifier (orbital-based trials)")
    ctx.assume("quadratic-in-C / linear-in-X degree class: the unit x polarisation sets decide the congruence for every real C and X; dense members guard against other implementations")
    ctx.pmap(job, configs(ctx.tier, ctx.seed))
    ctx.violations.sort(key=lambda v: (len(v["case"].get("word", [])), v["case"].get("n", 0), v["case"].get("n_chol", 0)))
    if ctx.violations:
        return
    ctx.require_guard("count_axis_lengths", "count_axis_lengths_above_128", "congruence_cases_with_nonsymmetric_result", "confluence_checks", "states_with_nonsymmetric_rotation", "states_at_depth_3",
                      "carried_dict_states_measured", "history_words_same-source", "history_words_chained",
                      "history_calls_on_a_dict_rotated_from_before")


def replay(case):
    cfg = dict(case)
    n, seed = cfg["n"], cfg["seed"]
    if cfg["part"] == "history":
        sub = {k: v for k, v in cfg.items() if k not in ("what", "flavour", "route", "word")}
        sub["only"] = [cfg["flavour"], cfg["route"], [int(x) for x in cfg["word"]]]
        r = job_history(sub)
        return (len(r.violations) > 0, {"violations": [dict(signature=x["signature"], detail=x["detail"]) for x in r.violations][:1]})
    if cfg["part"] == "count":
        g = int(cfg["n_chol"])
        r = job_count(dict({k: v for k, v in cfg.items() if k != "n_chol"}, lo=g, hi=g, extra=[]))
        return (len(r.violations) > 0, {"violations": [dict(signature=x["signature"], detail=x["detail"]) for x in r.violations][:1]})
    if cfg["part"] == "congruence":
        sub = {k: v for k, v in cfg.items() if k not in ("slot", "X", "C")}
        r = job_congruence(sub)
        v = [x for x in r.violations if x["case"]["X"] == cfg["X"] and x["case"]["C"] == cfg["C"] and list(x["case"]["slot"]) == list(cfg["slot"])]
        if not v:  # not among the first recorded ones: evaluate the single case directly
            ham = ham_handler(n)
            Cs = dict(polarisation_set(n) + [("dense%d" % k, dense_C(n, seed, k)) for k in range(2)])
            Xs = dict([("E%d%d" % ij, M) for ij, M in units(n)] + [("dense", np.random.default_rng(77 + seed).uniform(-1, 1, size=(n, n)))])
            if cfg["X"] in Xs and cfg["C"] in Cs:
                e, det = congruence_case(ham, n, cfg["n_chol"], tuple(cfg["slot"]), Xs[cfg["X"]], Cs[cfg["C"]])
                return (not e <= TOL_CONG, dict(err=e))
            return (False, {})
        return (True, dict(err=v[0]["detail"]["err"]))
    # covariance: replay the one word cumulatively
    kind = cfg["kind"]
    tc, p, modes, raw0, W0 = cov_setup(cfg)
    trial = gridmc.trial_for(tc, len(tc.params) - 1)
    ham = ham_handler(n)
    gens = generators(n)

    def run_word(word):
        raw, wd, W = raw0, p.wave_data, W0
        for gi in word:
            g = gens[gi][1]
            raw = step(ham, raw, g)
            wd = rotate_wave_data(kind, wd, g, n)
            W = {m: rotate_walkers(W[m], g) for m in modes}
        return raw, wd, W

    raw, wd, W = run_word(cfg["word"])
    if cfg["what"] == "carried":
        m = cfg["mode"]
        full = fresh_full(ham, trial, p.wave_data, raw0, n)
        wd_c = p.wave_data
        for gi in cfg["word"]:
            wd_c = rotate_wave_data(kind, wd_c, gens[gi][1], n)
            full = carried_step(ham, trial, full, gens[gi][1], wd_c)
        m0 = measure(trial, p.wave_data, raw0, m, W0[m], n)
        e_clean = invariant_errors(measure(trial, wd, raw, m, W[m], n), m0)
        e_carr = invariant_errors(measure_with(trial, wd, full, m, W[m]), m0)
        viol = all(e <= TOL for e in e_clean.values()) and any(not e <= TOL for e in e_carr.values())
        return (viol, dict(carried=e_carr, clean=e_clean, stale=[[k, e] for k, e in stale_keys(full, fresh_full(ham, trial, wd, raw, n))],
                           word=[gens[k][0] for k in cfg["word"]]))
    if cfg["what"] == "cumulative":
        R = np.eye(n)
        for gi in cfg["word"]:
            R = R @ gens[gi][1]
        ec = cumulative_errors(raw, raw0, R)
        return (any(not e <= 1e-10 for e in ec.values()), dict(ec, word=[gens[k][0] for k in cfg["word"]]))
    if cfg["what"] == "confluence":
        raw2, _, _ = run_word(cfg["other_word"])
        e = float(max(np.abs(raw["h1"] - raw2["h1"]).max(), np.abs(raw["chol"] - raw2["chol"]).max()))
        return (not e <= 1e-10, dict(err=e))
    m = cfg["mode"]
    errs = invariant_errors(measure(trial, wd, raw, m, W[m], n), measure(trial, p.wave_data, raw0, m, W0[m], n))
    return (any(not e <= TOL for e in errs.values()), dict(errs, word=[gens[k][0] for k in cfg["word"]]))
