"""C01 -- trial overlap equals <psi_T|phi>; restricted == unrestricted on equal blocks; batch order;
1-RDM of single-determinant / NOCI trials.  Engine: gridmc (exhaustive product grids)."""

import numpy as np

from mc import alphabets as al
from mc import fock, gridmc, trials
from mc.core import Result

ID = "C01"
TECHNIQUE = "exhaustive product-grid enumeration (config matrix x CI-parameter basis x walker grid) against a Fock-space reference"
TOL = 1e-9


def configs(tier, seed):
    thorough = tier == "thorough"
    out = []
    for kind in trials.KINDS_ALL:
        nmax = 4 if thorough else 3
        if kind in ("rhf", "uhf", "ghf") and thorough:
            nmax = 4
        for (n, na, nb) in al.sizes(nmax):
            if not trials.admitted(kind, n, na, nb):
                continue
            variants = [""]
            if kind in ("ghf", "ghf_cpmc"):
                variants = ["", "nonorth"] + (["complex", "complex_orth"] if kind == "ghf" else [])
            if kind == "rhf":
                variants = ["", "nonorth", "complex", "complex_orth"]
            if kind in ("uhf", "uhf_cpmc"):
                variants = ["same", "", "nonorth"] + (["complex_same", "complex", "complex_orth"] if kind == "uhf" else [])
            if kind in ("UCISD", "ucisd"):
                variants = ["", "nonorth"]  # non-orthonormal beta orbital basis (overlap statement only)
            if kind == "noci":
                variants = (["", "3det", "nonorth"] if thorough else ["", "nonorth"]) + ["complex", "complex_orth"]
            if kind == "multislater":
                ndet = len(trials.all_dets(n, na, nb))
                variants = ["ref:%d" % k for k in range(ndet)] if (thorough or ndet <= 4) else \
                    ["ref:%d" % k for k in sorted(set([0, 1, ndet // 2, ndet - 2, ndet - 1]))]
            for v in variants:
                out.append(dict(kind=kind, n=n, na=na, nb=nb, variant=v, seed=seed, tier=tier))
        # a slice of 4-orbital systems in the quick tier
        if not thorough:
            for (n, na, nb) in [(4, 2, 2), (4, 2, 1)]:
                if trials.admitted(kind, n, na, nb):
                    v = {"uhf": "same", "uhf_cpmc": "same", "multislater": "ref:0"}.get(kind, "")
                    out.append(dict(kind=kind, n=n, na=na, nb=nb, variant=v, seed=seed, tier=tier, lite=True))
    # minority-spin-up sectors (n_dn > n_up): admissible for unrestricted walkers only (a restricted walker holds the
    # majority block first); every kind that admits the mirrored sector must admit these
    for kind in trials.KINDS_ALL:
        for (n, na, nb) in ([(3, 1, 2), (4, 1, 2), (4, 1, 3), (4, 2, 3)] if thorough else [(3, 1, 2)]):
            if trials.admitted(kind, n, nb, na) and trials.admitted(kind, n, na, nb) and kind not in trials.CLOSED_ONLY:
                v = {"uhf": "", "uhf_cpmc": "", "multislater": "ref:0"}.get(kind, "")
                out.append(dict(kind=kind, n=n, na=na, nb=nb, variant=v, seed=seed, tier=tier, lite=(n == 4)))
    cost = lambda c: -((3 if c["kind"] in ("multislater", "GCISD", "UCISD", "ucisd") else 1) * (3 ** (c["n"] * c["na"]) + 2 ** (c["n"] * (c["na"] + c["nb"]))))
    out.sort(key=cost)
    return out


def _sig(kind, mode, entry, plabel, tc):
    s = "%s/%s/%s/%s" % (kind, mode, entry, gridmc.param_class(plabel))
    if kind == "multislater":
        s += "/" + ref_class(tc)
    return s


def ref_class(tc):
    """Does the reference determinant's occupied-orbital numbering coincide with occupied *positions*
    (after JAX's index clamping)?  -- the distinction behind finding F5."""
    out = []
    for occ, ne in ((tc.ref[0], tc.na), (tc.ref[1], tc.nb)):
        idx = [i for i, x in enumerate(occ) if x]
        ok = all(min(o, ne - 1) == k for k, o in enumerate(idx))
        out.append("pos-ok" if ok else "pos-shifted")
    return "ref[a:%s,b:%s]" % tuple(out)


def eval_overlap(tc, ip, mode, entry, nbatch, Wa, Wb):
    """One library evaluation of the overlap over the whole batch of walkers."""
    jnp, wf = trials.lib()
    from jax import vmap

    p = tc.params[ip]
    trial = gridmc.with_batch(gridmc.trial_for(tc, ip), nbatch)
    J = gridmc.jitted
    if mode == "u":
        ja, jb = jnp.asarray(Wa), jnp.asarray(Wb)
        if entry == "eager":
            return np.asarray(trial.calc_overlap([ja, jb], p.wave_data))
        if entry == "batched":
            return np.asarray(J(trial, "calc_overlap")([ja, jb], p.wave_data))
        return np.asarray(J(trial, "_calc_overlap", (0, 0, None))(ja, jb, p.wave_data))
    jw = jnp.asarray(Wa)
    if entry == "eager":
        return np.asarray(trial.calc_overlap(jw, p.wave_data))
    if entry == "batched":
        return np.asarray(J(trial, "calc_overlap")(jw, p.wave_data))
    if entry == "single":
        return np.asarray(J(trial, "_calc_overlap_restricted", (0, None))(jw, p.wave_data))
    if entry == "r-vs-u":  # unrestricted entry point on the equal spin blocks
        return np.asarray(J(trial, "_calc_overlap", (0, 0, None))(
            jw[:, :, : tc.na], jw[:, :, : tc.nb], p.wave_data))
    raise ValueError(entry)


def job(cfg):
    res = Result()
    kind, n, na, nb, seed = cfg["kind"], cfg["n"], cfg["na"], cfg["nb"], cfg["seed"]
    thorough = cfg["tier"] == "thorough"
    lite = cfg.get("lite", False)
    # kinds whose quantifier starts at n_dn >= 1: an empty spin channel is outside the property's domain;
    # whether the kind raises or not is recorded, never judged
    if nb == 0 and kind in trials.NEED_BOTH_SPINS:
        try:
            tc = trials.build(kind, n, na, nb, seed, cfg["variant"], full_basis=False)
            grid = al.walker_grid(n, na, nb, seed, restricted=False)
            Wa, Wb, Phi = gridmc.lab_walkers(tc, grid, False)
            eval_overlap(tc, 0, "u", "single", 1, Wa[:2], Wb[:2])
            res.guard("outside_domain_empty_spin_channel_no_exception")
        except Exception:
            res.guard("outside_domain_empty_spin_channel_refused")
        return res
    tc = trials.build(kind, n, na, nb, seed, cfg["variant"], full_basis=(not lite) and (thorough or kind != "multislater" or n <= 2))
    sec = fock.sector(n, na, nb)
    modes = []
    if tc.unrestricted_ok:
        modes.append("u")
    if tc.restricted_ok and na >= nb:
        modes.append("r")
    for mode in modes:
        grid = al.walker_grid(n, na, nb, seed, restricted=(mode == "r"))
        if grid["capped"]:
            res.cap("%s n=%d (%d,%d) %s grid capped: %d of %d entries free" % (kind, n, na, nb, mode, len(grid["free"]), grid["entries"]))
        Wa, Wb, Phi = gridmc.lab_walkers(tc, grid, mode == "r")
        P = grid["P"]
        bcs = gridmc.batch_counts(P, thorough)
        if kind == "multislater":  # both reference blocks must be invertible at every grid point (Wick expansion)
            ra = [i for i, x in enumerate(tc.ref[0]) if x]
            rb = [i for i, x in enumerate(tc.ref[1]) if x]
            Wbb = Wa[:, :, :nb] if mode == "r" else Wb
            dmin = min(np.abs(np.linalg.det(Wa[:, ra, :na])).min(), np.abs(np.linalg.det(Wbb[:, rb, :])).min())
            if dmin < 1e-3:
                res.cap("multislater %s mode %s: a reference block is singular on the grid (min|det|=%.1e); configuration not decided" % (cfg["variant"], mode, dmin))
                continue
        for ip, p in enumerate(tc.params):
            O_ref = np.conj(p.ket) @ Phi
            scale = np.abs(O_ref).max()
            if not np.isfinite(scale) or scale < 1e-6:
                raise RuntimeError("reference overlap degenerate for %r" % (cfg,))
            entries = [("eager", 1)] + [("batched", k) for k in bcs] + [("single", 1)]
            if mode == "r" and tc.unrestricted_ok:
                entries.append(("r-vs-u", 1))
            if ip > 0 and not thorough:
                entries = [("batched", bcs[-1])]  # parameter basis: one entry point is enough (linear in params)
            for entry, k in entries:
                O = eval_overlap(tc, ip, mode, entry, k, Wa, Wb)
                err = np.abs(O - O_ref) / np.maximum(np.abs(O_ref), 1e-3 * scale)
                err = np.where(np.isfinite(O), err, np.inf)
                res.add(states=P, transitions=P, evaluations=P, traces=P)
                bad = gridmc.first_bad(err, TOL)
                if bad is not None:
                    case = dict(cfg, mode=mode, entry=entry, n_batch=k, ip=ip, label=p.label, point=bad)
                    res.violation(_sig(kind, mode, entry, p.label, tc), case,
                                  dict(impl=O[bad], ref=O_ref[bad], relerr=float(err[bad]),
                                       n_bad=int((~(err <= TOL)).sum()), n_points=P,
                                       walker_up=Wa[bad], walker_dn=None if Wb is None else Wb[bad]))
            if ip == 0 or p.label == "dense":
                res.nontrivial_values((kind, n, na, nb, cfg["variant"], mode, p.label), O_ref, 10)
        res.guard("grid_points_" + mode, P)
    res.sample(dict(kind=kind, n=n, nelec=[na, nb], variant=cfg["variant"], modes=modes,
                    n_param_sets=len(tc.params), param_labels=[p.label for p in tc.params][:6],
                    first_walker_up=Wa[1].tolist() if False else str(np.round(Wa[1], 3).tolist())))
    # one-particle density matrix
    if kind in ("rhf", "uhf", "ghf", "noci") and cfg["variant"] in ("", "same", "3det", "complex_orth"):
        jnp, wf = trials.lib()
        for p in tc.params:
            if kind == "noci" and p.label != "dense" and not thorough:
                continue
            trial = gridmc.trial_for(tc, 0)
            wdh = dict(p.wave_data)  # caller-owned dictionary used for the whole history below
            keys0 = sorted(wdh)
            d_impl = np.asarray(trial.get_rdm1(wdh))
            if kind == "ghf":  # a GHF state lives in the full N-particle space, not in one spin sector
                full = sec.space.sd_vector(np.asarray(p.wave_data["mo_coeff"]))
                d_ref = fock.rdm1_full(n, na + nb, full)
            else:
                d_ref = fock.rdm1(p.ket, sec)
            if cfg["variant"].startswith("complex"):
                # complex orbitals: the density matrix is Hermitian, not symmetric; "<a+ a>" leaves the index order open,
                # so either <a+_p a_q> or its transpose <a+_q a_p> is accepted (uhf reports C C^dagger, the latter)
                d_ref_sym = d_ref
                e = min(np.abs(d_impl - d_ref).max(), np.abs(d_impl - d_ref.transpose(0, 2, 1)).max())
            else:
                d_ref_sym = 0.5 * (d_ref + d_ref.transpose(0, 2, 1))
                e = np.abs(d_impl - d_ref_sym).max()
            res.add(states=1, transitions=1, evaluations=1, traces=1)
            if not e <= 1e-9:
                res.violation("%s/rdm1" % kind, dict(cfg, entry="rdm1", label=p.label), dict(err=float(e), impl=d_impl, ref=d_ref_sym))
            # histories on ONE caller-owned dictionary: the getter must not write into it, and after the parameters in
            # that same dictionary are replaced (by hand, as optimize() does) the next call reports the NEW state
            if sorted(wdh) != keys0:
                res.violation("%s/rdm1-getter-modifies-wave-data" % kind, dict(cfg, entry="rdm1-history", label=p.label),
                              dict(keys_before=keys0, keys_after=sorted(wdh)))
            tcB = trials.build(kind, n, na, nb, seed + 1, cfg["variant"], full_basis=False)
            pB = tcB.params[-1]
            for kk in pB.wave_data:
                wdh[kk] = pB.wave_data[kk]
            d2 = np.asarray(trial.get_rdm1(wdh))
            if kind == "ghf":
                d2_ref = fock.rdm1_full(n, na + nb, sec.space.sd_vector(np.asarray(pB.wave_data["mo_coeff"])))
            else:
                d2_ref = fock.rdm1(pB.ket, sec)
            e2 = min(np.abs(d2 - d2_ref).max(), np.abs(d2 - d2_ref.transpose(0, 2, 1)).max())
            res.add(transitions=1, evaluations=1)
            res.guard("rdm1_second_call_after_parameter_change", 1)
            if not e2 <= 1e-9:
                res.violation("%s/rdm1-stale-after-parameter-change" % kind, dict(cfg, entry="rdm1-history", label=p.label),
                              dict(err=float(e2), impl=d2, ref=d2_ref))
            # a supplied rdm1 is returned untouched
            marker = np.arange(2 * n * n, dtype=float).reshape(2, n, n) / 7.0
            wd2 = dict(p.wave_data)
            wd2["rdm1"] = jnp.asarray(marker)
            if not np.array_equal(np.asarray(trial.get_rdm1(wd2)), marker):
                res.violation("%s/rdm1-supplied" % kind, dict(cfg, entry="rdm1-supplied", label=p.label), {})
            res.guard("rdm1_checked")
    return res


def run(ctx):
    ctx.rule = ("configurations = trial kind x (norb, n_up, n_dn) x variant (orthonormal / non-orthonormal orbitals, "
                "every reference determinant for multi-Slater) x trial-parameter basis (zero, every unit CI coefficient, dense) "
                "x entry point (batched with several batch counts, single-walker vmap, restricted vs unrestricted) x the full "
                "product grid of walker matrices (2 non-real letters per entry unrestricted, 3 restricted); a state is one "
                "(configuration, parameter set, walker); non-trivial & distinct = distinct non-zero reference overlap values")
    ctx.assume("CI coefficients real (the library documents real coefficients); orbitals real, and complex for rhf/uhf/ghf/noci (variants complex, complex_orth); CI-kind beta/GHF bases orthogonal")
    ctx.assume("grid decides the polynomial identity exactly for implementations of degree <= 1 (unrestricted) / <= 2 (restricted) per walker entry; dense exhaustive test otherwise")
    ctx.pmap(job, configs(ctx.tier, ctx.seed), tasks_per_child=2)
    ctx.require_guard("grid_points_u", "grid_points_r", "rdm1_checked", "rdm1_second_call_after_parameter_change")


def replay(case):
    """Plain single-point driver: rebuild the trial and the one walker, compare library vs reference."""
    cfg = case
    tc = trials.build(cfg["kind"], cfg["n"], cfg["na"], cfg["nb"], cfg["seed"], cfg["variant"],
                      full_basis=(not cfg.get("lite", False)) and (cfg["tier"] == "thorough" or cfg["kind"] != "multislater" or cfg["n"] <= 2))
    sec = fock.sector(cfg["n"], cfg["na"], cfg["nb"])
    if cfg.get("entry") in ("rdm1", "rdm1-supplied", "rdm1-history") or "what" in cfg:
        res = job(dict(cfg))
        v = [x for x in res.violations]
        return (len(v) > 0, {"violations": [x["signature"] for x in v]})
    mode = cfg["mode"]
    grid = al.walker_grid(cfg["n"], cfg["na"], cfg["nb"], cfg["seed"], restricted=(mode == "r"))
    Wa, Wb, Phi = gridmc.lab_walkers(tc, grid, mode == "r")
    i = cfg["point"]
    ip = [k for k, q in enumerate(tc.params) if q.label == cfg["label"]][0]
    p = tc.params[ip]
    O_ref = (np.conj(p.ket) @ Phi)
    scale = np.abs(O_ref).max()
    sl = slice(i, i + 1)
    O = eval_overlap(tc, ip, mode, "single" if cfg["entry"] in ("batched", "eager") else cfg["entry"], 1,
                     Wa[sl], None if Wb is None else Wb[sl])[0]
    if cfg["entry"] in ("batched", "eager"):  # batch-order bugs need the whole batch
        Ofull = eval_overlap(tc, ip, mode, cfg["entry"], cfg["n_batch"], Wa, Wb)
        O = Ofull[i]
    err = abs(O - O_ref[i]) / max(abs(O_ref[i]), 1e-3 * scale)
    return (not err <= TOL, dict(impl=O, ref=O_ref[i], relerr=float(err)))
