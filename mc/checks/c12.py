"""C12 -- all sampler entry points compute the same, correct block estimator.

Engine: seqmc over the option matrix with a virtual random source: for every cell (walker type x block
structure x batch count x entry point) EVERY random stream over a small field/offset alphabet is run on the
real sampler; oracles: callable, equal energies for equal block structure, single-block estimator recomputed
with public calls (capping exercised), bit-reproducibility, batch-count independence."""

import hashlib
import json
import os
import shutil

import numpy as np

from mc import alphabets as al
from mc import gridmc, samplers, vrng
from mc.core import Result, digest, enc

ID = "C12"
TECHNIQUE = "exhaustive enumeration of the sampler option matrix x every random stream of a virtual RNG over a 3-letter field alphabet (bounded number of varying draws), differential oracle between entry points and a public-call recomputation"

ENTRIES = ["plain", "ad", "ad_norot", "ad_nosr", "ad_nosr_norot", "ad_1"]
LETTERS = [0.0, 1.7, -1.7]
ULETTERS = [0.2, 0.8]
NW = 4


def configs(tier, seed):
    thorough = tier == "thorough"
    structs = [(1, 1, 1), (2, 2, 2), (2, 1, 2), (1, 2, 1)] if not thorough else \
        [(a, b, c) for a in (1, 2) for b in (1, 2) for c in (1, 2)]
    out = []
    for wt in ("restricted", "unrestricted"):
        for (ns, ne, nsr) in structs:
            out.append(dict(kind="sampler", wt=wt, n_steps=ns, n_ene=ne, n_sr=nsr, seed=seed, tier=tier))
    # one duplicated cell per walker type, executed in a different worker process: bit-reproducibility across processes
    for wt in ("restricted", "unrestricted"):
        out.append(dict(kind="sampler", wt=wt, n_steps=2, n_ene=2, n_sr=2, seed=seed, tier=tier, dup=True))
    return out


def filler(shape, salt):
    """Deterministic non-trivial filler for the draw positions that are not enumerated."""
    n = int(np.prod(shape))
    vals = np.array([0.6, -0.9, 0.3, 1.1, -0.4, 0.8, -1.2, 0.5])
    return vals[(np.arange(n) * 3 + salt) % len(vals)].reshape(shape)


def make_tables(cfg, D):
    """Stream tables for a block structure.  The first D scalar positions (spread over the normal draws:
    first walker/step entries of each draw) run over every word of LETTERS; the rest is the filler."""
    ns, ne, nsr = cfg["n_steps"], cfg["n_ene"], cfg["n_sr"]
    shape = (ns, NW, 1)
    normal_draws, uniform_draws, n_draws = samplers.schedule("plain", nsr, ne)
    per = int(np.prod(shape))
    nd = len(normal_draws)
    base = np.concatenate([filler(shape, 5 * k).ravel() for k in range(nd)])
    # varying positions: round-robin over draws
    pos = []
    k = 0
    while len(pos) < D:
        d = k % nd
        off = k // nd
        if off < per:
            pos.append(d * per + off)
        k += 1
    W = vrng.words(LETTERS, D)
    nwords = np.repeat(base[None, :], len(W), axis=0)
    nwords[:, pos] = W
    uwords = vrng.words(ULETTERS, len(uniform_draws))
    tn, tu = vrng.stream_tables(n_draws, shape, nwords, uwords, normal_draws, uniform_draws)
    return tn, tu, len(W) * max(1, len(uwords))


def job(cfg):
    res = Result()
    thorough = cfg["tier"] == "thorough"
    wt = cfg["wt"]
    n, na, nb = (3, 1, 1) if wt == "restricted" else (3, 2, 1)
    sysd = samplers.system(n, na, nb, 1, cfg["seed"], wt, scale=0.7, spin_dep=(wt == "unrestricted"))
    # 4 field positions in both tiers (162-324 streams per cell).  A fifth position (486-972 streams) did not complete:
    # the stream tables are baked into every compiled entry point as constants and compile time, not run time, explodes
    # (> 100 min per cell); the thorough tier therefore widens the block-structure and driver matrices instead.
    D = 4
    tn, tu, S = make_tables(cfg, D)
    vr = vrng.install(tn, tu)
    L = samplers.lib()
    jnp, jax = L["jnp"], L["jax"]
    samp = L["sampling"].sampler(cfg["n_steps"], cfg["n_ene"], cfg["n_sr"], 1)
    dt = 0.1
    energies = {}
    digests = {}
    cell = "%s/steps%d-ene%d-sr%d" % (wt, cfg["n_steps"], cfg["n_ene"], cfg["n_sr"])
    for nbatch in ((1, 2) if not cfg.get("dup") else (1,)):
        B = samplers.build(sysd, wt, NW, dt=dt, n_batch=nbatch)
        if (cfg["n_steps"] + cfg["n_ene"] + cfg["n_sr"]) % 2 == 0:
            # in half of the cells the density supplied for the mean-field shift is not the trial's own (a legal input):
            # every entry point must keep using the SUPPLIED one, with or without orbital relaxation
            pert = 0.06 * al.dense_sym(n, cfg["seed"], 37)
            B = samplers.with_rdm1(B, np.asarray(B["wave_data"]["rdm1"]) + np.array([pert, pert]))
            res.guard("cells_with_a_supplied_density_other_than_the_trials", 1)
        pd0 = samplers.fresh_prop_data(B, vrng.key(0))
        e_true = float(pd0["e_estimate"])
        for entry in ENTRIES:
            obs = None
            if entry == "ad_1":
                obs = jnp.asarray(samplers.eri_from_chol(sysd["chol"], n))
            E = np.zeros(S)
            Wts = np.zeros((S, NW))
            for est_letter in ("init", "far"):
                streams = range(S) if est_letter == "init" else range(0, S, max(1, S // 9))
                for s in streams:
                    pd = samplers.copy_pd(pd0)
                    pd["key"] = vrng.key(s)
                    if est_letter == "far":
                        pd["e_estimate"] = jnp.asarray(e_true + 3.0 * np.sqrt(2.0 / dt))
                    try:
                        e, pdo = samplers.call_entry(B, samp, entry, pd, 1.0 if entry == "ad_1" else 0.0, obs)
                    except Exception as ex:
                        res.violation("%s/%s/not-callable:%s" % (entry, wt, type(ex).__name__),
                                      dict(cfg, entry=entry, n_batch=nbatch, stream=s, what="callable"),
                                      dict(error=str(ex)[:300]))
                        break
                    e = float(e)
                    res.add(states=1, transitions=1, evaluations=1, traces=1)
                    if est_letter == "init":
                        E[s] = e
                        Wts[s] = np.asarray(pdo["weights"])
                    # single energy block, no comb afterwards: estimator recomputed with public calls
                    if cfg["n_ene"] == 1 and entry in ("ad_nosr", "ad_nosr_norot"):
                        w = np.asarray(pdo["weights"])
                        el = np.real(np.asarray(gridmc.jitted(B["trial"], "calc_energy")(pdo["walkers"], B["ham_data"], B["wave_data"])))
                        est = float(pd["e_estimate"])
                        capped = np.where(np.abs(el - est) <= np.sqrt(2.0 / dt), el, est)
                        ref = float(np.sum(w * capped) / np.sum(w))
                        res.guard("capped_samples", int((capped != el).sum()))
                        res.guard("estimator_recomputed", 1)
                        if not abs(e - ref) <= 1e-9 * max(1.0, abs(ref)):
                            res.violation("%s/%s/single-block-estimator" % (entry, wt),
                                          dict(cfg, entry=entry, n_batch=nbatch, stream=s, est=est_letter, what="estimator"),
                                          dict(impl=e, ref=ref, weights=w, local=el))
                    # the killed-walker fraction is a fraction
                    kf = float(pdo["n_killed_walkers"])
                    if not (0.0 <= kf <= 1.0):
                        res.violation("%s/%s/killed-fraction" % (entry, wt), dict(cfg, entry=entry, n_batch=nbatch, stream=s, what="killed"), dict(value=kf))
                else:
                    continue
                break
            else:
                # repeat the first and last stream: bit-identical in the same process
                for s in (0, S - 1):
                    pd = samplers.copy_pd(pd0)
                    pd["key"] = vrng.key(s)
                    e2, pdo2 = samplers.call_entry(B, samp, entry, pd, 1.0 if entry == "ad_1" else 0.0, obs)
                    if float(e2) != E[s] or not np.array_equal(np.asarray(pdo2["weights"]), Wts[s]):
                        res.violation("%s/%s/not-bit-reproducible" % (entry, wt), dict(cfg, entry=entry, n_batch=nbatch, stream=s, what="repeat"),
                                      dict(first=E[s], second=float(e2)))
                energies[(entry, nbatch)] = E
                digests["%s|%s|nb%d" % (cell, entry, nbatch)] = hashlib.sha1(E.tobytes() + Wts.tobytes()).hexdigest()
                res.guard("cells_callable", 1)
                if nbatch == 1 and entry == "plain":
                    res.nontrivial_values((cell, "E"), E, 10)
                if nbatch == 1 and entry == "ad_nosr":  # weights before any comb
                    res.guard("streams_with_dead_walker", int((Wts == 0).any(axis=1).sum()))
                    res.guard("streams_with_uneven_weights", int((np.ptp(Wts, axis=1) > 1e-6).sum()))
    # equal energies for equal block structure (converged trial => orbital relaxation is a no-op at zero coupling)
    pairs = [("plain", "ad"), ("plain", "ad_norot"), ("ad_nosr", "ad_nosr_norot")]
    if cfg["n_sr"] == 1:
        pairs.append(("plain", "ad_nosr"))
    # ... and from a NON-initial state: after one no-reconfiguration block started from uneven weights and the
    # driver's glue (the global comb permutes / duplicates walkers and leaves the cached overlaps as the driver does)
    if not cfg.get("dup"):
        B = samplers.build(sysd, wt, NW, dt=dt, n_batch=1)
        pdu = samplers.copy_pd(samplers.fresh_prop_data(B, vrng.key(0)))
        pdu["weights"] = jnp.asarray([0.3, 1.0, 2.2, 0.5])
        eU, pdoU = samplers.call_entry(B, samp, "ad_nosr", pdu)
        wa_before = np.asarray(pdoU["walkers"] if wt == "restricted" else pdoU["walkers"][0])
        pdG = samplers.library_glue(B, pdoU, float(eU))
        wa_after = np.asarray(pdG["walkers"] if wt == "restricted" else pdG["walkers"][0])
        res.guard("non_initial_state_glue_moved_walkers", int(np.abs(wa_after - wa_before).max() > 1e-6))
        EG = {}
        sub = list(range(0, S, max(1, S // 9)))
        for entry in ENTRIES[:-1]:
            vals = []
            for s in sub:
                pd = samplers.copy_pd(pdG)
                pd["key"] = vrng.key(s)
                try:
                    e, _ = samplers.call_entry(B, samp, entry, pd)
                except Exception:
                    vals = None
                    break
                vals.append(float(e))
                res.add(states=1, transitions=1, evaluations=1, traces=1)
            if vals is not None:
                EG[entry] = np.array(vals)
        for a, b in pairs:
            if a in EG and b in EG:
                d = np.abs(EG[a] - EG[b])
                k = int(np.argmax(d))
                res.guard("non_initial_state_pairs", 1)
                if not d[k] <= 1e-9:
                    res.violation("%s-vs-%s/%s/energy-differs-from-non-initial-state" % (a, b, wt),
                                  dict(cfg, entry=a, other=b, stream=sub[k], what="pair-noninitial"), dict(a=EG[a][k], b=EG[b][k]))
    nbs = sorted(set(nb_ for (_, nb_) in energies))
    for a, b in pairs:
        for nb_ in nbs:
            if (a, nb_) in energies and (b, nb_) in energies:
                d = np.abs(energies[(a, nb_)] - energies[(b, nb_)])
                k = int(np.argmax(d))
                res.add(transitions=S)
                if not d[k] <= 1e-9:
                    res.violation("%s-vs-%s/%s/energy-differs" % (a, b, wt), dict(cfg, entry=a, other=b, n_batch=nb_, stream=k, what="pair"),
                                  dict(a=energies[(a, nb_)][k], b=energies[(b, nb_)][k]))
    # independent of the batch count
    if len(nbs) > 1:
        for entry in ENTRIES:
            if (entry, nbs[0]) in energies and (entry, nbs[1]) in energies:
                d = np.abs(energies[(entry, nbs[0])] - energies[(entry, nbs[1])])
                k = int(np.argmax(d))
                res.add(transitions=S)
                if not d[k] <= 1e-11:
                    res.violation("%s/%s/batch-count-dependence" % (entry, wt), dict(cfg, entry=entry, stream=k, what="batch"),
                                  dict(nb1=energies[(entry, nbs[0])][k], nb2=energies[(entry, nbs[1])][k]))
    res.sample(dict(cell=cell, streams=S, varying_draw_positions=D, letters=LETTERS, uniform_letters=ULETTERS,
                    n_walkers=NW, vrng_calls=dict(vr.calls), first_energies=[float(x) for x in energies.get(("plain", 1), np.zeros(3))[:3]]))
    if vr.calls["normal"] == 0:
        raise RuntimeError("virtual RNG was never traced: the samplers are not using the rebound random source")
    res.digests = digests
    d = res.to_dict()
    d["digests"] = digests
    d["dup"] = bool(cfg.get("dup"))
    vrng.uninstall()
    return d


# ----------------------------------------------------------------------------- driver level
def driver_configs(tier, seed):
    thorough = tier == "thorough"
    out = []
    for wt in ("restricted", "unrestricted"):
        for ad in (None, "forward", "reverse", "2rdm"):
            for orot in (True, False):
                for sr in (True, False):
                    if not thorough and not ((orot and sr) or (ad in ("forward", "reverse") and not orot and not sr)
                                             or (ad == "forward" and orot != sr)):
                        continue
                    out.append(dict(kind="driver", wt=wt, ad_mode=ad, orbital_rotation=orot, do_sr=sr, seed=seed, tier=tier))
    return out


def driver_job(cfg):
    """driver.afqmc itself (single process, not_a_comm) for one option cell, under the virtual random source."""
    res = Result()
    wt = cfg["wt"]
    n, na, nb = (3, 1, 1) if wt == "restricted" else (3, 2, 1)
    sysd = samplers.system(n, na, nb, 1, cfg["seed"], wt)
    nw, nsteps = 4, 2
    n_blocks, n_ene, n_sr = 3, 1, 2
    # draws: equilibration block (1 normal of shape (50, nw, 1), 1 local-SR uniform, 1 global-SR uniform), then per
    # sampling block: n_sr*(n_ene normals + 1 uniform) [or n_ene normals for the no-SR entry points] + 1 global-SR uniform
    n_draws = 64
    S = 2
    tables = {(50, nw, 1): np.stack([np.stack([0.3 * filler((50, nw, 1), c + 11 * s) for c in range(n_draws)]) for s in range(S)]),
              (nsteps, nw, 1): np.stack([np.stack([filler((nsteps, nw, 1), c + 7 * s) for c in range(n_draws)]) for s in range(S)])}
    tu = np.stack([np.array([[0.3, 0.7, 0.55, 0.15, 0.9][(c + s) % 5] for c in range(n_draws)]) for s in range(S)])
    vr = vrng.install(tables, tu)
    L = samplers.lib()
    B = samplers.build(sysd, wt, nw, dt=0.05, n_batch=1)
    samp = L["sampling"].sampler(nsteps, n_ene, n_sr, n_blocks)
    MPI = L["config"].setup_comm()
    cwd = os.getcwd()
    tmp = os.path.join(os.path.dirname(os.path.dirname(os.path.dirname(os.path.abspath(__file__)))), "scratch", "c12_tmp", "p%d" % os.getpid())
    os.makedirs(tmp, exist_ok=True)
    out = {}
    try:
        os.chdir(tmp)
        for seed in range(S):
            options = dict(seed=seed, n_eql=1, n_ene_blocks_eql=1, n_sr_blocks_eql=1, ad_mode=cfg["ad_mode"],
                           orbital_rotation=cfg["orbital_rotation"], do_sr=cfg["do_sr"], save_walkers=False)
            hd = {k: v for k, v in B["ham_data"].items() if k in ("h0", "h1", "chol", "ene0")}
            try:
                import contextlib
                import io

                with contextlib.redirect_stdout(io.StringIO()):
                    e, err = L["driver"].afqmc(dict(hd), B["ham"], B["prop"], B["trial"], dict(B["wave_data"]), samp, None, options, MPI)
                raw = np.loadtxt("samples_raw.dat").reshape(-1, 3)
                out[seed] = (float(e), raw[:, 1].tolist(), raw[:, 0].tolist())
                res.add(states=1, transitions=n_blocks, evaluations=1, traces=1)
                res.guard("driver_cells_callable", 1)
                if not np.all(np.isfinite(raw)):
                    res.violation("driver/%s/non-finite-samples" % wt, dict(cfg, what="driver", run_seed=seed), dict(raw=raw))
            except Exception as ex:
                res.violation("driver/%s/ad=%s,orot=%s,sr=%s/not-callable:%s" % (wt, cfg["ad_mode"], cfg["orbital_rotation"], cfg["do_sr"], type(ex).__name__),
                              dict(cfg, what="driver", run_seed=seed), dict(error=str(ex)[:400]))
                break
    finally:
        os.chdir(cwd)
        shutil.rmtree(tmp, ignore_errors=True)
        vrng.uninstall()
    d = res.to_dict()
    d["driver_out"] = {"%s|%s|%s|%s" % (wt, cfg["ad_mode"], cfg["orbital_rotation"], cfg["do_sr"]): out}
    return d


# ----------------------------------------------------------------------------- the file route: options -> _prep_afqmc -> driver
PREP_SEEDS = (0, 1, 7)


def prep_job(cfg):
    """The route a user of run_afqmc takes: options dictionary -> mpi_jax._prep_afqmc (files in a private scratch
    directory) -> driver.afqmc, with the REAL jax.random.  For every seed letter (0 is a legal seed) and two
    repetitions: every option handed in comes back unchanged, the two repetitions produce identical samples, and
    they equal a run of driver.afqmc on hand-built objects with the same seed."""
    import contextlib
    import io

    res = Result()
    wt = cfg["wt"]
    n, na, nb = (3, 1, 1) if wt == "restricted" else (3, 2, 1)
    sysd = samplers.system(n, na, nb, 1, cfg["seed"], wt)
    L = samplers.lib()
    jnp = L["jnp"]
    with contextlib.redirect_stdout(io.StringIO()):
        from ad_afqmc import mpi_jax, pyscf_interface
    nw, nsteps, n_blocks, n_ene, n_sr = 4, 2, 3, 1, 2
    base = dict(dt=0.05, n_walkers=nw, n_prop_steps=nsteps, n_ene_blocks=n_ene, n_sr_blocks=n_sr, n_blocks=n_blocks,
                n_ene_blocks_eql=1, n_sr_blocks_eql=1, n_eql=1, ad_mode=None, orbital_rotation=False, do_sr=True,
                walker_type="rhf" if wt == "restricted" else "uhf", symmetry=False, save_walkers=False,
                trial="rhf" if wt == "restricted" else "uhf", ene0=0.0, free_projection=False, n_batch=1)
    cwd = os.getcwd()
    tmp = os.path.join(os.path.dirname(os.path.dirname(os.path.dirname(os.path.abspath(__file__)))), "scratch", "c12_tmp", "q%d" % os.getpid())
    os.makedirs(tmp, exist_ok=True)
    runs = {}
    try:
        os.chdir(tmp)
        h1 = 0.5 * (sysd["h1"][0] + sysd["h1"][1]) if wt == "restricted" else sysd["h1"][0]
        if wt == "unrestricted" and not np.allclose(sysd["h1"][0], sysd["h1"][1]):
            raise RuntimeError("harness: the file format carries one h1 only")
        chol = np.asarray(sysd["chol"]).reshape(len(sysd["chol"]), n * n)
        pyscf_interface.write_dqmc(h1, h1, chol, na + nb, n, sysd["h0"], ms=na - nb, filename="FCIDUMP_chol")
        np.savez("mo_coeff.npz", mo_coeff=np.array([sysd["ca"], sysd["cb"]]))

        def one(objs, options):
            ham_data, ham, prop, trial, wave_data, samp, observable, MPI = objs
            with contextlib.redirect_stdout(io.StringIO()):
                e, err = L["driver"].afqmc(dict(ham_data), ham, prop, trial, dict(wave_data), samp, observable, options, MPI)
            return np.loadtxt("samples_raw.dat").reshape(-1, 3)

        for seed in PREP_SEEDS:
            for rep in range(2):
                given = dict(base, seed=seed)
                with contextlib.redirect_stdout(io.StringIO()):
                    ham_data, ham, prop, trial, wave_data, samp, observable, options, MPI = mpi_jax._prep_afqmc(dict(given))
                res.add(states=1, transitions=1, evaluations=1, traces=1)
                changed = {k: (given[k], options.get(k)) for k in given if not (k in options and options[k] == given[k])}
                res.guard("prep_options_checked", len(given))
                if changed:
                    res.violation("prep/option-not-honoured:%s" % ",".join(sorted(changed)), dict(cfg, what="prep", run_seed=seed, rep=rep),
                                  dict(changed={k: [repr(a), repr(b)] for k, (a, b) in changed.items()}))
                raw = one((ham_data, ham, prop, trial, wave_data, samp, observable, MPI), options)
                runs[(seed, rep)] = raw
            # hand-built objects, the seed handed straight to the driver
            B = samplers.build(sysd, wt, nw, dt=0.05, n_batch=1)
            hd = {k: v for k, v in B["ham_data"].items() if k in ("h0", "h1", "chol", "ene0")}
            hd["h1"] = jnp.asarray(np.array([h1, h1]))
            samp2 = L["sampling"].sampler(nsteps, n_ene, n_sr, n_blocks)
            runs[(seed, "direct")] = one((hd, B["ham"], B["prop"], B["trial"], B["wave_data"], samp2, None, L["config"].setup_comm()), dict(base, seed=seed))
            res.add(states=1, transitions=1, evaluations=1, traces=1)
            a, b, c = runs[(seed, 0)], runs[(seed, 1)], runs[(seed, "direct")]
            res.guard("prep_runs_compared", 2)
            if a.shape != b.shape or not np.array_equal(a, b):
                res.violation("prep/%s/not-reproducible-for-given-seed" % wt, dict(cfg, what="prep", run_seed=seed), dict(first=a, second=b))
            elif a.shape != c.shape or not np.allclose(a, c, rtol=0, atol=1e-12):
                res.violation("prep/%s/differs-from-driver-with-same-seed" % wt, dict(cfg, what="prep", run_seed=seed), dict(prep=a, direct=c))
            res.nontrivial((wt, seed, digest(a)))
        # different seeds must give different samples (else the comparison above says nothing)
        if not np.array_equal(runs[(PREP_SEEDS[0], 0)], runs[(PREP_SEEDS[1], 0)]):
            res.guard("prep_seeds_distinguishable", 1)
    finally:
        os.chdir(cwd)
        shutil.rmtree(tmp, ignore_errors=True)
    return res.to_dict()


class _Collector:
    def __init__(self):
        self.digests = []
        self.driver = {}


def run(ctx):
    ctx.rule = ("cells = walker type {restricted+rhf, unrestricted+uhf} x block structure (n_steps,n_ene,n_sr) in {1,2}^3 (4 of 8 in quick) "
                "x n_batch {1,2} x entry point {plain, ad, ad_norot, ad_nosr, ad_nosr_norot, 2-RDM ad_1}; inside each cell EVERY stream of the "
                "virtual random source: all words over field letters {0,+-1.7} on D=4 draw positions spread over the blocks x "
                "all words over comb-offset letters {0.2,0.8}; state = (cell, stream); non-trivial distinct = distinct block energies; "
                "driver.afqmc itself over the option matrix ad_mode x orbital_rotation x do_sr x walker_type; the file route options -> _prep_afqmc -> driver.afqmc with the real jax.random for seeds {0,1,7} x 2 repetitions + a direct driver run")
    ctx.assume("random numbers are owned by rebinding the `random` name of ad_afqmc.sampling/propagation/driver; draw positions beyond D carry a fixed non-trivial filler")
    ctx.assume("trial = SCF solution converged to 1e-12 by an independent NumPy SCF, so orbital relaxation at zero coupling is the identity")
    coll = _Collector()
    orig_take = ctx._take

    def take(out):
        if "digests" in out:
            coll.digests.append((out.get("dup", False), out["digests"]))
        if "driver_out" in out:
            coll.driver.update(out["driver_out"])
        orig_take(out)

    ctx._take = take
    ctx.pmap(job, configs(ctx.tier, ctx.seed), tasks_per_child=2)
    ctx.pmap(driver_job, driver_configs(ctx.tier, ctx.seed), tasks_per_child=2)
    ctx.pmap(prep_job, [dict(kind="prep", wt=wt, seed=ctx.seed, tier=ctx.tier) for wt in ("restricted", "unrestricted")], tasks_per_child=1)
    ctx._take = orig_take
    # cross-process bit reproducibility
    main = {}
    for dup, dg in coll.digests:
        if not dup:
            main.update(dg)
    for dup, dg in coll.digests:
        if dup:
            for k, v in dg.items():
                ctx.guard("cross_process_digests_compared", 1)
                if k in main and main[k] != v:
                    ctx.violation("sampler/not-bit-reproducible-across-processes", dict(what="xproc", key=k), dict(a=main[k], b=v))
    # driver: the options select the entry point; with a converged trial at zero coupling all cells with
    # reconfiguration (any orbital_rotation, any ad_mode incl. None -> plain sampler) must report the same block
    # energies, all AD cells without reconfiguration likewise, and the two groups must differ (else the comparison
    # is vacuous).  (float32 storage in the driver.)
    groups = {}
    for k, out in coll.driver.items():
        wt, ad, orot, sr = k.split("|")
        if ad == "2rdm":
            continue
        if ad == "None" and sr != "True":
            continue  # without AD the driver always uses the plain sampler (with reconfiguration)
        groups.setdefault((wt, sr), []).append(("%s,orot=%s" % (ad, orot), out))
    for g, lst in groups.items():
        for lab, out in lst[1:]:
            for seed in out:
                if seed in lst[0][1]:
                    a, b = np.array(lst[0][1][seed][1]), np.array(out[seed][1])
                    ctx.guard("driver_pairs_compared", 1)
                    if a.shape != b.shape or not np.allclose(a, b, rtol=0, atol=2e-6):
                        ctx.violation("driver/%s/do_sr=%s/options-change-energy" % g, dict(what="driver-pair", group=list(g), a=lst[0][0], b=lab, run_seed=int(seed)),
                                      dict(a=a, b=b))
    for wt in ("restricted", "unrestricted"):
        if (wt, "True") in groups and (wt, "False") in groups:
            for seed in groups[(wt, "True")][0][1]:
                if seed in groups[(wt, "False")][0][1]:
                    a = np.array(groups[(wt, "True")][0][1][seed][1])
                    b = np.array(groups[(wt, "False")][0][1][seed][1])
                    if a.shape == b.shape and np.abs(a - b).max() > 1e-5:
                        ctx.guard("driver_sr_groups_differ", 1)
    ctx.require_guard("non_initial_state_pairs", "non_initial_state_glue_moved_walkers", "cells_callable", "estimator_recomputed", "capped_samples", "streams_with_uneven_weights",
                      "cross_process_digests_compared", "driver_cells_callable", "driver_pairs_compared", "driver_sr_groups_differ",
                      "prep_options_checked", "prep_runs_compared", "prep_seeds_distinguishable")


def replay_equal(a, b):
    """Two replays of one case agree if they reach the same verdict with the same signatures.  The numbers inside a
    'prep' case are allowed to differ: the property decided there IS reproducibility, and a run that ignores the given
    seed differs from itself by construction."""
    sa = sorted(x[0] for x in a[1].get("violations", []))
    sb = sorted(x[0] for x in b[1].get("violations", []))
    if any(x.startswith("prep/") for x in sa + sb):
        return a[0] == b[0] and sa == sb
    return json.dumps(enc(a[1]), sort_keys=True) == json.dumps(enc(b[1]), sort_keys=True)


def replay(case):
    what = case.get("what")
    if what in ("driver",):
        cfg = {k: v for k, v in case.items() if k not in ("what", "run_seed")}
        d = driver_job(cfg)
        return (len(d["violations"]) > 0, {"violations": [(v["signature"], v["detail"]) for v in d["violations"]][:2]})
    if what == "prep":
        d = prep_job({k: v for k, v in case.items() if k not in ("what", "run_seed", "rep")})
        return (len(d["violations"]) > 0, {"violations": [(v["signature"], v["detail"]) for v in d["violations"]][:2]})
    if what in ("xproc", "driver-pair"):
        return (True, {"note": "cross-run comparison; re-run ./check C12"})
    cfg = {k: v for k, v in case.items() if k not in ("entry", "other", "n_batch", "stream", "what", "est")}
    d = job(cfg)
    return (len(d["violations"]) > 0, {"violations": [(v["signature"], v["detail"]) for v in d["violations"]][:2]})
