"""C06 -- AD energy derivatives are the true derivatives of the sampled estimator.

Engine: seqmc over random streams.  For every AD entry point x walker type x block structure, called through
jvp / vjp exactly as driver.afqmc does, EVERY stream of the virtual random source over a field/offset alphabet
is run, for the complete basis of symmetric observables:
 (a) forward tangent == central finite difference of the same primal (h-ladder, smoothness pre-check on the primal),
 (b) <reverse-mode density, O_b> == forward response to O_b for every basis observable,
 (c) primal(AD, zero coupling) == plain sampler,
 (d) one-body limit: energy = sum of occupied orbital energies, response = tr(rho O),
 (e) per-spin trace of the AD density = electron count when n_ene = n_sr = 1."""

import numpy as np

from mc import alphabets as al
from mc import samplers, vrng
from mc.core import Result

ID = "C06"
TECHNIQUE = "exhaustive enumeration of AD entry points x modes x block structures x every virtual-RNG stream x complete symmetric observable basis; forward-mode vs finite differences of the primal, reverse-mode vs forward-mode, analytic one-body limit"

AD_ENTRIES = ["ad", "ad_nosr", "ad_norot", "ad_nosr_norot"]
NW = 3
LETTERS = [0.0, 1.5, -1.5]
ULETTERS = [0.3, 0.7]


def configs(tier, seed):
    thorough = tier == "thorough"
    structs = [(1, 1, 1), (2, 2, 1), (1, 1, 2)] if not thorough else [(1, 1, 1), (2, 1, 1), (2, 2, 1), (1, 1, 2), (1, 2, 2), (2, 1, 3)]
    out = []
    for wt in ("restricted", "unrestricted"):
        for entry in AD_ENTRIES:
            for st in structs:
                out.append(dict(wt=wt, entry=entry, n_steps=st[0], n_ene=st[1], n_sr=st[2], seed=seed, tier=tier, limit="full"))
            out.append(dict(wt=wt, entry=entry, n_steps=2, n_ene=1, n_sr=1, seed=seed, tier=tier, limit="onebody"))
            if wt == "restricted" and (thorough or entry in ("ad", "ad_norot")):
                # spatially symmetric ring: exactly degenerate one-body levels
                out.append(dict(wt=wt, entry=entry, n_steps=1, n_ene=1, n_sr=1, seed=seed, tier=tier, limit="symmetric"))
                # near-degenerate OCCUPIED pair (gap ~1e-8 << the eigh rule's threshold) with a two-body term
                out.append(dict(wt=wt, entry=entry, n_steps=1, n_ene=1, n_sr=1, seed=seed, tier=tier, limit="neardeg"))
    if thorough:
        for wt in ("restricted", "unrestricted"):
            out.append(dict(wt=wt, entry="ad_1", n_steps=1, n_ene=1, n_sr=1, seed=seed, tier=tier, limit="full"))
    return out


def obs_basis(n, wt):
    """Complete basis of observable matrices in the shape the driver uses: (n,n) for restricted runs, (2,n,n) (per
    spin) for unrestricted ones.  Symmetric units E_pq + E_qp decide every symmetric observable; the one-sided
    units E_pq (p < q) are added because the estimator is a function of ANY matrix added to h1 (the library
    symmetrises only in some places), and jvp == finite difference must hold for that function too."""
    out = []
    units = [("s%d%d" % (p, q), M) for (p, q), M in al.sym_basis(n)]
    for p in range(n):
        for q in range(p + 1, n):
            M = np.zeros((n, n))
            M[p, q] = 1.0
            units.append(("u%d%d" % (p, q), M))
    for (lab, M) in units:
        if wt == "restricted":
            out.append(("O[%s]" % lab, np.array([M, M])))
        else:
            Z = np.zeros_like(M)
            out.append(("Oa[%s]" % lab, np.array([M, Z])))
            out.append(("Ob[%s]" % lab, np.array([Z, M])))
    return out


def job(cfg):
    from mc.checks.c12 import filler

    res = Result()
    thorough = cfg["tier"] == "thorough"
    wt, entry = cfg["wt"], cfg["entry"]
    ns, ne, nsr = cfg["n_steps"], cfg["n_ene"], cfg["n_sr"]
    n, na, nb = (3, 1, 1) if wt == "restricted" else (3, 2, 1)
    onebody = cfg["limit"] == "onebody"
    # unrestricted runs carry a spin-dependent one-body Hamiltonian (h1_up != h1_dn), as the property admits
    sysd = samplers.system(n, na, nb, 1, cfg["seed"], wt, scale=0.5, spin_dep=(wt == "unrestricted"))
    if cfg["limit"] == "symmetric":
        sysd = samplers.symmetric_system(4, 2.0)
        n, na, nb = 4, 1, 1
    if cfg["limit"] == "neardeg":
        sysd = samplers.near_degenerate_system()
        n, na, nb = 3, 2, 2
        res.guard("near_degenerate_occupied_pair_gap_below_threshold", 1)
    nchol = len(sysd["chol"])
    if onebody:
        sysd = dict(sysd)
        sysd["chol"] = np.zeros_like(sysd["chol"])
        ea, ca = np.linalg.eigh(sysd["h1"][0])
        eb, cb = np.linalg.eigh(sysd["h1"][1])
        sysd["ca"], sysd["cb"] = ca, cb
        e_exact = sysd["h0"] + ea[:na].sum() + eb[:nb].sum()
        rho = np.array([ca[:, :na] @ ca[:, :na].T, cb[:, :nb] @ cb[:, :nb].T])
    # streams
    D = 3 if not thorough else 4
    shape = (ns, NW, nchol)
    sched_entry = entry
    normal_draws, uniform_draws, n_draws = samplers.schedule(sched_entry, nsr, ne)
    per = int(np.prod(shape))
    base = np.concatenate([0.7 * filler(shape, 5 * k + 1).ravel() for k in range(len(normal_draws))])
    D = min(D, len(base))  # a (1,1,1) block with one Cholesky vector has only NW scalar draws
    W = vrng.words(LETTERS, D)
    nwords = np.repeat(base[None], len(W), axis=0)
    pos = [(k % len(normal_draws)) * per + k // len(normal_draws) for k in range(D)]
    nwords[:, pos] = W
    uwords = vrng.words(ULETTERS, len(uniform_draws))
    tn, tu = vrng.stream_tables(n_draws, shape, nwords, uwords, normal_draws, uniform_draws)
    S = tn.shape[0]
    vr = vrng.install(tn, tu)
    L = samplers.lib()
    jax, jnp = L["jax"], L["jnp"]
    B = samplers.build(sysd, wt, NW, dt=0.05, n_batch=1)
    samp = L["sampling"].sampler(ns, ne, nsr, 1)
    pd0 = samplers.fresh_prop_data(B, vrng.key(0))
    meth = getattr(samp, samplers.ENTRY_METHOD[entry])
    ham, hd, prop, trial, wd = B["ham"], B["ham_data"], B["prop"], B["trial"], B["wave_data"]

    def wrapper(x, y, z):  # exactly driver.afqmc's propagate_phaseless_wrapper
        return meth(ham, hd, x, y, prop, z, trial, wd)

    # tangent of prop_data as the driver builds it
    tang = {}
    for k in pd0:
        if isinstance(pd0[k], list):
            tang[k] = [np.zeros_like(y) for y in pd0[k]]
        elif pd0[k].dtype == "uint32":
            tang[k] = np.zeros(pd0[k].shape, dtype=jax.dtypes.float0)
        else:
            tang[k] = np.zeros_like(pd0[k])

    sig = "%s/%s" % (entry, wt)
    cell = "%s/steps%d-ene%d-sr%d/%s" % (sig, ns, ne, nsr, cfg["limit"])
    basis = obs_basis(n, wt)
    if entry == "ad_1":
        return job_2rdm(cfg, res, B, samp, pd0, tang, S, sysd, wrapper, sig)

    @jax.jit
    def fwd(op, pd):
        e, de, _ = jax.jvp(wrapper, (0.0, op, pd), (1.0, 0.0 * op, tang), has_aux=True)
        return e, de

    @jax.jit
    def rev(pd):
        e, f, _ = jax.vjp(wrapper, 1.0, 0.0 * hd["h1"], pd, has_aux=True)
        return e, f(1.0)[1]

    @jax.jit
    def primal(c, op, pd):
        return wrapper(c, op, pd)[0]

    @jax.jit
    def ref_coupled(c, op, pd):
        """The same block on the Hamiltonian h1 + c*O assembled through the PUBLIC route of the driver (optimize for the
        orbital-relaxing entries, build_measurement_intermediates, then build_propagation_intermediates) and run by
        the plain sampler (entries with reconfiguration) or by the no-relaxation entry at zero coupling (entries without)."""
        hd2 = {k: hd[k] for k in ("h0", "h1", "chol", "ene0")}
        hd2["h1"] = hd2["h1"] + c * op
        wd2 = dict(wd)
        if entry in ("ad", "ad_nosr"):
            wd2 = trial.optimize(dict(hd2), wd2)
        hd2 = ham.build_measurement_intermediates(hd2, trial, wd2)
        hd2 = ham.build_propagation_intermediates(hd2, prop, trial, wd2)
        if entry in ("ad", "ad_norot"):
            return samp.propagate_phaseless(ham, hd2, prop, pd, trial, wd2)[0]
        # without reconfiguration: the no-relaxation entry at zero coupling on the pre-assembled data (the relaxing entry
        # would optimise a second time)
        return samp.propagate_phaseless_ad_nosr_norot(ham, hd2, 0.0, 0.0 * op, prop, pd, trial, wd2)[0]

    plain = None
    if entry in ("ad", "ad_norot"):
        plain = lambda pd: samp.propagate_phaseless(ham, hd, prop, pd, trial, wd)[0]
    streams = range(S)
    n_nonsmooth = 0
    # non-initial start state for every second stream: the population after one plain sampler block (distinct walkers,
    # uneven weights, overlaps as that block left them) -- on a fresh population all walkers equal the trial determinant
    # and whole classes of derivative terms cancel
    pd_adv = samp.propagate_phaseless(ham, hd, prop, dict(samplers.copy_pd(pd0), key=vrng.key(1)), trial, wd)[1]
    pd_adv = {k: v for k, v in pd_adv.items() if k in pd0}
    for s in streams:
        pd = samplers.copy_pd(pd0 if s % 2 == 0 else pd_adv)
        if s % 2 == 1:
            res.guard("streams_from_a_non_initial_population", 1)
        pd["key"] = vrng.key(s)
        e_r, G = rev(pd)
        G = np.asarray(G)
        e_r = float(e_r)
        res.add(states=1, transitions=1, evaluations=1, traces=1)
        case = dict(cfg, stream=s)
        if not np.all(np.isfinite(G)):
            res.violation(sig + "/reverse-mode-nonfinite", dict(case, what="finite"), dict(G=G))
            continue
        for (ol, O) in basis:
            opj = jnp.asarray(O if wt == "unrestricted" else O[0])
            e_f, de = fwd(opj, pd)
            e_f, de = float(e_f), float(de)
            res.add(transitions=1, evaluations=1)
            # (b) reverse vs forward (the reverse-mode density is (2,n,n); a restricted observable acts on both spins)
            contr = float(np.sum(G * O))
            if not abs(contr - de) <= 1e-8 * max(1.0, abs(de)):
                res.violation(sig + "/reverse-vs-forward", dict(case, obs=ol, what="rev-fwd"), dict(reverse=contr, forward=de))
            if not abs(e_f - e_r) <= 1e-10 * max(1.0, abs(e_r)):
                res.violation(sig + "/primal-differs-between-modes", dict(case, obs=ol, what="primal"), dict(fwd=e_f, rev=e_r))
            # (a) forward vs central differences of the same primal; smoothness judged on the primal alone
            fds = []
            for h in (1e-3, 1e-4):
                ep = float(primal(h, opj, pd))
                em = float(primal(-h, opj, pd))
                fds.append((ep - em) / (2 * h))
                if h == 1e-3:
                    # (d) the coupling enters ONLY as h1 + c*O: same energy as the publicly assembled coupled Hamiltonian
                    e_ref = float(ref_coupled(h, opj, pd))
                    res.add(transitions=1, evaluations=1)
                    res.guard("coupled_hamiltonian_compared", 1)
                    if not abs(ep - e_ref) <= 1e-9 * max(1.0, abs(e_ref)):
                        res.violation(sig + "/primal-at-coupling-vs-public-route", dict(case, obs=ol, what="coupled"),
                                      dict(entry_energy=ep, public_route_energy=e_ref, coupling=h))
            res.add(transitions=4)
            smooth = abs(fds[0] - fds[1]) <= 2e-5 * max(1.0, abs(fds[1]))
            if not smooth:
                n_nonsmooth += 1
                continue
            res.guard("fd_comparisons", 1)
            if not abs(de - fds[1]) <= 2e-6 * max(1.0, abs(fds[1])):
                res.violation(sig + "/forward-vs-finite-difference", dict(case, obs=ol, what="fd"),
                              dict(forward=de, fd=fds, energy=e_f))
            if onebody:
                ref = float(np.sum(rho * O))
                res.guard("onebody_response_checked", 1)
                if not abs(de - ref) <= 1e-8 * max(1.0, abs(ref)):
                    res.violation(sig + "/one-body-limit-response", dict(case, obs=ol, what="onebody"), dict(forward=de, tr_rho_O=ref))
        if onebody and not abs(e_r - e_exact) <= 1e-9 * max(1.0, abs(e_exact)):
            res.violation(sig + "/one-body-limit-energy", dict(case, what="onebody-energy"), dict(impl=e_r, ref=e_exact))
        # (e) per-spin trace
        if ne == 1 and nsr == 1:
            tr = [float(np.trace(G[0])), float(np.trace(G[1]))]
            res.guard("trace_checked", 1)
            if not (abs(tr[0] - na) <= 1e-8 and abs(tr[1] - nb) <= 1e-8):
                res.violation(sig + "/density-trace", dict(case, what="trace"), dict(trace=tr, nelec=[na, nb]))
        # (c) primal == plain sampler at zero coupling (same block structure)
        if plain is not None:
            e_p = float(plain(pd))
            e_0 = float(primal(0.0, jnp.asarray(basis[0][1] if wt == "unrestricted" else basis[0][1][0]), pd))
            res.guard("plain_compared", 1)
            if not abs(e_p - e_0) <= 1e-9 * max(1.0, abs(e_p)):
                res.violation(sig + "/primal-vs-plain-sampler", dict(case, what="plain"), dict(ad=e_0, plain=e_p))
        res.nontrivial((cell, s, round(e_r, 10)))
        if s < 2:
            res.sample(dict(cell=cell, stream=s, energy=e_r, density_trace=[float(np.trace(G[0])), float(np.trace(G[1]))]))
    res.guard("nonsmooth_primal_skipped", n_nonsmooth)
    res.guard("streams", S)
    if vr.calls["normal"] == 0:
        raise RuntimeError("virtual RNG never traced")
    vrng.uninstall()
    return res


def job_2rdm(cfg, res, B, samp, pd0, tang, S, sysd, wrapper, sig):
    """2-RDM variant: reverse-mode derivative with respect to the 4-index operator vs finite differences of
    the primal along symmetric directions."""
    L = B["L"]
    jax, jnp = L["jax"], L["jnp"]
    n = sysd["n"]
    eri = jnp.asarray(samplers.eri_from_chol(sysd["chol"], n))

    @jax.jit
    def rev(pd):
        e, f, _ = jax.vjp(wrapper, 1.0, eri, pd, has_aux=True)
        return e, f(1.0)[1]

    @jax.jit
    def primal(op, pd):
        return wrapper(1.0, op, pd)[0]

    rng = np.random.default_rng(5)
    dirs = []
    for k in range(2):
        Lm = al.dense_sym(n, cfg["seed"], 70 + k, 0.3)
        dirs.append(np.einsum("pq,rs->pqrs", Lm, Lm))
    for s in range(min(S, 9)):
        pd = samplers.copy_pd(pd0)
        pd["key"] = vrng.key(s)
        e, G = rev(pd)
        G = np.asarray(G)
        res.add(states=1, transitions=1, evaluations=1, traces=1)
        if not np.all(np.isfinite(G)):
            res.violation(sig + "/reverse-mode-nonfinite", dict(cfg, stream=s, what="finite"), {})
            continue
        for k, dV in enumerate(dirs):
            fds = []
            for h in (1e-3, 1e-4):
                fds.append((float(primal(eri + h * dV, pd)) - float(primal(eri - h * dV, pd))) / (2 * h))
            if abs(fds[0] - fds[1]) > 2e-5 * max(1.0, abs(fds[1])):
                res.guard("nonsmooth_primal_skipped", 1)
                continue
            contr = float(np.sum(G * dV))
            res.guard("fd_comparisons", 1)
            if not abs(contr - fds[1]) <= 5e-6 * max(1.0, abs(fds[1])):
                res.violation(sig + "/reverse-vs-finite-difference", dict(cfg, stream=s, what="fd2", direction=k), dict(reverse=contr, fd=fds))
    vrng.uninstall()
    return res


def run(ctx):
    ctx.rule = ("cells = AD entry point {ad, ad_nosr, ad_norot, ad_nosr_norot (+ 2-RDM ad_1 thorough)} x walker type x block structure "
                "x {interacting, one-body limit}; inside each cell EVERY virtual-RNG stream (all words over field letters {0,+-1.5} on "
                "3 (4) draw positions x comb-offset letters {0.3,0.7}) x the complete basis of symmetric observables plus the one-sided units E_pq (per spin for "
                "unrestricted runs); jvp/vjp called exactly as driver.afqmc does; state = (cell, stream, observable)")
    ctx.assume("derivatives are linear in the observable, so the basis decides every observable")
    ctx.assume("finite-difference comparison only where the primal itself is smooth (two FD steps agree); skipped streams are counted")
    ctx.pmap(job, configs(ctx.tier, ctx.seed), tasks_per_child=2)
    ctx.require_guard("fd_comparisons", "trace_checked", "onebody_response_checked", "plain_compared", "streams", "coupled_hamiltonian_compared", "streams_from_a_non_initial_population")


def replay(case):
    cfg = {k: case[k] for k in ("wt", "entry", "n_steps", "n_ene", "n_sr", "seed", "tier", "limit")}
    r = job(cfg)
    return (len(r.violations) > 0, {"violations": [(v["signature"], v["detail"]) for v in r.violations][:2]})
