"""C04 -- one phaseless step is an exact importance-sampling reweighting of exp(-dt H).

Engine: probmc.  The auxiliary field is the environment; every node of a tensor Gauss-Hermite rule is played
as one walker of a single batch through the real prop.propagate, the complex importance function and theta are
read through the guarded hook, and the field average is compared with exp(-dt(H-E_shift)) from scipy.expm in
Fock space on a dt ladder.  Then every branch of the weight rule is forced by a field/weight/shift alphabet."""

import numpy as np
from scipy.linalg import expm

from mc import alphabets as al
from mc import fock, gridmc, probmc, trials
from mc.core import Result

ID = "C04"
TECHNIQUE = "exact field average by enumerating all tensor Gauss-Hermite nodes through the real propagate() (hooked importance function), dt-ladder ratio test against expm in Fock space; exhaustive field/weight/shift words for the clipping branches"

LADDER = [0.08, 0.04, 0.02, 0.01, 0.005, 0.0025, 0.00125]
FLOOR = 2e-9


def lib_prop():
    jnp, wf = trials.lib()
    from ad_afqmc import hamiltonian, propagation

    return jnp, hamiltonian, propagation


def configs(tier, seed):
    thorough = tier == "thorough"
    out = []
    R = [("rhf", 3, 1, 1), ("cisd", 3, 1, 1), ("rhf", 3, 2, 2)]
    U = [("uhf", 3, 2, 1), ("ghf", 3, 1, 1), ("noci", 3, 2, 1), ("ucisd", 3, 2, 1), ("multislater", 3, 1, 1), ("uhf", 2, 1, 0)]
    if thorough:
        R += [("cisd", 4, 2, 2), ("CISD", 3, 1, 1), ("rhf", 4, 2, 2), ("cisd_faster", 4, 2, 2), ("uhf", 3, 2, 2)]
        U += [("uhf", 4, 2, 2), ("ucisd", 4, 2, 1), ("UCISD", 3, 2, 1), ("GCISD", 3, 1, 1), ("multislater", 4, 2, 1),
              ("noci", 4, 2, 2), ("ghf", 3, 2, 1), ("rhf", 3, 1, 1), ("uhf", 3, 3, 1)]
    for prop, lst in (("r", R), ("u", U)):
        for i, (kind, n, na, nb) in enumerate(lst):
            variant = {"multislater": "ref:1", "uhf": "same" if prop == "r" else ""}.get(kind, "")
            nchols = [1, 2, 3] if (thorough or i == 0) else [2]
            rdms = ["trial", "zero", "arbitrary"] if (thorough or i == 0) else [["trial", "arbitrary", "zero"][i % 3]]
            walkers = ["generic", "init"] if (thorough or i == 0) else ["generic"]
            if i <= (2 if thorough else 0):
                walkers = walkers + ["faint"]
            for nchol in nchols:
                for rd in rdms:
                    for wk in walkers:
                        out.append(dict(kind=kind, n=n, na=na, nb=nb, variant=variant, prop=prop, nchol=nchol, rdm1=rd,
                                        walker=wk, seed=seed, tier=tier))
    out.sort(key=lambda c: -(c["nchol"] * 10 + c["n"]))
    return out


def setup(cfg):
    """Trial, Hamiltonian, rdm1 for the shift, start walker, reference objects."""
    jnp, hamiltonian, propagation = lib_prop()
    kind, n, na, nb, seed = cfg["kind"], cfg["n"], cfg["na"], cfg["nb"], cfg["seed"]
    tc = trials.build(kind, n, na, nb, seed, cfg["variant"], full_basis=False)
    ip = len(tc.params) - 1
    p = tc.params[ip]
    trial = gridmc.trial_for(tc, ip)
    h0, h1, chol = al.small_ham(n, cfg["nchol"], seed, spin_dependent=(cfg["prop"] == "u"), scale=0.4)
    rng = np.random.default_rng(555 + seed)
    if cfg["rdm1"] == "zero":
        rdm1 = np.zeros((2, n, n))
    elif cfg["rdm1"] == "arbitrary":
        rdm1 = 0.5 * rng.normal(size=(2, n, n))
    else:
        try:
            rdm1 = np.asarray(trial.get_rdm1(p.wave_data)).real
        except NotImplementedError:
            rdm1 = np.array([np.diag([1.0] * na + [0.0] * (n - na)), tc.Qb[:, :nb] @ tc.Qb[:, :nb].T])
    wd = dict(p.wave_data)
    wd["rdm1"] = jnp.asarray(rdm1)
    restricted = cfg["prop"] == "r"
    if cfg["walker"] == "generic":
        grid = al.walker_grid(n, na, nb, seed, restricted=restricted, cap=4)
        Wa, Wb, _ = gridmc.lab_walkers(tc, grid, restricted)
        k = grid["P"] - 2
        wa = Wa[k]
        wb = wa[:, :nb] if restricted else Wb[k]
    elif cfg["walker"] == "faint":
        # a walker whose trial overlap is small but finite: the force bias ~ 1/overlap is large, so the field shift
        # sqrt(dt)(fb - m) exceeds 1 in modulus at the upper end of the dt ladder.  Input selection only (reference
        # model): move the generic walker along a fixed complex direction towards the nearest zero t0 of the overlap
        # polynomial and stop at t0(1 - delta) for the largest delta that gives a shift above 1.5 at dt = LADDER[0].
        grid = al.walker_grid(n, na, nb, seed, restricted=restricted, cap=4)
        Wa, Wb, _ = gridmc.lab_walkers(tc, grid, restricted)
        k = grid["P"] - 2
        wa0 = Wa[k]
        wb0 = wa0[:, :nb] if restricted else Wb[k]
        sec0 = fock.sector(n, na, nb)
        rd = np.random.default_rng(77 + seed)
        Da = rd.normal(size=wa0.shape) + 1j * rd.normal(size=wa0.shape)
        Db = Da[:, :nb] if restricted else rd.normal(size=wb0.shape) + 1j * rd.normal(size=wb0.shape)
        phi_t = lambda t: sec0.walker_vectors((wa0 + t * Da)[None], (wb0 + t * Db)[None])[:, 0]
        deg = na + nb
        tk = 0.7 * np.exp(2j * np.pi * np.arange(2 * deg + 3) / (2 * deg + 3))
        coef = np.polyfit(tk, np.array([np.conj(p.ket) @ phi_t(t) for t in tk]), deg)
        roots = np.roots(coef)
        t0 = roots[np.argmin(np.abs(roots))]
        h1r = np.array([(h1[0] + h1[1]) / 2] * 2) if restricted else h1
        mvec = probmc.mf_quantities(h0, h1r, chol, rdm1, LADDER[0])[0]
        Lops = sec0.chol_ops(chol)
        wa, wb = wa0, wb0
        for delta in (0.5, 0.3, 0.2, 0.1, 0.05, 0.02, 0.01):
            t = t0 * (1 - delta)
            ph = phi_t(t)
            O = np.conj(p.ket) @ ph
            fb = np.array([(np.conj(p.ket) @ Lh @ ph) / O for Lh in Lops])
            wa, wb = wa0 + t * Da, wb0 + t * Db
            if np.abs(np.sqrt(LADDER[0]) * (fb - mvec)).max() > 1.5:
                break
    else:
        wa = tc.Qa[:, :na] + 0j
        wb = (tc.Qa if restricted else tc.Qb)[:, :nb] + 0j
    sec = fock.sector(n, na, nb)
    return dict(jnp=jnp, tc=tc, p=p, trial=trial, h0=h0, h1=h1, chol=chol, rdm1=rdm1, wd=wd, wa=wa, wb=wb, sec=sec,
                restricted=restricted)


def run_step(S, cfg, dt, fields, weights_in, e_shift, n_exp_terms=6):
    """One real prop.propagate call on a population that is M copies of the start walker."""
    jnp, hamiltonian, propagation = lib_prop()
    n = cfg["n"]
    M = fields.shape[0]
    cls = propagation.propagator_restricted if S["restricted"] else propagation.propagator_unrestricted
    prop = cls(dt=dt, n_walkers=M, n_exp_terms=n_exp_terms)
    ham = hamiltonian.hamiltonian(n)
    # Intermediates are rebuilt on the dictionary returned by the previous build (first on a decoy Hamiltonian with
    # other Cholesky vectors and another time step), the way the AD samplers re-prepare a ham_data: anything that
    # is cached instead of rebuilt goes stale and shows up in the step oracles.
    if "_carry" not in S:
        dh0, dh1, dchol = al.small_ham(n, len(S["chol"]), cfg["seed"] + 17, spin_dependent=not S["restricted"], scale=0.7)
        dprop = cls(dt=0.033, n_walkers=M, n_exp_terms=n_exp_terms)
        d = {"h0": dh0, "h1": jnp.asarray(dh1), "chol": jnp.asarray(dchol.reshape(len(dchol), n * n)), "ene0": 0.0}
        d = ham.build_measurement_intermediates(d, S["trial"], S["wd"])
        S["_carry"] = dict(ham.build_propagation_intermediates(d, dprop, S["trial"], S["wd"]))
    hd = dict(S["_carry"])
    # ene0 is the free-projection energy origin: the phaseless step must not depend on it (letter alternates with the
    # configuration so that both propagators see a non-zero one)
    ene0 = -1.7 if (cfg["nchol"] + cfg["n"] + cfg["na"] + (cfg["rdm1"] == "zero")) % 2 == 0 else 0.0
    hd.update({"h0": S["h0"], "h1": jnp.asarray(S["h1"]), "chol": jnp.asarray(S["chol"].reshape(len(S["chol"]), n * n)), "ene0": ene0})
    hd = ham.build_measurement_intermediates(hd, S["trial"], S["wd"])
    hd = ham.build_propagation_intermediates(hd, prop, S["trial"], S["wd"])
    S["_carry"] = dict(hd)
    if S["restricted"]:
        walkers = jnp.asarray(np.repeat(S["wa"][None], M, axis=0))
    else:
        walkers = [jnp.asarray(np.repeat(S["wa"][None], M, axis=0)), jnp.asarray(np.repeat(S["wb"][None], M, axis=0))]
    ov = gridmc.jitted(S["trial"], "calc_overlap")(walkers, S["wd"])
    pd = {"weights": jnp.asarray(weights_in, dtype=float), "walkers": walkers, "overlaps": ov,
          "e_estimate": jnp.asarray(0.1), "pop_control_ene_shift": jnp.asarray(float(e_shift)),
          "_verif_imp_fun": jnp.zeros(M) + 0j, "_verif_theta": jnp.zeros(M)}
    out = prop.propagate(S["trial"], hd, pd, jnp.asarray(fields), S["wd"])
    if S["restricted"]:
        Wa2 = np.asarray(out["walkers"])
        Wb2 = Wa2[:, :, : cfg["nb"]]
    else:
        Wa2, Wb2 = np.asarray(out["walkers"][0]), np.asarray(out["walkers"][1])
    return dict(Wa=Wa2, Wb=Wb2, weights=np.asarray(out["weights"]), overlaps=np.asarray(out["overlaps"]),
                I=np.asarray(out["_verif_imp_fun"]), theta=np.asarray(out["_verif_theta"]), ov0=np.asarray(ov),
                shift_new=float(out["pop_control_ene_shift"]), hd=hd)


def reference(S, cfg, dt, fields, e_shift, out, n_exp_terms=6):
    """Everything the step should have produced, from explicit matrices and the Fock model."""
    sec, ket = S["sec"], S["p"].ket
    h1 = S["h1"]
    if S["restricted"]:
        h1 = np.array([(h1[0] + h1[1]) / 2] * 2)
    m, hmod, const = probmc.mf_quantities(S["h0"], h1, S["chol"], S["rdm1"], dt)
    phi = sec.walker_vectors(S["wa"][None], S["wb"][None])[:, 0]
    O = np.conj(ket) @ phi
    fb = np.array([(np.conj(ket) @ Lh @ phi) / O for Lh in sec.chol_ops(S["chol"])])
    xbar = -1j * np.sqrt(dt) * (fb - m)  # field shift
    xs = fields - xbar[None, :]
    Wa_ref, Wb_ref = probmc.ref_step_unrestricted(np.repeat(S["wa"][None], len(fields), 0), np.repeat(S["wb"][None], len(fields), 0),
                                                  xs, hmod, S["chol"], dt, n_exp_terms)
    Phi2 = sec.walker_vectors(out["Wa"], out["Wb"])  # from the library's walkers
    O2 = np.conj(ket) @ Phi2
    mfph = np.exp(-1j * np.sqrt(dt) * (xs @ m))  # exp(-sqrt(dt) * sum x' (i m))
    fbterm = np.sum(fields * xbar[None, :] - xbar[None, :] ** 2 / 2, axis=1)
    I_ref = mfph * np.exp(fbterm + dt * (e_shift - const)) * O2 / O
    theta_ref = np.angle(mfph * O2 / O)
    H = sec.hamiltonian(S["h0"], h1, S["chol"])
    target = expm(-dt * (H - e_shift * np.eye(sec.dim))) @ phi / O
    return dict(Wa=Wa_ref, Wb=Wb_ref, Phi2=Phi2, O2=O2, I=I_ref, theta=theta_ref, target=target, O=O, fb=fb, m=m)


def job(cfg):
    res = Result()
    S = setup(cfg)
    thorough = cfg["tier"] == "thorough"
    nchol = cfg["nchol"]
    m = {1: 16, 2: 12, 3: 8}[nchol]
    if cfg["walker"] == "faint":
        m = {1: 32, 2: 20, 3: 10}[nchol]  # the shifted integrand exp(x.s) needs a higher polynomial degree
    fields, w = probmc.gh_rule(m, nchol)
    M = len(w)
    e0 = 0.3
    shifts = [e0, e0 - 1.7, e0 + 2.1] if (thorough or cfg["nchol"] == 2) else [e0 + 0.9]
    sig0 = "%s/%s" % (cfg["kind"], "restricted" if S["restricted"] else "unrestricted")
    for e_shift in shifts[: (3 if thorough else 1)] if True else []:
        resid = []
        for dt in LADDER:
            out = run_step(S, cfg, dt, fields, np.ones(M), e_shift)
            ref = reference(S, cfg, dt, fields, e_shift, out)
            res.add(states=M, transitions=M, evaluations=M, traces=1)
            if np.abs(np.sqrt(dt) * (ref["fb"] - ref["m"])).max() > 1.0:
                res.guard("steps_with_a_field_shift_above_one_in_modulus", 1)
            # (1) propagated walkers = explicit-matrix product
            ew = max(np.abs(out["Wa"] - ref["Wa"]).max(), np.abs(out["Wb"] - ref["Wb"]).max() if out["Wb"].size else 0.0)
            if not ew <= 1e-9 * max(1.0, np.abs(ref["Wa"]).max()):
                k = int(np.argmax(np.abs(out["Wa"] - ref["Wa"]).reshape(M, -1).max(axis=1)))
                res.violation(sig0 + "/propagated-walker", dict(cfg, dt=dt, e_shift=e_shift, what="walker", node=k),
                              dict(err=float(ew), fields=fields[k]))
            # (2) hook importance function / theta = reference
            eI = np.abs(out["I"] - ref["I"]) / np.maximum(np.abs(ref["I"]), 1e-12)
            eT = np.abs(np.exp(1j * out["theta"]) - np.exp(1j * ref["theta"]))
            if not (eI.max() <= 1e-8 and eT.max() <= 1e-8):
                k = int(np.argmax(np.maximum(eI, eT)))
                res.violation(sig0 + "/importance-function", dict(cfg, dt=dt, e_shift=e_shift, what="impfun", node=k),
                              dict(I_impl=out["I"][k], I_ref=ref["I"][k], th_impl=out["theta"][k], th_ref=ref["theta"][k], fields=fields[k]))
            # (3) applied weight = documented rule
            wexp = probmc.phaseless_factor(ref["I"], ref["theta"]) * 1.0
            wexp = np.where(wexp > 100.0, 0.0, wexp)
            margin = np.abs(np.abs(ref["I"]) * np.cos(ref["theta"]) - 1e-3) < 1e-7
            badw = (~margin) & ~(np.abs(out["weights"] - wexp) <= 1e-8 * np.maximum(1.0, wexp))
            if badw.any():
                k = int(np.nonzero(badw)[0][0])
                res.violation(sig0 + "/applied-weight", dict(cfg, dt=dt, e_shift=e_shift, what="weight", node=k),
                              dict(w_impl=out["weights"][k], w_ref=wexp[k], I=ref["I"][k], theta=ref["theta"][k], fields=fields[k]))
            # (4) stored overlap = overlap of the new walker
            eo = np.abs(out["overlaps"] - ref["O2"]) / np.maximum(np.abs(ref["O2"]), 1e-12)
            if not eo.max() <= 1e-9:
                res.violation(sig0 + "/stored-overlap", dict(cfg, dt=dt, e_shift=e_shift, what="overlap"), dict(err=float(eo.max())))
            # (5) field average vs exp(-dt(H-E))
            V = (ref["Phi2"] * (w * ref["I"] / ref["O2"])[None, :]).sum(axis=1)
            r = np.linalg.norm(V - ref["target"]) / np.linalg.norm(ref["target"])
            resid.append(r)
        res.nontrivial_values(("resid", cfg["kind"], cfg["prop"], cfg["nchol"], cfg["rdm1"], cfg["walker"], e_shift), resid, 14)
        ratios = [resid[i] / resid[i + 1] for i in range(len(resid) - 1)]
        res.sample(dict(cfg=cfg, e_shift=e_shift, nodes=M, dt_ladder=LADDER, residuals=["%.3e" % x for x in resid],
                        ratios=["%.2f" % x for x in ratios]))
        # asymptotic statement: in the small-dt tail every halving shrinks the residual at least threefold
        # (a lower-order error gives ratios -> 2); larger dt may show cancellations between orders, so only
        # the last two ratios above the quadrature/round-off floor are judged, the others must merely decrease
        liveidx = [i for i in range(len(ratios)) if resid[i + 1] >= FLOOR and resid[i] >= 10 * FLOOR]
        live = len(liveidx)
        tail = liveidx[-2:]
        if any(not ratios[i] >= 3.0 for i in tail) or any(not ratios[i] >= 1.5 for i in liveidx):
            res.violation(sig0 + "/field-average-not-second-order", dict(cfg, e_shift=e_shift, what="ladder"),
                          dict(residuals=resid, ratios=ratios, dt=LADDER))
        res.guard("ladder_ratios_live", live)
        if resid[0] > 0.05:
            res.violation(sig0 + "/field-average-far-off", dict(cfg, e_shift=e_shift, what="ladder"), dict(residuals=resid))
    # ---- clipping branches: every word over a field alphabet x weight letters x shift letters
    if cfg["nchol"] <= 2 and cfg["walker"] == "generic":
        dt = 0.05
        L = [0.0, 2.0, -2.0, 9.0, -9.0]
        import itertools

        words = np.array(list(itertools.product(L, repeat=nchol)))
        wl = [1.0, 60.0, 0.0]
        F = np.repeat(words, len(wl), axis=0)
        Win = np.tile(wl, len(words))
        for e_shift in [e0, e0 + np.log(150.0) / dt, e0 - np.log(5000.0) / dt, e0 + np.log(40.0) / dt]:
            out = run_step(S, cfg, dt, F, Win, e_shift)
            ref = reference(S, cfg, dt, F, e_shift, out)
            raw = np.abs(ref["I"]) * np.cos(ref["theta"])
            f = probmc.phaseless_factor(ref["I"], ref["theta"])
            wexp = f * Win
            wexp = np.where(wexp > 100.0, 0.0, wexp)
            near = (np.abs(raw - 1e-3) < 1e-7) | (np.abs(raw - 100.0) < 1e-5) | (np.abs(f * Win - 100.0) < 1e-5)
            bad = (~near) & ~(np.abs(out["weights"] - wexp) <= 1e-8 * np.maximum(1.0, wexp))
            res.add(states=len(F), transitions=len(F), evaluations=len(F), traces=1)
            res.guard("branch_cos_nonpositive", int((np.cos(ref["theta"]) <= 0).sum()))
            res.guard("branch_below_1e-3", int(((raw < 1e-3) & (np.cos(ref["theta"]) > 0)).sum()))
            res.guard("branch_above_100", int((raw > 100).sum()))
            res.guard("branch_product_above_100", int(((raw <= 100) & (f * Win > 100)).sum()))
            res.guard("branch_normal", int(((f > 0) & (f * Win <= 100) & (Win > 0)).sum()))
            if bad.any():
                k = int(np.nonzero(bad)[0][0])
                res.violation(sig0 + "/applied-weight-branch", dict(cfg, dt=dt, e_shift=float(e_shift), what="branch", node=k),
                              dict(w_impl=out["weights"][k], w_ref=wexp[k], w_in=Win[k], raw=raw[k], theta=ref["theta"][k], fields=F[k]))
            # shift update rule (documented in the code: e_estimate - 0.1 log(sum w / N)/dt)
            tot = out["weights"].sum()
            if tot > 0:
                sh = 0.1 - 0.1 * np.log(tot / len(F)) / dt
                if not abs(out["shift_new"] - sh) <= 1e-8 * max(1, abs(sh)):
                    res.violation(sig0 + "/shift-update", dict(cfg, dt=dt, e_shift=float(e_shift), what="shift"), dict(impl=out["shift_new"], ref=sh))
    return res


def run(ctx):
    ctx.rule = ("configurations = propagator {restricted, unrestricted} x trial kind x size x n_chol {1,2,3} x rdm1 for the mean-field shift "
                "{trial, zero, arbitrary non-symmetric} x start walker {generic complex, trial determinant} x population-control shift x dt "
                "ladder {8,4,2,1,0.5,0.25,0.125}e-2; inside each: EVERY node of the tensor Gauss-Hermite rule (16 / 12^2 / 8^3) is one walker of one "
                "real propagate() call; state = (configuration, dt, node); distinct non-trivial = distinct ladder residuals; plus every "
                "word over field letters {0,+-2,+-9} x weight letters {1,60,0} x four shifts for the clipping branches")
    ctx.assume("Gaussian average taken by tensor Gauss-Hermite quadrature (exact for the polynomial part to degree 2m-1); residuals below 2e-9 are treated as quadrature/round-off floor")
    ctx.assume("hook values _verif_imp_fun/_verif_theta are the library's own imp_fun/theta (guarded add-only hook in propagate())")
    ctx.pmap(job, configs(ctx.tier, ctx.seed), tasks_per_child=2)
    ctx.require_guard("ladder_ratios_live", "branch_cos_nonpositive", "branch_below_1e-3", "branch_above_100", "steps_with_a_field_shift_above_one_in_modulus",
                      "branch_product_above_100", "branch_normal")


def replay(case):
    cfg = {k: v for k, v in case.items() if k not in ("dt", "e_shift", "what", "node")}
    r = job(cfg)
    return (len(r.violations) > 0, {"violations": [(v["signature"], v["detail"]) for v in r.violations][:2]})
