"""C02 -- local energy equals <psi_T|H|phi>/<psi_T|phi>.  Engine: gridmc."""

import numpy as np

from mc import alphabets as al
from mc import fock, gridmc, trials
from mc.core import Result

ID = "C02"
TECHNIQUE = "exhaustive product-grid enumeration (trial kinds x sizes x Hamiltonian basis x walker grid) against <psi|H|phi>/<psi|phi> in Fock space"

SPIN_DEP_KINDS = {"uhf", "ghf", "noci", "multislater", "UCISD", "ucisd", "GCISD", "uhf_cpmc", "ghf_cpmc"}
C64_KINDS = {"cisd", "cisd_faster", "ucisd"}  # energy routines that cast an intermediate to complex64
NODE_FRAC = 1e-2  # walkers whose reference overlap is below this fraction of the grid maximum are near a node


def tol_for(kind, eps):
    if kind in trials.AUTO_KINDS:
        # central second difference: truncation ~ eps^2, round-off ~ 1e-16/eps^2 (both relative to the overlap scale)
        return 3e-6 if (eps is None or eps == 1e-4) else None
    if kind in C64_KINDS:
        return 2e-5
    return 1e-9


def configs(tier, seed):
    thorough = tier == "thorough"
    out = []
    for kind in trials.KINDS_ALL:
        nmax = 4 if thorough else 3
        for (n, na, nb) in al.sizes(nmax):
            if not trials.admitted(kind, n, na, nb):
                continue
            if nb == 0 and kind in trials.NEED_BOTH_SPINS:
                continue  # outside the quantifier
            if n == na and n == nb and n > 2:
                continue  # fully filled: a single basis state, nothing to decide beyond n=2
            variants = [""]
            if kind in ("uhf", "uhf_cpmc"):
                variants = ["same", ""] + (["complex"] if kind == "uhf" else [])
            if kind == "rhf":
                variants = ["", "complex"]
            if kind in ("ghf", "noci"):
                variants = ["", "complex"] + (["complex_orth"] if kind == "noci" else [])
            if kind == "multislater":
                ndet = len(trials.all_dets(n, na, nb))
                variants = ["ref:%d" % k for k in (range(ndet) if thorough else sorted(set([0, ndet // 2, ndet - 1])))]
            for v in variants:
                out.append(dict(kind=kind, n=n, na=na, nb=nb, variant=v, seed=seed, tier=tier))
        if not thorough:
            for (n, na, nb) in [(4, 2, 2), (4, 2, 1)]:
                if trials.admitted(kind, n, na, nb):
                    v = {"uhf": "same", "uhf_cpmc": "same", "multislater": "ref:1"}.get(kind, "")
                    out.append(dict(kind=kind, n=n, na=na, nb=nb, variant=v, seed=seed, tier=tier, lite=True))
    # minority-spin-up sectors (n_dn > n_up): admissible for unrestricted walkers only (a restricted walker holds the
    # majority block first); every kind that admits the mirrored sector must admit these
    for kind in trials.KINDS_ALL:
        for (n, na, nb) in ([(3, 1, 2), (4, 1, 2), (4, 1, 3), (4, 2, 3)] if thorough else [(3, 1, 2)]):
            if trials.admitted(kind, n, nb, na) and trials.admitted(kind, n, na, nb) and kind not in trials.CLOSED_ONLY:
                v = {"uhf": "", "uhf_cpmc": "", "multislater": "ref:1"}.get(kind, "")
                out.append(dict(kind=kind, n=n, na=na, nb=nb, variant=v, seed=seed, tier=tier, lite=(n == 4)))
    cost = lambda c: -((4 if c["kind"] in trials.AUTO_KINDS else 1) * (3 ** (c["n"] * c["na"]) + 2 ** (c["n"] * (c["na"] + c["nb"]))))
    out.sort(key=cost)
    return out


def eval_energy(trial, wd, hd, mode, entry, Wa, Wb, na, nb):
    jnp, wf = trials.lib()
    from jax import vmap

    J = gridmc.jitted
    if mode == "u":
        ja, jb = jnp.asarray(Wa), jnp.asarray(Wb)
        if entry == "eager":
            return np.asarray(trial.calc_energy([ja, jb], hd, wd))
        if entry == "batched":
            return np.asarray(J(trial, "calc_energy")([ja, jb], hd, wd))
        return np.asarray(J(trial, "_calc_energy", (0, 0, None, None))(ja, jb, hd, wd))
    jw = jnp.asarray(Wa)
    if entry == "eager":
        return np.asarray(trial.calc_energy(jw, hd, wd))
    if entry == "batched":
        return np.asarray(J(trial, "calc_energy")(jw, hd, wd))
    if entry == "single":
        return np.asarray(J(trial, "_calc_energy_restricted", (0, None, None))(jw, hd, wd))
    raise ValueError(entry)


def cap_for(kind, mode, lite):
    """Grid caps for the (costlier) energy evaluations."""
    if mode == "r":
        return 8 if not lite else 6
    return 12 if not lite else 10


def job(cfg):
    res = Result()
    kind, n, na, nb, seed = cfg["kind"], cfg["n"], cfg["na"], cfg["nb"], cfg["seed"]
    thorough = cfg["tier"] == "thorough"
    lite = cfg.get("lite", False)
    eps = cfg.get("eps")
    tol = cfg.get("tol") or tol_for(kind, eps)
    tc = trials.build(kind, n, na, nb, seed, cfg["variant"], eps=eps,
                      full_basis=thorough and not lite and kind != "multislater")
    sec = fock.sector(n, na, nb)
    modes = []
    if tc.unrestricted_ok:
        modes.append("u")
    if tc.restricted_ok and na >= nb:
        modes.append("r")
    for mode in modes:
        grid = al.walker_grid(n, na, nb, seed, restricted=(mode == "r"), cap=cap_for(kind, mode, lite))
        if grid["capped"]:
            res.cap("%s n=%d (%d,%d) mode %s: %d of %d walker entries enumerated (others frozen)" % (
                kind, n, na, nb, mode, len(grid["free"]), grid["entries"]))
        Wa, Wb, Phi = gridmc.lab_walkers(tc, grid, mode == "r")
        P = grid["P"]
        if kind == "multislater":
            dmin = gridmc.multislater_blocks_ok(tc, Wa, Wb, mode)
            if dmin < 1e-3:
                res.cap("multislater %s mode %s: a reference block is singular on the grid (min|det|=%.1e); configuration not decided" % (cfg["variant"], mode, dmin))
                continue
        spin_dep = (kind in SPIN_DEP_KINDS and mode == "u") or (mode == "r" and kind in trials.CLOSED_ONLY)
        hams = gridmc.ham_alphabet(n, seed, spin_dep, thorough and not lite)
        # parameter sets: first and dense see the whole Hamiltonian alphabet, the unit parameters the dense one
        for ip, p in enumerate(tc.params):
            trial = gridmc.trial_for(tc, ip)
            O_ref = np.conj(p.ket) @ Phi
            oscale = np.abs(O_ref).max()
            good = np.abs(O_ref) > NODE_FRAC * oscale
            res.guard("near_node_excluded", int((~good).sum()))
            full = (ip == 0) or (p.label == "dense")
            for (hl, h0, h1, chol) in hams:
                if not full and not hl.startswith("dense"):
                    continue
                H = sec.hamiltonian(h0, h1, chol)
                N_ref = (np.conj(p.ket) @ H) @ Phi
                E_ref = N_ref[good] / O_ref[good]
                escale = max(1.0, np.abs(E_ref).max())
                hd = gridmc.build_ham_data(n, h0, h1, chol, trial, p.wave_data)
                entries = ["batched"]
                if hl.startswith("dense") and full:
                    entries.append("single")
                    if ip == 0:
                        entries.append("eager")
                for entry in entries:
                    tr = trial
                    if entry == "batched" and hl.startswith("dense"):
                        tr = gridmc.with_batch(trial, gridmc.batch_counts(P, False)[-1])
                        hd_e = gridmc.build_ham_data(n, h0, h1, chol, tr, p.wave_data)
                    else:
                        hd_e = hd
                    E = eval_energy(tr, p.wave_data, hd_e, mode, entry, Wa, Wb, na, nb)[good]
                    err = np.abs(E - E_ref) / escale
                    err = np.where(np.isfinite(E), err, np.inf)
                    ng = int(good.sum())
                    res.add(states=ng, transitions=ng, evaluations=ng, traces=ng)
                    bad = gridmc.first_bad(err, tol)
                    if bad is not None:
                        pt = int(np.nonzero(good)[0][bad])
                        case = dict(cfg, mode=mode, entry=entry, n_batch=int(tr.n_batch), label=p.label, ham=hl, point=pt, tol=tol)
                        res.violation("%s/%s/%s/ham:%s/par:%s" % (kind, mode, "energy", gridmc.ham_class(hl), gridmc.param_class(p.label)),
                                      case, dict(impl=E[bad], ref=E_ref[bad], err=float(err[bad]), tol=tol,
                                                 n_bad=int((~(err <= tol)).sum()), n_points=ng, max_err=float(np.nanmax(np.where(np.isfinite(err), err, np.nan)))))
                    res.guard("max_err_x1e12_" + ("auto" if kind in trials.AUTO_KINDS else "c64" if kind in C64_KINDS else "f64"), 0)
                if hl.startswith("dense") and full:
                    res.nontrivial_values((kind, n, na, nb, cfg["variant"], mode, p.label, hl), E_ref, 9)
                    # scale invariance of the mixed estimator: walkers with tiny / huge columns
                    for sc in (1e-3, 1e3):
                        Es = eval_energy(trial, p.wave_data, hd, mode, "batched", Wa * sc, None if Wb is None else Wb * sc, na, nb)[good]
                        es = np.abs(Es - E_ref) / escale
                        es = np.where(np.isfinite(Es), es, np.inf)
                        res.add(transitions=ng, evaluations=ng)
                        res.guard("scaled_walker_points", ng)
                        bad = gridmc.first_bad(es, 10 * tol)
                        if bad is not None:
                            pt = int(np.nonzero(good)[0][bad])
                            res.violation("%s/%s/energy/not-scale-invariant/par:%s" % (kind, mode, gridmc.param_class(p.label)),
                                          dict(cfg, mode=mode, entry="scaled", label=p.label, ham=hl, point=pt, tol=10 * tol, scale=sc),
                                          dict(impl=Es[bad], ref=E_ref[bad], err=float(es[bad]), walker_scale=sc))
        res.guard("grid_points_" + mode, P)
    if kind == "noci" and "u" in modes and cfg["variant"] in ("", "nonorth") and not lite:
        near_component_node(cfg, tc, sec, res)
    res.sample(dict(kind=kind, n=n, nelec=[na, nb], variant=cfg["variant"], modes=modes, n_param_sets=len(tc.params),
                    n_hamiltonians=len(hams), ham_labels=[h[0] for h in hams][:8]))
    return res


def near_component_node(cfg, tc, sec, res):
    """Walkers that are (nearly) orthogonal to ONE determinant of a multi-determinant NOCI trial while their overlap with
    the whole trial is ordinary: the property's 'non-vanishing overlap' is about the trial, not about its components,
    and c_i <D_i|H|phi> stays of order one when <D_i|phi> -> 0.  Found by moving generic walkers along a fixed complex
    direction to within 1e-9 (relative) of the nearest zero of the determinant-0 overlap polynomial."""
    kind, n, na, nb, seed = cfg["kind"], cfg["n"], cfg["na"], cfg["nb"], cfg["seed"]
    p = tc.params[-1]
    trial = gridmc.trial_for(tc, len(tc.params) - 1)
    ex = p.extra
    ket0 = fock.ket_uhf(n, na, nb, ex["dets_up"][0], ex["dets_dn"][0])
    grid = al.walker_grid(n, na, nb, seed, restricted=False, cap=3)
    Wa, Wb, _ = gridmc.lab_walkers(tc, grid, False)
    rd = np.random.default_rng(313 + seed)
    deg = na + nb
    tk = 0.7 * np.exp(2j * np.pi * np.arange(2 * deg + 3) / (2 * deg + 3))
    Xa, Xb = [], []
    for k in sorted(set([1, grid["P"] // 2, grid["P"] - 2])):
        Da = rd.normal(size=Wa[k].shape) + 1j * rd.normal(size=Wa[k].shape)
        Db = rd.normal(size=Wb[k].shape) + 1j * rd.normal(size=Wb[k].shape)
        ov0 = lambda t: np.conj(ket0) @ sec.walker_vectors((Wa[k] + t * Da)[None], (Wb[k] + t * Db)[None])[:, 0]
        roots = np.roots(np.polyfit(tk, np.array([ov0(t) for t in tk]), deg))
        t0 = roots[np.argmin(np.abs(roots))]
        for delta in (1e-9, 1e-4):
            Xa.append(Wa[k] + t0 * (1 - delta) * Da)
            Xb.append(Wb[k] + t0 * (1 - delta) * Db)
    Xa, Xb = np.array(Xa), np.array(Xb)
    Phi = sec.walker_vectors(Xa, Xb)
    O = np.conj(p.ket) @ Phi
    O0 = np.conj(ket0) @ Phi
    norm = np.linalg.norm(Phi, axis=0) * np.linalg.norm(p.ket)
    ok = np.abs(O) / norm > 1e-2  # ordinary overlap with the whole trial
    res.guard("walkers_near_a_node_of_one_component", int((ok & (np.abs(O0) < 1e-7 * np.abs(O))).sum()))
    h0, h1, chol = al.small_ham(n, 2, seed, spin_dependent=True, scale=0.5)
    H = sec.hamiltonian(h0, h1, chol)
    E_ref = ((np.conj(p.ket) @ H) @ Phi) / O
    hd = gridmc.build_ham_data(n, h0, h1, chol, trial, p.wave_data)
    E = eval_energy(trial, p.wave_data, hd, "u", "batched", Xa, Xb, na, nb)
    err = np.abs(E - E_ref) / max(1.0, np.abs(E_ref[ok]).max() if ok.any() else 1.0)
    err = np.where(np.isfinite(E), err, np.inf)
    res.add(states=int(ok.sum()), transitions=int(ok.sum()), evaluations=int(ok.sum()), traces=int(ok.sum()))
    for i in np.nonzero(ok)[0]:
        if not err[i] <= 1e-5:
            res.violation("noci/u/energy/walker-near-a-node-of-one-determinant", dict(cfg, mode="u", entry="component-node", label=p.label, point=int(i)),
                          dict(impl=E[i], ref=E_ref[i], err=float(err[i]), component_overlap_over_total=float(np.abs(O0[i]) / np.abs(O[i]))))
            break


def job_eps_ladder(cfg):
    """wave_function_auto kinds: the finite-difference energy converges quadratically in its step."""
    res = Result()
    kind, n, na, nb, seed = cfg["kind"], cfg["n"], cfg["na"], cfg["nb"], cfg["seed"]
    sec = fock.sector(n, na, nb)
    errs = []
    ladder = [4e-2, 2e-2, 1e-2]
    for eps in ladder:
        tc = trials.build(kind, n, na, nb, seed, cfg["variant"], eps=eps, full_basis=False)
        mode = "u" if tc.unrestricted_ok else "r"
        grid = al.walker_grid(n, na, nb, seed, restricted=(mode == "r"), cap=6)
        Wa, Wb, Phi = gridmc.lab_walkers(tc, grid, mode == "r")
        ip = len(tc.params) - 1
        p = tc.params[ip]
        trial = gridmc.trial_for(tc, ip)
        h0, h1, chol = al.small_ham(n, 2, seed, spin_dependent=False, scale=0.5)
        H = sec.hamiltonian(h0, h1, chol)
        O_ref = np.conj(p.ket) @ Phi
        good = np.abs(O_ref) > NODE_FRAC * np.abs(O_ref).max()
        E_ref = ((np.conj(p.ket) @ H) @ Phi)[good] / O_ref[good]
        hd = gridmc.build_ham_data(n, h0, h1, chol, trial, p.wave_data)
        E = eval_energy(trial, p.wave_data, hd, mode, "batched", Wa, Wb, na, nb)[good]
        errs.append(np.abs(E - E_ref))
        ng = int(good.sum())
        res.add(states=ng, transitions=ng, evaluations=ng, traces=ng)
    errs = np.array(errs)
    scale = max(1.0, np.abs(E_ref).max())
    # ratio per halving in [3.5, 4.5] wherever the error is above the round-off floor
    for a, b, ea, eb in ((0, 1, ladder[0], ladder[1]), (1, 2, ladder[1], ladder[2])):
        live = errs[b] > 1e-9 * scale
        res.guard("ladder_points_live", int(live.sum()))
        res.guard("ladder_points_exact", int((~live).sum()))
        if live.any():
            ratio = errs[a][live] / errs[b][live]
            bad = np.nonzero(~((ratio > 3.5) & (ratio < 4.5)))[0]
            if bad.size:
                res.violation("%s/energy/eps-ladder-not-quadratic" % kind,
                              dict(cfg, entry="eps-ladder"), dict(ratio=float(ratio[bad[0]]), eps=[ea, eb],
                                                                  err_a=float(errs[a][live][bad[0]]), err_b=float(errs[b][live][bad[0]])))
    return res


def run(ctx):
    ctx.rule = ("configurations = trial kind x (norb,n_up,n_dn) x variant x {unrestricted, restricted} x Hamiltonian alphabet "
                "(zero, h0, every symmetric unit of h1 [per spin where the property admits], every unit and pair-sum of one "
                "Cholesky matrix, unit pairs in two Cholesky slots, dense) x trial-parameter sets x full walker product grid; "
                "state = (configuration, Hamiltonian, parameter set, walker); oracle <psi|H|phi>/<psi|phi> in Fock space; "
                "non-trivial & distinct = distinct reference energies on the dense Hamiltonians")
    ctx.assume("walkers whose reference overlap is < 1e-2 of the grid maximum are excluded beforehand (property quantifies over |overlap| bounded away from 0)")
    ctx.assume("tolerances: 1e-9 (float64 formulas), 2e-5 (cisd/ucisd cast one intermediate to complex64), 3e-6 at the default finite-difference step of the AD trials, whose quadratic convergence is checked separately on a step ladder")
    jobs = configs(ctx.tier, ctx.seed)
    ctx.pmap(job, jobs, tasks_per_child=2)
    lad = [dict(kind=k, n=3, na=2, nb=(2 if k in trials.CLOSED_ONLY else 1), variant=("ref:1" if k == "multislater" else ""), seed=ctx.seed, tier=ctx.tier)
           for k in sorted(trials.AUTO_KINDS)]
    if ctx.thorough:
        lad += [dict(kind=k, n=4, na=2, nb=2, variant=("ref:3" if k == "multislater" else ""), seed=ctx.seed, tier=ctx.tier)
                for k in sorted(trials.AUTO_KINDS)]
    ctx.pmap(job_eps_ladder, lad, tasks_per_child=2)
    ctx.require_guard("grid_points_u", "grid_points_r", "ladder_points_live", "walkers_near_a_node_of_one_component")


def replay(case):
    cfg = dict(case)
    if cfg.get("entry") == "scaled":
        r = job({k: v for k, v in cfg.items() if k not in ("mode", "entry", "label", "ham", "point", "tol", "scale", "n_batch")})
        v = [x for x in r.violations if "scale-invariant" in x["signature"]]
        return (len(v) > 0, {"violations": [x["detail"] for x in v][:1]})
    if cfg.get("entry") == "component-node":
        c0 = {k: v for k, v in cfg.items() if k not in ("mode", "entry", "label", "point")}
        r = Result()
        near_component_node(c0, trials.build(c0["kind"], c0["n"], c0["na"], c0["nb"], c0["seed"], c0["variant"], full_basis=False),
                            fock.sector(c0["n"], c0["na"], c0["nb"]), r)
        return (len(r.violations) > 0, {"violations": [x["detail"] for x in r.violations][:1]})
    if cfg.get("entry") == "eps-ladder":
        r = job_eps_ladder(cfg)
        return (len(r.violations) > 0, {"violations": [v["detail"] for v in r.violations]})
    kind, n, na, nb, seed = cfg["kind"], cfg["n"], cfg["na"], cfg["nb"], cfg["seed"]
    thorough = cfg["tier"] == "thorough"
    lite = cfg.get("lite", False)
    tc = trials.build(kind, n, na, nb, seed, cfg["variant"], eps=cfg.get("eps"),
                      full_basis=thorough and not lite and kind != "multislater")
    sec = fock.sector(n, na, nb)
    mode = cfg["mode"]
    grid = al.walker_grid(n, na, nb, seed, restricted=(mode == "r"), cap=cap_for(kind, mode, lite))
    Wa, Wb, Phi = gridmc.lab_walkers(tc, grid, mode == "r")
    ip = [k for k, q in enumerate(tc.params) if q.label == cfg["label"]][0]
    p = tc.params[ip]
    trial = gridmc.trial_for(tc, ip)
    spin_dep = (kind in SPIN_DEP_KINDS and mode == "u") or (mode == "r" and kind in trials.CLOSED_ONLY)
    hams = gridmc.ham_alphabet(n, seed, spin_dep, thorough and not lite)
    hl, h0, h1, chol = [h for h in hams if h[0] == cfg["ham"]][0]
    H = sec.hamiltonian(h0, h1, chol)
    i = cfg["point"]
    phi = Phi[:, i]
    E_ref = (np.conj(p.ket) @ H @ phi) / (np.conj(p.ket) @ phi)
    # history: the explorer rebuilds intermediates on the dictionary of the previous build; replay that too by
    # preparing the dictionary for a decoy Hamiltonian first (stale-cache defects are history dependent)
    dh0, dh1, dchol = al.small_ham(n, len(chol), seed + 17, spin_dependent=False, scale=0.7)
    gridmc.build_ham_data(n, dh0, dh1, dchol, trial, p.wave_data)
    hd = gridmc.build_ham_data(n, h0, h1, chol, trial, p.wave_data)
    sl = slice(i, i + 1)
    if cfg.get("entry") in ("batched", "eager"):  # batch-order defects only show on the whole batch
        tr = gridmc.with_batch(trial, cfg.get("n_batch", 1))
        gridmc.build_ham_data(n, dh0, dh1, dchol, tr, p.wave_data)
        hd = gridmc.build_ham_data(n, h0, h1, chol, tr, p.wave_data)
        E = eval_energy(tr, p.wave_data, hd, mode, cfg["entry"], Wa, Wb, na, nb)[i]
    else:
        E = eval_energy(trial, p.wave_data, hd, mode, "single", Wa[sl], None if Wb is None else Wb[sl], na, nb)[0]
    err = abs(E - E_ref) / max(1.0, abs(E_ref))
    return (not err <= cfg["tol"], dict(impl=E, ref=E_ref, err=float(err), tol=cfg["tol"]))
