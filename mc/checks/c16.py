"""C16 -- the pyscf interface writes the molecule's Hamiltonian and a consistent trial.

Engine: gridmc over a finite catalogue (no sampling).  Every cell of

    system (H2, H4 chain, H4 ring, LiH, OH; Hubbard chains/rings and ab-initio integrals through the
    `integrals` argument) x geometry ladder x basis set x spin state x mean field (RHF/ROHF/UHF)
    x norb_frozen x {exact ERI + chol_cut, density fitting with the fitting basis given by name / as a
    dictionary / not at all, on orbital bases with (sto-3g, 6-31g) and without (sto-6g, a basis dictionary)
    a predefined fitting basis} x basis_coeff (default / rotated / Loewdin / truncated) x {mean-field object, CCSD, UCCSD} x _prep_afqmc options (walker_type x trial)

that the property admits is pushed through the REAL pipeline  pyscf_interface.prep_afqmc -> files in a
private scratch directory -> mpi_jax._prep_afqmc -> ham.build_*_intermediates -> prop.init_prop_data,
and judged against pyscf as an independent SCF / FCI / CC solver:

  (1) e_estimate = trial.calc_energy on the initial walkers, which are the trial determinant itself
      (judged only where the walker container can represent it)  == pyscf SCF energy
  (2) lowest eigenvalue of the WRITTEN (h0, h1, chol) read back from FCIDUMP_chol (pyscf direct_spin1
      on eri = chol^T chol; Fock-space model of mc/fock.py as a cross-check for <= 4 orbitals)
                                                               == pyscf FCI (frozen-core CASCI)
  (3) cisd / ucisd mixed energy at the reference determinant (e_estimate and an explicit
      trial.calc_energy on identity-column walkers)             == CCSD / UCCSD total energy
  (4) header electron count / spin / sizes, trial.nelec, tr rdm1 == mol.nelec minus the frozen core

Tolerances are derived, not fitted (see `bounds`): the pivoted Cholesky residual R = ERI - L^T L is
positive semidefinite with diagonal <= chol_cut in the basis the decomposition is done in (AO, or the
user's orthonormal basis), hence |R_ij| <= chol_cut there, and for orbitals c_p expanded in that basis
|R(pq,rs)| <= chol_cut (|c_p|_1 |c_q|_1 |c_r|_1 |c_s|_1).
"""

import contextlib
import io
import os
import pickle
import shutil
import tempfile
from math import comb

import numpy as np

from mc import alphabets as al
from mc import core
from mc.core import Result

ID = "C16"
TECHNIQUE = ("exhaustive enumeration of a finite molecule / lattice / integral-source (exact, Cholesky thresholds, every way "
             "of specifying a density-fitting basis) / option catalogue through the real prep_afqmc -> files -> _prep_afqmc "
             "pipeline, pyscf as independent SCF/FCI/CC oracle")

TMP_ROOT = os.path.join(core.ROOT, "scratch", "c16_tmp")
U32 = 2.0 ** -24  # float32 unit round-off (cisd/ucisd cast one doubles contraction to complex64/float32)
SLACK = 1e-9      # float64 algebra, relative to max(1, |E|)
N_WORKERS = int(os.environ.get("VERIF_C16_WORKERS", "8"))  # the machine is shared; raise for a dedicated 16-core run

LADDERS = [[0.8, 1.0, 1.3, 1.8], [0.85, 1.05, 1.35, 1.75], [0.9, 1.1, 1.4, 1.7],
           [0.75, 0.95, 1.25, 1.85], [0.82, 1.02, 1.28, 1.9]]
CUTS = [1e-4, 1e-6, 1e-8]


# ----------------------------------------------------------------------------- library access
_LIB = None


@contextlib.contextmanager
def quiet():
    buf = io.StringIO()
    with contextlib.redirect_stdout(buf):
        yield buf


def lib():
    """Import the library with MPI disabled (there is no libmpi here); must precede ad_afqmc.mpi_jax."""
    global _LIB
    if _LIB is None:
        from ad_afqmc import config

        config.afqmc_config["use_mpi"] = False
        with quiet():
            from ad_afqmc import mpi_jax, pyscf_interface
        import jax.numpy as jnp

        _LIB = (pyscf_interface, mpi_jax, jnp)
    return _LIB


@contextlib.contextmanager
def scratch_dir(root=None):
    """prep_afqmc / _prep_afqmc read and write FCIDUMP_chol, mo_coeff.npz, amplitudes.npz, options.bin
    in the CWD: every cell gets its own directory (under this run's own root), removed afterwards."""
    root = root or TMP_ROOT
    os.makedirs(root, exist_ok=True)
    d = tempfile.mkdtemp(prefix="cell_", dir=root)
    cwd = os.getcwd()
    os.chdir(d)
    try:
        yield d
    finally:
        os.chdir(cwd)
        shutil.rmtree(d, ignore_errors=True)


# ----------------------------------------------------------------------------- systems
def geometry(name, s):
    if name == "H2":
        return [("H", (0.0, 0.0, 0.0)), ("H", (0.0, 0.0, 0.74 * s))]
    if name == "H4c":
        return [("H", (0.0, 0.0, 0.9 * s * i)) for i in range(4)]
    if name == "H4r":
        a = 1.2 * s
        return [("H", (0.0, 0.0, 0.0)), ("H", (a, 0.0, 0.0)), ("H", (a, a, 0.0)), ("H", (0.0, a, 0.0))]
    if name == "LiH":
        return [("Li", (0.0, 0.0, 0.0)), ("H", (0.0, 0.0, 1.6 * s))]
    if name == "OH":
        return [("O", (0.0, 0.0, 0.0)), ("H", (0.0, 0.0, 0.97 * s))]
    raise ValueError(name)


def hubbard(shape, n, U):
    h1 = np.zeros((n, n))
    for i in range(n - 1):
        h1[i, i + 1] = h1[i + 1, i] = -1.0
    if shape == "ring":
        h1[0, n - 1] = h1[n - 1, 0] = -1.0
    eri = np.zeros((n, n, n, n))
    for i in range(n):
        eri[i, i, i, i] = U
    return 0.0, h1, eri


# a user-defined orbital basis (pyscf has no predefined fitting basis for a basis given as a dictionary)
USER_BASIS_H = "H S\n 3.42525091 0.15432897\n 0.62391373 0.53532814\n 0.16885540 0.44463454\nH S\n 0.3 1.0"
DF_AUX = "def2-universal-jkfit"


def is_df(eri):
    return str(eri).startswith("df")


def orbital_basis(name):
    from pyscf import gto

    return {"H": gto.basis.parse(USER_BASIS_H)} if name == "user" else name


class System:
    """Everything pyscf knows about one problem, in the basis the interface decomposes the ERIs in
    ('AO': the atomic orbitals, or the user's orthonormal basis for the `integrals` path)."""

    def __init__(self, sd):
        from pyscf import ao2mo, gto

        self.sd = sd
        self.path = "integrals" if sd["kind"] in ("hub", "molint") else "mol"
        if sd["kind"] == "mol":
            self.mol = gto.M(atom=geometry(sd["name"], sd["scale"]), basis=orbital_basis(sd["basis"]), spin=sd["spin"],
                             verbose=0)
            self.S = self.mol.intor("int1e_ovlp")
            self.h0 = float(self.mol.energy_nuc())
            self.integrals = None
        else:
            if sd["kind"] == "hub":
                h0, h1, eri = hubbard(sd["shape"], sd["n"], sd["U"])
                na, nb = sd["nelec"]
            else:  # ab-initio integrals in the Loewdin basis, handed over through the `integrals` argument
                m = gto.M(atom=geometry(sd["name"], sd["scale"]), basis=sd["basis"], spin=sd["spin"], verbose=0)
                S = m.intor("int1e_ovlp")
                w, v = np.linalg.eigh(S)
                X = v @ np.diag(w ** -0.5) @ v.T
                h1 = X.T @ (m.intor("int1e_kin") + m.intor("int1e_nuc")) @ X
                eri = np.einsum("pqrs,pi,qj,rk,sl->ijkl", m.intor("int2e"), X, X, X, X, optimize=True)
                h0 = float(m.energy_nuc())
                na, nb = m.nelec
            n = h1.shape[0]
            mol = gto.Mole()  # dummy molecule, as in examples/hubbard.ipynb
            mol.nelectron = na + nb
            mol.incore_anyway = True
            mol.spin = na - nb
            mol.verbose = 0
            mol.build()
            self.mol = mol
            self.S = np.eye(n)
            self.h0 = h0
            self._h1 = h1
            self._eri = eri
            self.integrals = {"h0": h0, "h1": h1, "h2": ao2mo.restore(8, eri, n)}
        self.nelec = tuple(int(x) for x in self.mol.nelec)
        self.nao = self.S.shape[0]
        self._mf = {}
        self._cc = {}
        self._eri_cache = {}
        self._fci = {}

    # -- mean fields -------------------------------------------------------------------------
    def mf(self, kind, eri):
        key = (kind, eri)
        if key in self._mf:
            return self._mf[key]
        from pyscf import ao2mo, scf

        mf = {"rhf": scf.RHF, "rohf": scf.ROHF, "uhf": scf.UHF}[kind](self.mol)
        if self.path == "integrals":
            h1, n, h0 = self._h1, self.nao, self.h0
            mf.get_hcore = lambda *a, **k: h1
            mf.get_ovlp = lambda *a, **k: np.eye(n)
            mf._eri = ao2mo.restore(8, self._eri, n)
            mf.energy_nuc = lambda *a, **k: h0
        elif eri == "df":  # fitting basis given by name
            mf = mf.density_fit(auxbasis=DF_AUX)
        elif eri == "df-dict":  # fitting basis given as a dictionary of explicit shells
            from pyscf import gto

            els = sorted({self.mol.atom_symbol(i) for i in range(self.mol.natm)})
            mf = mf.density_fit(auxbasis={el: gto.basis.load(DF_AUX, el) for el in els})
        elif eri == "df-none":  # no fitting basis given: pyscf picks the predefined one for the orbital basis, or, where
            mf = mf.density_fit()  # there is none (sto-6g, a basis dictionary), generates an even-tempered one at build time
        mf.conv_tol = 1e-11
        mf.max_cycle = 300
        if self.path == "integrals" and kind == "uhf":
            # staggered start so that the antiferromagnetic solution is reachable (deterministic)
            na, nb = self.nelec
            dm = np.zeros((2, self.nao, self.nao))
            w, v = np.linalg.eigh(self._h1)
            dm[0] = v[:, :na] @ v[:, :na].T
            dm[1] = v[:, :nb] @ v[:, :nb].T
            stag = np.diag([0.25 * (-1) ** i for i in range(self.nao)])
            dm[0] += stag
            dm[1] -= stag
        else:
            dm = None
        try:
            mf.kernel(dm0=dm)
        except (np.linalg.LinAlgError, AttributeError):
            # pyscf's DIIS can hit a singular B matrix on exactly degenerate lattice shells; plain Roothaan
            # iterations with a level shift are enough here (the oracle is the energy functional on whatever
            # orbitals pyscf ends with, converged or not)
            mf.diis = None
            mf.level_shift = 0.3
            mf.kernel(dm0=dm)
        if kind == "uhf":  # follow internal instabilities, as the examples do
            for _ in range(2):
                try:
                    mo1 = mf.stability()[0]
                    mf = mf.newton().run(mo1, mf.mo_occ)
                except ZeroDivisionError:  # no rotations at all (full spin channel)
                    break
        self._mf[key] = mf
        return mf

    def cc(self, kind, mfkind, eri, frozen):
        key = (kind, mfkind, eri, frozen)
        if key in self._cc:
            return self._cc[key]
        from pyscf import cc

        mf = self.mf(mfkind, eri)
        obj = (cc.CCSD if kind == "ccsd" else cc.UCCSD)(mf, frozen=frozen if frozen else None)
        obj.conv_tol = 1e-9
        obj.conv_tol_normt = 1e-7
        obj.max_cycle = 300
        obj.verbose = 0
        try:
            obj.kernel()
        except (np.linalg.LinAlgError, AttributeError):
            # pyscf's DIIS hits a singular B matrix once the amplitudes stop changing (its fallback is broken under
            # numpy 2.5); plain damped iterations instead.  Convergence does not matter for the oracle: the mixed energy
            # of the written amplitudes must equal pyscf's energy functional AT those amplitudes, converged or not.
            obj.diis = None
            obj.iterative_damping = 0.9
            obj.kernel()
        # pyscf's own energy functional at exactly the amplitudes handed to the interface
        e_ref = float(obj.e_hf) + float(obj.energy(obj.t1, obj.t2, obj.ao2mo()))
        self._cc[key] = (obj, e_ref)
        return self._cc[key]

    # -- integrals -----------------------------------------------------------------------------
    def hcore(self, mf):
        return np.asarray(mf.get_hcore())

    def eri_ao(self, eri):
        """Full 4-index two-electron integrals of the problem pyscf solves: exact, or the DF ones."""
        if eri in self._eri_cache:
            return self._eri_cache[eri]
        if self.path == "integrals":
            out = self._eri
        elif is_df(eri):
            from pyscf import lib as pl

            mf = self.mf("rhf" if self.nelec[0] == self.nelec[1] else "rohf", eri)
            L = pl.unpack_tril(np.asarray(mf.with_df._cderi))
            out = np.einsum("Lpq,Lrs->pqrs", L, L, optimize=True)
        else:
            out = self.mol.intor("int2e")
        self._eri_cache[eri] = out
        return out


def frozen_core_reduce(h0, h1, eri, nc):
    """Textbook frozen-core reduction (NumPy): the first nc orbitals doubly occupied."""
    if nc == 0:
        return h0, h1, eri
    c = slice(0, nc)
    a = slice(nc, None)
    J = np.einsum("pqcc->pq", eri[:, :, c, c])
    K = np.einsum("pccq->pq", eri[:, c, c, :])
    e = h0 + 2.0 * np.trace(h1[c, c]) + 2.0 * np.trace(J[c, c]) - np.trace(K[c, c])
    heff = h1 + 2.0 * J - K
    return float(e), heff[a, a], eri[a, a, a, a]


def lowest_eigenvalue(h0, h1, eri, norb, nelec, rot=None):
    """Lowest eigenvalue in the (n_up, n_dn) sector with pyscf's FCI machinery (dense when small).

    rot: optional orthogonal matrix; for the large spaces the integrals are first rotated by it (to the
    mean-field orbitals) -- the spectrum is invariant, Davidson just needs a diagonally dominant basis."""
    from pyscf import fci

    na, nb = nelec
    dim = comb(norb, na) * comb(norb, nb)
    if rot is not None and dim > 1300 and np.abs(rot.T @ rot - np.eye(norb)).max() < 1e-8:
        h1 = rot.T @ h1 @ rot
        eri = np.einsum("pqrs,pi,qj,rk,sl->ijkl", eri, rot, rot, rot, rot, optimize=True)
    h1 = np.ascontiguousarray(h1)
    eri = np.ascontiguousarray(eri)
    if dim == 1:
        H = fci.direct_spin1.pspace(h1, eri, norb, nelec, np=1)[1]
        return float(h0 + H[0, 0])
    if dim <= 1300:
        H = fci.direct_spin1.pspace(h1, eri, norb, nelec, np=dim)[1]
        if H.shape[0] != dim:
            raise RuntimeError("pspace did not return the full matrix")
        return float(h0 + np.linalg.eigvalsh(H)[0])
    cis = fci.direct_spin1.FCI()
    cis.conv_tol = 1e-13
    cis.max_cycle = 400
    cis.max_space = 30
    cis.verbose = 0
    e, _ = cis.kernel(h1, eri, norb, nelec, ecore=h0)
    if not cis.converged:
        raise RuntimeError("FCI Davidson did not converge")
    return float(e)


def fock_lowest(h0, h1, chol, norb, nelec):
    """Independent route for tiny cases: mc/fock.py Hamiltonian from the Cholesky vectors."""
    from mc import fock

    sec = fock.sector(norb, nelec[0], nelec[1])
    H = sec.hamiltonian(h0, np.array([h1, h1]), chol)
    H = 0.5 * (H + H.T.conj())
    return float(np.linalg.eigvalsh(H)[0])


# ----------------------------------------------------------------------------- catalogue
def _basis_letters(path, mfk, frozen, nao, small):
    if path == "integrals":
        return ["eye", "default", "rot"]
    out = ["default", "rot"]
    if frozen == 0 and small:
        out.append("lowdin")
        if mfk in ("rhf", "rohf") and nao >= 3:
            out.append("trunc")
    return out


def admitted(cell):
    """What the property text admits: RHF and ROHF with or without frozen core, UHF without; CCSD any
    frozen core; UCCSD none; no frozen core with user-supplied integrals (the interface asserts that)."""
    na, nb = cell["nelec"]
    fr = cell["frozen"]
    if fr and (cell["mf"] == "uhf" or cell["path"] == "integrals" or cell["cc"] == "uccsd"):
        return False
    if fr and not (2 * fr < na + nb and nb - fr >= 0):
        return False
    if cell["mf"] == "rhf" and na != nb:
        return False
    if cell["cc"] == "ccsd" and not (cell["mf"] == "rhf" and nb - fr >= 1):
        return False
    if cell["cc"] == "uccsd" and not (cell["mf"] in ("uhf", "rohf") and nb >= 1 and cell["nvir"][1] >= 1 and cell["nvir"][0] >= 1):
        return False
    if cell["cc"] == "uccsd" and cell["mf"] == "rohf" and na == nb:
        return False
    if cell["cc"] == "ccsd" and cell["nvir"][0] < 1:
        return False
    if cell["cc"] and cell["bas"] != "default":
        return False  # CI amplitudes live in the mean-field orbital basis
    if cell["bas"] in ("lowdin", "trunc") and fr:
        return False  # frozen orbitals must be the mean-field core
    if cell["bas"] == "trunc" and cell["mf"] == "uhf":
        return False
    if min(cell["nvir"]) < 0:
        return False
    return True


def _nelec_of(sd):
    if sd["kind"] == "hub":
        return tuple(sd["nelec"])
    z = {"H2": 2, "H4c": 4, "H4r": 4, "LiH": 4, "OH": 9}[sd["name"]]
    return ((z + sd["spin"]) // 2, (z - sd["spin"]) // 2)


def _nao_of(sd):
    if sd["kind"] == "hub":
        return sd["n"]
    per = {"sto-3g": {"H": 1, "Li": 5, "O": 5}, "sto-6g": {"H": 1, "Li": 5, "O": 5}, "6-31g": {"H": 2, "Li": 9, "O": 9},
           "user": {"H": 2}}[sd["basis"]]
    atoms = {"H2": "HH", "H4c": "HHHH", "H4r": "HHHH", "LiH": ["Li", "H"], "OH": "OH"}[sd["name"]]
    return sum(per[a] for a in atoms)


def system_list(tier, seed):
    """Simplest first."""
    scales = LADDERS[seed % len(LADDERS)]
    out = []
    mols = [("H2", "sto-3g", 0), ("H2", "sto-3g", 2), ("H2", "6-31g", 0), ("H4c", "sto-3g", 0),
            ("H4r", "sto-3g", 0), ("H4c", "sto-3g", 2), ("LiH", "sto-3g", 0), ("OH", "sto-3g", 1),
            ("H4r", "sto-3g", 2), ("LiH", "sto-3g", 2), ("OH", "sto-3g", 3), ("H4c", "6-31g", 0),
            ("H4r", "6-31g", 0), ("LiH", "6-31g", 0), ("OH", "6-31g", 1)]
    for name, basis, spin in mols:
        for i, s in enumerate(scales):
            out.append(dict(kind="mol", name=name, basis=basis, spin=spin, scale=s, scale_i=i))
    # orbital bases WITHOUT a predefined density-fitting basis (sto-6g: the basis of the repository's H-chain examples;
    # a basis dictionary): equilibrium and stretched rung
    for name, basis, spin in [("H2", "sto-6g", 0), ("H4c", "sto-6g", 0), ("H4c", "user", 0), ("LiH", "sto-6g", 0),
                              ("OH", "sto-6g", 1)]:
        for i in (1, 3):
            out.append(dict(kind="mol", name=name, basis=basis, spin=spin, scale=scales[i], scale_i=i))
    for shape, n in [("chain", 2), ("chain", 3), ("ring", 3), ("chain", 4), ("ring", 4), ("chain", 5),
                     ("ring", 5), ("chain", 6), ("ring", 6)]:
        for U in (1.0, 4.0, 8.0):
            fills = [(a, b) for a in range(1, n + 1) for b in range(1, a + 1) if a + b <= n]
            if n == 6:
                fills = [(3, 3), (2, 2), (3, 2)]
            for f in fills:
                out.append(dict(kind="hub", shape=shape, n=n, U=U, nelec=list(f)))
    for name, spin in [("H2", 0), ("H4c", 0), ("H4c", 2), ("LiH", 0)]:
        for i, s in enumerate(scales):
            out.append(dict(kind="molint", name=name, basis="sto-3g", spin=spin, scale=s, scale_i=i))
    return out


def cells_of_system(sd, tier):
    """Every admitted cell of one system (the thorough matrix), simplest first.

    Full product mean field x norb_frozen x {3 thresholds, DF} x basis_coeff letter for the minimal-basis
    molecules; the letters that only repeat another one are crossed with a reduced set: the ROHF class on a
    closed shell (same orbitals as RHF), the second high-spin state of a molecule, the first and third rung
    of the geometry ladder (the full product runs on the second = equilibrium and the fourth = stretched
    rung), 6-31G (one threshold + DF, two basis letters), lattice models (threshold axis at U=4 with the
    examples' basis_coeff=eye; the other basis letters at U=4, CC at U in {1,4})."""
    na, nb = _nelec_of(sd)
    nao = _nao_of(sd)
    path = "integrals" if sd["kind"] in ("hub", "molint") else "mol"
    small = sd.get("basis", "sto-3g") == "sto-3g"
    big = sd["kind"] == "mol" and sd["name"] == "OH" and sd["basis"] == "6-31g"
    nofit = sd.get("basis") in ("sto-6g", "user")
    mfs = ["rhf", "uhf", "rohf"] if na == nb else ["rohf", "uhf"]
    out = []
    for mfk in mfs:
        minor = (mfk == "rohf" and na == nb) or sd.get("scale_i", 1) in (0, 2) or \
            (sd["kind"] == "mol" and (sd["name"], sd["spin"]) in (("H2", 2), ("H4r", 2), ("LiH", 2), ("OH", 3)))
        for fr in (0, 1):
            if path == "integrals":
                eris = [("exact", c) for c in CUTS] if not (minor or sd.get("U", 4.0) != 4.0) else [("exact", 1e-6)]
            elif small and not minor:
                eris = [("exact", c) for c in CUTS] + [("df", None)]
            else:
                eris = [("exact", 1e-6), ("df", None)]
            if nofit:
                eris = [("df-none", None), ("df", None), ("exact", 1e-6)]
            if big:
                eris = [("exact", 1e-6)]
            if path == "mol" and small and not minor:  # the other ways of specifying the fitting basis, on the default orbital basis
                eris = eris + [("df-dict", None), ("df-none", None)]
            for eri, cut in eris:
                for ccx in (None, "ccsd", "uccsd"):
                    letters = _basis_letters(path, mfk, fr, nao, small)
                    if minor or big:
                        letters = letters[:2]
                    for bas in letters:
                        if path == "integrals" and bas != "eye" and cut != 1e-6:
                            continue
                        if sd["kind"] == "hub" and bas != "eye" and not (sd["U"] == 4.0 or (ccx and sd["U"] == 1.0)):
                            continue
                        if ccx and (is_df(eri) or nofit):
                            continue  # DF coupled cluster is not claimed by the property
                        if eri in ("df-dict", "df-none") and not nofit and bas != "default":
                            continue
                        if ccx and not small and cut != 1e-6:
                            continue
                        cell = dict(sys=sd, path=path, nelec=[na, nb], nao=nao, mf=mfk, frozen=fr, eri=eri,
                                    cut=cut, bas=bas, cc=ccx)
                        nact = nao - fr - (1 if bas == "trunc" else 0)
                        cell["nvir"] = [nact - (na - fr), nact - (nb - fr)]
                        if admitted(cell):
                            out.append(cell)
    return out


def options_of(cell):
    """walker_type x trial combinations for which the written files define a trial.  The full cross is run
    on the cells with the interface's default orbital basis (basis_coeff=eye on the `integrals` path, as in
    the examples); the other basis_coeff letters change the written files, not the option handling, and get
    each trial once with its natural walker type plus the mixed pair uhf-trial/rhf-walkers."""
    na, nb = cell["nelec"]
    trials = []
    if na == nb and cell["mf"] in ("rhf", "rohf"):
        trials.append("rhf")
    trials.append("uhf")
    if cell["cc"] == "ccsd":
        trials = ["cisd"] + trials[:1]
    if cell["cc"] == "uccsd":
        trials = ["ucisd", "uhf"]
    out = [dict(walker_type=w, trial=t) for t in trials for w in ("rhf", "uhf")]
    primary = cell["bas"] == ("eye" if cell["path"] == "integrals" else "default") or cell["cc"]
    if not primary:
        out = [o for o in out if (o["trial"], o["walker_type"]) in (("rhf", "rhf"), ("uhf", "uhf"), ("uhf", "rhf"))]
        if "rhf" in trials:
            out = [o for o in out if (o["trial"], o["walker_type"]) != ("uhf", "rhf")]
    return out


def letters_of(cell, scales):
    sd = cell["sys"]
    if sd["kind"] == "hub":
        sysname = "hub-%s%d" % (sd["shape"], sd["n"])
        scale_i = "U%g" % sd["U"]
        spin = "f%d,%d" % tuple(sd["nelec"])
        basisset = "site"
    else:
        sysname = ("int-" if sd["kind"] == "molint" else "") + sd["name"]
        scale_i = "s%d" % scales.index(sd["scale"])
        spin = "spin%d" % sd["spin"]
        basisset = sd["basis"]
    eri = cell["eri"] if is_df(cell["eri"]) else "cut%g" % cell["cut"]
    eri_c = "df" if is_df(cell["eri"]) else eri
    sysclass = sysname if sd["kind"] == "mol" else ("hub-" + sd["shape"] if sd["kind"] == "hub" else "int-mol")
    return dict(sysclass=sysclass, sysname=sysname, scale_i=scale_i, basisset=basisset, spin=spin, mf=cell["mf"],
                frozen=cell["frozen"], eri=eri, eri_c=eri_c, bas=cell["bas"], cc=str(cell["cc"]), path=cell["path"])


def cell_cost(cell):
    """Rough CPU seconds (dominated by XLA compilation per option, FCI for the large spaces)."""
    n = cell["nao"]
    na, nb = cell["nelec"]
    dim = comb(n, na) * comb(n, nb)
    return 1.5 + len(options_of(cell)) * (0.7 + (0.4 if cell["cc"] else 0.0) + 0.004 * n * n) + 1.2e-4 * dim


def quick_subset(cells, scales):
    """Deterministic greedy covering array: every letter of every axis, and every pair of letters of the
    listed axis pairs that occurs in the full matrix of the cheap systems, is covered by at least one
    selected cell; cheapest cells preferred.  (system class = molecule / lattice shape / ab-initio
    integrals; the individual lattice sizes, spin states and basis sets are covered letter by letter.)"""
    cheap = [c for c in cells if cell_cost(c) < 15.0]
    lets = [letters_of(c, scales) for c in cheap]
    # eri_c = threshold letter or "df"; eri additionally tells HOW the fitting basis was specified (name / dictionary /
    # not at all), which is crossed with the orbital basis set: whether pyscf has a predefined fit for it decides
    # what `with_df.auxbasis` holds
    pair_axes = [("sysclass", a) for a in ("mf", "frozen", "eri_c", "bas", "cc")] + \
                [("path", a) for a in ("sysname", "scale_i", "spin", "basisset")] + \
                [("mf", "frozen"), ("mf", "eri_c"), ("mf", "bas"), ("mf", "cc"), ("frozen", "eri_c"), ("frozen", "bas"),
                 ("frozen", "cc"), ("eri_c", "bas"), ("eri_c", "cc"), ("path", "bas"), ("path", "eri_c"), ("spin", "mf"),
                 ("basisset", "eri")]

    def pairs(l):
        return {(a, l[a], b, l[b]) for a, b in pair_axes}

    ps = [pairs(l) for l in lets]
    uncovered = set().union(*ps) if ps else set()
    costs = [cell_cost(c) for c in cheap]
    chosen = []
    while uncovered:
        best, bi = 0.0, None
        for i, p in enumerate(ps):
            g = len(p & uncovered)
            if g and g / costs[i] > best:
                best, bi = g / costs[i], i
        if bi is None:
            break
        chosen.append(bi)
        uncovered -= ps[bi]
    return [cheap[i] for i in sorted(chosen)]


def build_jobs(tier, seed):
    scales = LADDERS[seed % len(LADDERS)]
    systems = system_list(tier, seed)
    cells = []
    for si, sd in enumerate(systems):
        for c in cells_of_system(sd, tier):
            c["si"] = si
            cells.append(c)
    n_full = len(cells)
    if tier != "thorough":
        sel = quick_subset(cells, scales)
        # plus the most sensitive cell of each coupled-cluster kind (tightest threshold, most polarised / frozen system)
        def sentinel(c):
            sd = c["sys"]
            if sd["kind"] != "mol" or c["cut"] != 1e-8 or sd["basis"] != "sto-3g":
                return False
            return (sd["name"], sd["spin"], sd["scale"], c["mf"], c["cc"], c["frozen"]) in (
                ("OH", 1, scales[1], "rohf", "uccsd", 0), ("H4c", 0, scales[3], "uhf", "uccsd", 0),
                ("LiH", 0, scales[1], "rhf", "ccsd", 1))
        ids = {id(c) for c in sel}
        cells = sel + [c for c in cells if sentinel(c) and id(c) not in ids]
    jobs = {}
    for c in cells:
        jobs.setdefault(c["si"], []).append(c)
    out = [dict(si=si, sys=systems[si], cells=cs, seed=seed, tier=tier) for si, cs in jobs.items()]
    # split heavy systems so that no single worker becomes the critical path
    split = []
    for j in out:
        tot = sum(cell_cost(c) for c in j["cells"])
        k = int(min(len(j["cells"]), max(1, round(tot / 45.0))))
        for r in range(k):
            split.append(dict(j, cells=j["cells"][r::k]))
    split.sort(key=lambda j: -sum(cell_cost(c) for c in j["cells"]))
    return split, n_full, len(cells)


# ----------------------------------------------------------------------------- bounds
def bounds(cell, wa, wb, Bact, amps):
    """First-principles energy tolerances (wa, wb: 1-norms |c_p|_1 of the ACTIVE mean-field orbitals of
    each spin in the decomposition basis, occupied first; Bact: the written orbital basis).

    delta = Cholesky threshold: the residual R = ERI - L^T L of a pivoted Cholesky decomposition is
    positive semidefinite with 0 <= diag <= delta, so |R_ij| <= delta in the decomposition basis and, R being
    PSD in every basis, |R(pq,rs)| <= sqrt(R(pq,pq) R(rs,rs)) <= delta w_p w_q w_r w_s  with  w_p = |c_p|_1.
      determinant:  dE = 1/2 sum_{i,j all spins} R(ii,jj) - 1/2 sum_{i,j same spin} R(ij,ji)
         |dE| <= delta/2 [ (A+B)^2 + A^2 + B^2 ],  A = sum_{i in occ alpha} w_i^2,  B likewise for beta
      exact ground state: R = sum_k v_k v_k^T (PSD), H - H_written = dH = 1/2 sum_k V_k^2 - 1/2 sum_ps K_ps E_ps with
         V_k = sum v_k,pq E_pq and K_ps = sum_q R(pq,qs) PSD.  By the variational principle on both sides
         -1/2 tr(K gamma) <= E0(H) - E0(H_written) <= 1/2 sum_k <V_k^2>.  A one-body operator takes its extreme
         values on determinants of its own eigen-orbitals with occupations n_p in {0,1,2}, sum n_p = N, so
         ||V_k||^2 <= (sum n_p^2)(sum lambda_p^2) <= 2N ||v_k||_F^2;  sum_k ||v_k||_F^2 = tr R = tr K;  gamma <= 2:
         |dE0| <= N tr R <= N delta (sum_p |b_p|_1^2)^2              (b_p: written orbital basis, active space)
      CC mixed energy at the reference (linear in H): determinant bound
         + doubles   sum tau_ijab [2 R(ia,jb) - R(ib,ja)]            <= 3 delta sum |tau_ijab| w_i w_a w_j w_b
           (UCCSD: 1/4 sum tau_aa <ij||ab> + 1/4 sum tau_bb <ij||ab> + sum tau_ab (ia|jb) accordingly)
         + singles   sum_s sum_ia t_ia dF_ia,  |dF_ia| <= delta w_i w_a (A + B + same-spin sum)
         + the float32 contraction of the doubles term inside cisd/ucisd (added where the trial is known).
    Density fitting: both sides use the same DF Hamiltonian, delta = 0."""
    delta = 0.0 if is_df(cell["eri"]) else float(cell["cut"])
    na, nb = cell["nelec"][0] - cell["frozen"], cell["nelec"][1] - cell["frozen"]
    N = na + nb
    A, Bb = float((wa[:na] ** 2).sum()), float((wb[:nb] ** 2).sum())
    T = float((np.abs(Bact).sum(0) ** 2).sum())
    b = dict(delta=delta)
    b["scf"] = 0.5 * delta * ((A + Bb) ** 2 + A * A + Bb * Bb)
    b["fci"] = max(N, 1) * delta * T * T
    if amps is not None:
        oa, va, ob, vb = wa[:na], wa[na:], wb[:nb], wb[nb:]
        if amps["kind"] == "ccsd":
            d = 3.0 * np.einsum("ijab,i,j,a,b->", np.abs(amps["tau"]), oa, oa, va, va)
            s1 = 2.0 * np.einsum("ia,i,a->", np.abs(amps["t1"]), oa, va) * (A + Bb + A)
        else:
            d = 0.5 * np.einsum("ijab,i,j,a,b->", np.abs(amps["tau_aa"]), oa, oa, va, va) \
                + 0.5 * np.einsum("ijab,i,j,a,b->", np.abs(amps["tau_bb"]), ob, ob, vb, vb) \
                + np.einsum("ijab,i,j,a,b->", np.abs(amps["tau_ab"]), oa, ob, va, vb)
            s1 = np.einsum("ia,i,a->", np.abs(amps["t1a"]), oa, va) * (A + Bb + A) \
                + np.einsum("ia,i,a->", np.abs(amps["t1b"]), ob, vb) * (A + Bb + Bb)
        b["cc"] = b["scf"] + delta * float(d + s1)
    return b


# ----------------------------------------------------------------------------- one cell
def basis_matrix(cell, sysobj, mf, seed):
    """The basis_coeff argument (None = let the interface pick the mean-field orbitals) and the matrix
    of the basis the interface will actually use."""
    mo = np.asarray(mf.mo_coeff)
    mo_a = mo[0] if mo.ndim == 3 else mo
    nao, fr, bas = sysobj.nao, cell["frozen"], cell["bas"]
    if bas == "default":
        return None, mo_a
    if bas == "eye":
        return np.eye(nao), np.eye(nao)
    if bas == "lowdin":
        w, v = np.linalg.eigh(sysobj.S)
        X = v @ np.diag(w ** -0.5) @ v.T
        return X, X
    if bas == "trunc":
        B = mo_a[:, : nao - 1].copy()
        return B, B
    if bas == "rot":  # generic rotation of the non-frozen orbitals (mixes occupied and virtual)
        U = np.eye(nao)
        U[fr:, fr:] = al.frame(nao - fr, seed, salt=nao + fr)
        B = mo_a @ U
        return B, B
    raise ValueError(bas)


def occupied_blocks(mf, nelec):
    """pyscf's occupied orbitals of each spin (selected by mo_occ, not by position) and the full orbital
    sets reordered occupied-first."""
    mo = np.asarray(mf.mo_coeff)
    occ = np.asarray(mf.mo_occ)
    if mo.ndim == 3:
        oa, ob = occ[0] > 0, occ[1] > 0
        ma, mb = mo[0], mo[1]
    else:
        oa, ob = occ > 0, occ > 1
        ma = mb = mo
    if int(oa.sum()) != nelec[0] or int(ob.sum()) != nelec[1]:
        raise RuntimeError("pyscf occupation numbers do not match mol.nelec")
    sa = np.argsort(~oa, kind="stable")
    sb = np.argsort(~ob, kind="stable")
    return ma[:, oa], mb[:, ob], [ma[:, sa], mb[:, sb]]


def aufbau(mf):
    occ = np.asarray(mf.mo_occ)
    occ = occ if occ.ndim == 2 else occ[None]
    return all(np.all(np.diff(o) <= 1e-12) for o in occ)


def read_files():
    import h5py

    with h5py.File("FCIDUMP_chol", "r") as f:
        header = [int(x) for x in np.asarray(f["header"])]
        nmo = header[1]
        h0 = float(np.asarray(f["energy_core"]))
        h1 = np.asarray(f["hcore"]).reshape(nmo, nmo)
        chol = np.asarray(f["chol"]).reshape(-1, nmo, nmo)
    mo = np.load("mo_coeff.npz")["mo_coeff"]
    return header, h0, h1, chol, mo


def path_class(cell):
    """Code path of prep_afqmc the cell goes through: base path plus optional flags."""
    s = cell["path"]
    if cell["frozen"]:
        s += "+frozen"
    if cell["path"] == "integrals":
        s += {"eye": "", "default": "+mo_basis", "rot": "+basis_coeff"}[cell["bas"]]
    elif cell["bas"] != "default":
        s += "+basis_coeff"
    if is_df(cell["eri"]):
        s += "+df"
    return s


def minimal_signatures(violations):
    """The same defect shows up under every optional flag of the path class; keep, per (site, failure
    class), only the path classes that are minimal under flag inclusion (the failure already occurs
    without the extra flag)."""
    def parse(sig):
        head, _, cls = sig.rpartition(":")
        site, _, pc = head.rpartition("/")
        parts = pc.split("+")
        return (site, cls, parts[0]), frozenset(parts[1:])

    groups = {}
    for v in violations:
        if not v["signature"].startswith(("written-", "header/", "_prep_afqmc/", "prep_afqmc/")):
            continue
        k, flags = parse(v["signature"])
        groups.setdefault(k, set()).add(flags)
    keep = []
    for v in violations:
        if v["signature"].startswith(("written-", "header/", "_prep_afqmc/", "prep_afqmc/")):
            k, flags = parse(v["signature"])
            if any(o < flags for o in groups[k]):
                continue
        keep.append(v)
    return keep


def eval_cell(cell, sysobj, seed, res=None, tmp_root=None):
    """Run ONE catalogue cell through the real pipeline; returns (violations, info)."""
    pi, mj, jnp = lib()
    res = res if res is not None else Result()
    viol = []
    na, nb = sysobj.nelec
    fr = cell["frozen"]
    na_act, nb_act = na - fr, nb - fr
    mf = sysobj.mf(cell["mf"], cell["eri"])
    is_aufbau = aufbau(mf)
    if not is_aufbau:  # pyscf may return e.g. mo_occ = [2, 0, 1] (ROHF, degenerate open shell on a lattice)
        if cell["cc"]:
            # pyscf's own CC modules slice mo_coeff[:, :nocc] as occupied, i.e. correlate a different determinant
            # than the SCF one: the oracle itself is not valid on such a reference
            res.guard("outside_domain_cc_on_non_aufbau_reference")
            return viol, {}
        res.guard("cells_with_non_aufbau_mo_occ")
    # pyscf's energy functional on pyscf's orbitals (equals mf.e_tot; also meaningful if the SCF stopped early)
    e_scf = float(mf.energy_tot(mf.make_rdm1()))
    ccobj = e_cc = amps = None
    if cell["cc"]:
        ccobj, e_cc = sysobj.cc(cell["cc"], cell["mf"], cell["eri"], fr)
        flat = np.concatenate([np.ravel(x) for x in (list(ccobj.t1) if cell["cc"] == "uccsd" else [ccobj.t1])] +
                              [np.ravel(x) for x in (list(ccobj.t2) if cell["cc"] == "uccsd" else [ccobj.t2])])
        if not (np.isfinite(e_cc) and np.all(np.isfinite(flat)) and np.abs(flat).max() < 1e3):
            # pyscf's CC iteration diverged (quasi-degenerate reference): there are no amplitudes to hand over
            res.guard("outside_domain_pyscf_cc_diverged")
            return viol, {}
        if cell["cc"] == "ccsd":
            t1, t2 = np.asarray(ccobj.t1), np.asarray(ccobj.t2)
            amps = dict(kind="ccsd", t1=t1, tau=t2 + np.einsum("ia,jb->ijab", t1, t1))
        else:
            t1a, t1b = ccobj.t1
            taa, tab, tbb = ccobj.t2
            amps = dict(kind="uccsd", t1a=np.asarray(t1a), t1b=np.asarray(t1b),
                        tau_aa=taa + 2 * np.einsum("ia,jb->ijab", t1a, t1a),
                        tau_bb=tbb + 2 * np.einsum("ia,jb->ijab", t1b, t1b),
                        tau_ab=tab + np.einsum("ia,jb->ijab", t1a, t1b))
    mf_used = ccobj._scf if ccobj is not None else mf  # UCCSD on an ROHF reference converts it to UHF
    arg_basis, B = basis_matrix(cell, sysobj, mf_used, seed)
    Ca_occ, Cb_occ, Call = occupied_blocks(mf_used, (na, nb))
    w_a = np.abs(Call[0][:, fr:]).sum(0)
    w_b = np.abs(Call[-1][:, fr:]).sum(0)
    bnd = bounds(cell, w_a, w_b, B[:, fr:], amps)

    # --- reference Hamiltonian in the basis B and its exact ground state (pyscf) -----------------
    hB = B.T @ sysobj.hcore(mf_used) @ B
    eriB = np.einsum("pqrs,pi,qj,rk,sl->ijkl", sysobj.eri_ao(cell["eri"]), B, B, B, B, optimize=True)
    r_h0, r_h1, r_eri = frozen_core_reduce(sysobj.h0, hB, eriB, fr)
    nact = r_h1.shape[0]
    # the exact energy depends on the orbital basis only through the frozen core and the spanned space
    fkey = (cell["eri"], fr, cell["mf"] if (fr or cell["bas"] == "trunc") else None, cell["bas"] == "trunc")
    # written basis -> mean-field orbitals of the same active space (orthogonal; used only to precondition Davidson)
    to_mo = B[:, fr:].T @ sysobj.S @ Call[0][:, fr:fr + nact]
    if fkey not in sysobj._fci:
        sysobj._fci[fkey] = lowest_eigenvalue(r_h0, r_h1, r_eri, nact, (na_act, nb_act), rot=to_mo)
    e_fci_ref = sysobj._fci[fkey]

    # can a restricted walker (one orbital set, beta = leading columns) represent the SCF determinant?
    if nb:
        sv = np.linalg.svd(Ca_occ.T @ sysobj.S @ Cb_occ, compute_uv=False)
        restricted_ok = bool(sv.min() > 1.0 - 1e-8)
    else:
        restricted_ok = True

    info = dict(e_scf=e_scf, e_fci_ref=e_fci_ref, e_cc=e_cc, bounds=bnd)
    pc = path_class(cell)
    with scratch_dir(tmp_root):
        kw = dict(norb_frozen=fr, chol_cut=cell["cut"] if cell["cut"] else 1e-5)
        if arg_basis is not None:
            kw["basis_coeff"] = arg_basis
        if sysobj.integrals is not None:
            kw["integrals"] = sysobj.integrals
        if ccobj is not None:
            kw.pop("norb_frozen")  # the interface takes it from cc.frozen
        try:
            with quiet():
                pi.prep_afqmc(ccobj if ccobj is not None else mf, **kw)
            header, w_h0, w_h1, w_chol, w_mo = read_files()
        except Exception as e:  # noqa: BLE001 -- an admitted cell the interface cannot prepare describes no problem at all
            res.add(states=1, transitions=1, traces=1)
            viol.append(("prep_afqmc/%s:raises-%s" % (pc, type(e).__name__), dict(what="prep"),
                         dict(error="%s: %s" % (type(e).__name__, str(e)[:300]))))
            return viol, info
        res.add(traces=1)

        # (4) header bookkeeping ------------------------------------------------------------------
        exp_header = [na_act + nb_act, nact, na - nb, w_chol.shape[0]]
        res.add(states=1, transitions=1, evaluations=1)
        if header != exp_header:
            viol.append(("header/%s:electron-count-or-size" % pc, dict(what="header"),
                         dict(written=header, expected=exp_header)))

        # (2) exact ground state of the written Hamiltonian -------------------------------------------
        w_eri = np.einsum("gpq,grs->pqrs", w_chol, w_chol, optimize=True)
        hsym = 0.5 * (w_h1 + w_h1.T)

        def ham_piece():
            """Label only, consulted after an energy comparison has failed: which written piece differs from the
            reference Hamiltonian in the written basis (ERI elementwise bound: delta |b_p|_1 |b_q|_1 |b_r|_1 |b_s|_1)."""
            if w_h1.shape != r_h1.shape:
                return "shape"
            if not is_aufbau:
                return None  # the interface may legitimately order the orbitals differently from the reference basis B
            l1 = np.abs(B[:, fr:]).sum(0)
            eb = bnd["delta"] * np.einsum("p,q,r,s->pqrs", l1, l1, l1, l1) + 1e-8
            if abs(w_h0 - r_h0) > 1e-8 * max(1.0, abs(r_h0)):
                return "energy_core"
            if np.abs(hsym - r_h1).max() > 1e-8 * max(1.0, np.abs(r_h1).max()):
                return "hcore"
            if np.any(np.abs(w_eri - r_eri) > eb):
                return "chol"
            return None
        fci_ok = None
        if header[1] == nact and header[0] == na_act + nb_act:
            e_fci_w = lowest_eigenvalue(w_h0, hsym, w_eri, nact, (na_act, nb_act), rot=to_mo)
            if nact <= 4:
                e2 = fock_lowest(w_h0, hsym, w_chol, nact, (na_act, nb_act))
                if not abs(e2 - e_fci_w) <= 1e-9 * max(1.0, abs(e2)):
                    raise RuntimeError("reference self-test: pyscf FCI %r vs Fock model %r on the written integrals" % (e_fci_w, e2))
                res.guard("fci_cross_checked_with_fock_model")
            tol = bnd["fci"] + SLACK * max(1.0, abs(e_fci_ref))
            err = abs(e_fci_w - e_fci_ref)
            fci_ok = bool(err <= tol)
            res.add(states=1, transitions=1, evaluations=1)
            res.nontrivial(("fci", round(e_fci_ref, 8)))
            res.guard("fci_compared")
            info.update(e_fci_written=e_fci_w, fci_err=err, fci_tol=tol)
            if not fci_ok:
                viol.append(("written-hamiltonian[%s]/%s:energy!=pyscf" % (ham_piece(), pc), dict(what="fci"),
                             dict(which="lowest eigenvalue of the written (h0,h1,chol) vs pyscf FCI/CASCI", e_written=e_fci_w,
                                  e_pyscf=e_fci_ref, err=err, tol=tol, h0_written=w_h0, h0_ref=r_h0,
                                  max_dh1=float(np.abs(hsym - r_h1).max()), max_deri=float(np.abs(w_eri - r_eri).max()),
                                  nchol=int(w_chol.shape[0]))))

        # (1), (3) options of the set-up routine ----------------------------------------------------
        opts = options_of(cell)
        outcomes = {}
        for io_, opt in enumerate(opts):
            o = dict(opt, n_walkers=2, seed=7, dt=0.01)
            tr, wt = opt["trial"], opt["walker_type"]
            target = e_cc if tr in ("cisd", "ucisd") else e_scf
            tkey = "cc" if tr in ("cisd", "ucisd") else "scf"
            tol = bnd[tkey] + SLACK * max(1.0, abs(target))
            stage = "_prep_afqmc"
            representable = (wt == "uhf") or restricted_ok
            try:
                with quiet():
                    if io_ == 0:  # once per cell through options.bin
                        with open("options.bin", "wb") as f:
                            pickle.dump(o, f)
                        out = mj._prep_afqmc()
                    else:
                        out = mj._prep_afqmc(dict(o))
                ham_data, ham, prop, trial, wave_data = out[0], out[1], out[2], out[3], out[4]
                res.add(traces=1)
                # bookkeeping of the read-back trial
                ok_n = tuple(int(x) for x in trial.nelec) == (na_act, nb_act) and int(trial.norb) == nact
                tr_rdm = [float(np.trace(np.asarray(wave_data["rdm1"][s]))) for s in (0, 1)]
                ok_n = ok_n and abs(tr_rdm[0] - na_act) < 1e-8 and abs(tr_rdm[1] - nb_act) < 1e-8
                res.add(states=1, transitions=1, evaluations=1)
                if not ok_n:
                    viol.append(("_prep_afqmc/%s:trial-electron-count" % pc, dict(what="nelec", option=opt),
                                 dict(trial_nelec=list(trial.nelec), expected=[na_act, nb_act], tr_rdm1=tr_rdm)))
                    continue
                stage = "build_intermediates"
                ham_data = ham.build_measurement_intermediates(ham_data, trial, wave_data)
                ham_data = ham.build_propagation_intermediates(ham_data, prop, trial, wave_data)
                if tr in ("cisd", "ucisd"):
                    # float32 contraction sum_g L_pt L_qu c_ptqu: 3 roundings per product + float32 accumulation
                    La = np.abs(w_chol[:, :na_act, na_act:])
                    if tr == "cisd":
                        c2 = np.abs(np.asarray(wave_data["ci2"]))
                        s32 = 3.0 * np.einsum("gpt,gqu,ptqu->", La, La, c2)
                        nterm = c2.size
                    else:
                        mob = np.asarray(wave_data["mo_coeff"][1])
                        Lb = np.abs(np.einsum("pi,gij,jq->gpq", mob.T, w_chol, mob))[:, :nb_act, nb_act:]
                        s32 = 0.5 * np.einsum("gpt,gqu,ptqu->", La, La, np.abs(np.asarray(wave_data["ci2AA"]))) \
                            + 0.5 * np.einsum("gpt,gqu,ptqu->", Lb, Lb, np.abs(np.asarray(wave_data["ci2BB"]))) \
                            + np.einsum("gpt,gqu,ptqu->", La, Lb, np.abs(np.asarray(wave_data["ci2AB"])))
                        nterm = np.asarray(wave_data["ci2AB"]).size
                    f32 = (4 + np.log2(max(2, nterm))) * U32 * s32
                    tol = tol + float(f32)
                stage = "init_prop_data"
                pd = prop.init_prop_data(trial, wave_data, ham_data)
                e_est = float(pd["e_estimate"])
                # (3) explicit reference-determinant walker (identity columns) in the container of this walker_type;
                # for the single-determinant trials e_estimate already is that evaluation (initial walkers = trial)
                stage = "calc_energy"
                e_det = None
                if tr in ("cisd", "ucisd") and representable:
                    wa = np.eye(nact)[:, :na_act]
                    wb = wa if tr == "cisd" else np.asarray(wave_data["mo_coeff"][1])[:, :nb_act]
                    if wt == "uhf":
                        walkers = [jnp.array([wa + 0.0j] * 2), jnp.array([wb + 0.0j] * 2)]
                    else:
                        walkers = jnp.array([wa + 0.0j] * 2)
                    e_det = float(np.real(np.asarray(trial.calc_energy(walkers, ham_data, wave_data))[0]))
                    res.add(traces=1)
                res.add(traces=1)
            except Exception as e:  # noqa: BLE001
                if isinstance(e, NotImplementedError) and (tr, wt) == ("cisd", "uhf"):
                    # the restricted cisd class defines no unrestricted-walker energy and says so: an explicit
                    # refusal of this option pair, outside what the property speaks about -- counted, not judged
                    res.guard("option_refused_NotImplementedError[cisd/uhf]")
                    outcomes[(tr, wt)] = ("refused", str(e)[:80])
                elif not representable and stage == "init_prop_data" and isinstance(e, ValueError):
                    # restricted walkers cannot carry this spin-polarised trial; get_init_walkers may say so explicitly
                    res.guard("restricted_walkers_cannot_represent_spin_polarised_trial")
                    outcomes[(tr, wt)] = ("not-representable",)
                else:  # an energy that cannot be computed is not equal to anything
                    outcomes[(tr, wt)] = ("raised", stage, "%s: %s" % (type(e).__name__, str(e)[:200]))
                continue
            if not representable:
                res.guard("restricted_walkers_cannot_represent_spin_polarised_trial")
                outcomes[(tr, wt)] = ("not-representable",)
                continue
            errs = dict(e_estimate=abs(e_est - target))
            if e_det is not None:
                errs["calc_energy"] = abs(e_det - target)
            ok = all(np.isfinite(v) and v <= tol for v in errs.values())
            outcomes[(tr, wt)] = ("ok" if ok else "bad", dict(e_estimate=e_est, calc_energy=e_det, target=target,
                                                            tol=tol, err=max(errs.values())))
            res.add(states=1, transitions=len(errs), evaluations=len(errs))
            res.nontrivial((tkey, tr, wt, round(target, 8), cell["bas"], cell["frozen"], cell["eri"], cell["cut"]))
            res.guard("energy_compared[%s/%s]" % (tr, wt))
            if tkey == "cc":
                res.guard("cc_correlation_energy_nontrivial", int(abs(e_cc - e_scf) > 1e-4))
        # --- triage: one signature per defect ----------------------------------------------------------
        for (tr, wt), oc in outcomes.items():
            opt = dict(trial=tr, walker_type=wt)
            if oc[0] == "raised":
                viol.append(("%s/%s-trial/%s-walkers:raises-%s" % (oc[1], tr, wt, oc[2].split(":")[0]),
                             dict(what="option", option=opt), dict(error=oc[2])))
            elif oc[0] == "bad":
                if fci_ok is False:
                    continue  # consequence of the wrong Hamiltonian already reported
                other = outcomes.get((tr, "uhf" if wt == "rhf" else "rhf"), ("none",))
                target_name = "E_CC" if tr in ("cisd", "ucisd") else "E_SCF"
                piece = ham_piece() if fci_ok else None
                if piece:  # the exact energy happened to stay inside its (looser) bound
                    sig = "written-hamiltonian[%s]/%s:energy!=pyscf" % (piece, pc)
                    oc[1]["which"] = "%s of the %s trial with %s walkers vs pyscf" % (target_name, tr, wt)
                elif other[0] == "ok":
                    sig = "energy-evaluation/%s-trial/%s-walkers:!=%s" % (tr, wt, target_name)
                elif tr in ("cisd", "ucisd"):
                    sig = "written-amplitudes/%s/%s:mixed-energy!=E_CC" % (cell["cc"], pc)
                else:
                    sig = "written-trial/%s-mf/%s-trial/%s:variational-energy!=E_SCF" % (cell["mf"], tr, pc)
                if not piece and not is_aufbau and other[0] != "ok":
                    sig = "written-trial/%s-mf:mo_occ-not-aufbau-leading-columns-taken-as-occupied" % cell["mf"]
                    oc[1]["mo_occ"] = np.asarray(mf_used.mo_occ)
                viol.append((sig, dict(what="option", option=opt), oc[1]))
        info["outcomes"] = {"%s/%s" % k: v for k, v in outcomes.items()}
    return viol, info


def complexity(case):
    c = case["cell"] if "cell" in case else case
    return (c["nao"], sum(c["nelec"]), c["frozen"], c["bas"] != "default", c["cc"] is not None, c.get("si", 0))


# ----------------------------------------------------------------------------- worker / driver
def release_compiled():
    """Every cell compiles fresh XLA programs (shapes depend on the number of Cholesky vectors); each keeps
    several memory maps alive and a long-lived worker would run into vm.max_map_count."""
    import gc

    import jax

    jax.clear_caches()
    gc.collect()


def n_maps():
    try:
        with open("/proc/self/maps") as f:
            return sum(1 for _ in f)
    except OSError:
        return 0


def job(j):
    res = Result()
    sysobj = System(j["sys"])
    for cell in j["cells"]:
        viol, info = eval_cell(cell, sysobj, j["seed"], res, j.get("tmp"))
        if n_maps() > 20000:
            release_compiled()
        seen = set()
        for sig, what, detail in viol:
            if sig in seen:
                continue
            seen.add(sig)
            res.violation(sig, dict(cell=cell, seed=j["seed"], signature=sig, **what), detail)
        if info:
            res.sample(dict(system=cell["sys"], mf=cell["mf"], frozen=cell["frozen"], eri=cell["eri"], cut=cell["cut"],
                            basis_coeff=cell["bas"], cc=cell["cc"], e_scf=info["e_scf"], e_fci=info["e_fci_ref"],
                            fci_err=info.get("fci_err"), outcomes=str(info.get("outcomes"))[:300]))
    return res


def run(ctx):
    ctx.rule = ("cells = system (5 molecules x 4-rung geometry ladder x {sto-3g, 6-31g} x spin states; Hubbard chains/rings of 2-6 "
                "sites x U in {1,4,8} x fillings; ab-initio integrals through the `integrals` argument) x mean field {RHF, ROHF, UHF} x "
                "norb_frozen {0,1} x {chol_cut in 1e-4,1e-6,1e-8 | density fitting with auxbasis given by name, as a dictionary of shells, or "
                "left to pyscf -- on sto-3g/6-31g (predefined fit) and on sto-6g / a user basis dictionary (no predefined fit: pyscf builds "
                "an even-tempered one, with_df.auxbasis stays None); the written integrals must be those of mf.with_df} x basis_coeff letter {default, rotated, Loewdin, "
                "truncated | eye, MO, rotated} x {mean-field object, CCSD, UCCSD}, restricted to what the property admits, each crossed "
                "with the walker_type x trial options the written files define (full cross on the default basis, natural pairs on the "
                "other basis letters). thorough = every cell of that matrix, where the full product is taken on the equilibrium and "
                "the stretched rung of the minimal-basis molecules and at U=4, and the repeating letters (closed-shell ROHF, second "
                "high-spin state, rungs 1 and 3, 6-31g, U=1,8) are crossed with {1e-6, DF} x {default, rotated} only; quick = a "
                "deterministic greedy covering array of the same matrix (every letter, every listed pair of letters) plus 3 "
                "coupled-cluster sentinels. A state is one (cell, option) energy comparison, one exact-ground-state comparison or one "
                "header comparison; non-trivial & distinct = distinct (reference energy, option, path letters)")
    ctx.assume("pyscf 2.14 SCF / FCI / CCSD are correct and independent of ad_afqmc (the oracle)")
    ctx.assume("energy tolerances follow from the pivoted-Cholesky residual bound (PSD, diagonal <= chol_cut) -- see bounds()")
    jobs, n_full, n_sel = build_jobs(ctx.tier, ctx.seed)
    if ctx.tier != "thorough":
        ctx.cap("quick tier: %d of the %d admitted cells (greedy pairwise covering array + 3 coupled-cluster sentinels); the thorough tier runs all" % (n_sel, n_full))
    ctx.guard("cells_selected", n_sel)
    os.makedirs(TMP_ROOT, exist_ok=True)
    run_root = tempfile.mkdtemp(prefix="run_", dir=TMP_ROOT)  # concurrent runs never share or delete each other's files
    try:
        ctx.pmap(job, [dict(j, tmp=run_root) for j in jobs], workers=min(N_WORKERS, ctx.workers))
    finally:
        shutil.rmtree(run_root, ignore_errors=True)
        with contextlib.suppress(OSError):
            os.rmdir(TMP_ROOT)
    ctx.violations.sort(key=lambda v: complexity(core.dec(v["case"])))
    ctx.violations[:] = minimal_signatures(ctx.violations)
    ctx.require_guard("fci_compared", "energy_compared[rhf/rhf]", "energy_compared[uhf/uhf]", "energy_compared[uhf/rhf]",
                      "energy_compared[cisd/rhf]", "energy_compared[ucisd/uhf]", "cc_correlation_energy_nontrivial",
                      "fci_cross_checked_with_fock_model")


def replay(case):
    """Plain driver: rebuild the one system, run the one cell, report whether the recorded signature recurs."""
    cell = case["cell"]
    cell["nelec"] = [int(x) for x in np.asarray(cell["nelec"]).tolist()]
    sysobj = System(cell["sys"])
    os.makedirs(TMP_ROOT, exist_ok=True)
    root = tempfile.mkdtemp(prefix="replay_", dir=TMP_ROOT)
    try:
        viol, info = eval_cell(cell, sysobj, int(case["seed"]), tmp_root=root)
    finally:
        shutil.rmtree(root, ignore_errors=True)
        with contextlib.suppress(OSError):
            os.rmdir(TMP_ROOT)
    hits = [(s, d) for s, w, d in viol if s == case["signature"]]
    detail = dict(signature=case["signature"], found=[s for s, _, _ in viol])
    if hits:
        detail["detail"] = hits[0][1]
    return (len(hits) > 0, detail)
