"""C09 -- weights stay real, finite and non-negative; dead walkers stay dead.

Engine: seqmc with fault letters.  For every propagator class x time step x interaction strength x trial
quality, ONE population contains every per-walker field history (all words of length T over an alphabet that
includes far-too-large and overflowing letters), stepped one real propagate() at a time so every intermediate
state is observed, followed by the sampler's block epilogue (QR, energy, shift update) and a second block.
Invariants are evaluated on every state."""

import itertools

import numpy as np

from mc import alphabets as al
from mc import gridmc, samplers, trials, vrng
from mc.core import Result

ID = "C09"
TECHNIQUE = "exhaustive enumeration of per-walker field histories (words over a fault alphabet incl. overflow letters) through real propagate() steps for every propagator class x dt x interaction x trial quality; invariants checked in every intermediate state"

FIELD_LETTERS = [0.0, 1.0, -1.0, 4.0, -4.0, 40.0, -40.0, 1e4, -1e4, 1e154, -1e154]
# +-8 maps to uniforms 6e-16 and 1-6e-16: the extreme values a Gaussian draw can produce while staying inside the
# support [0,1) of the uniform variate (larger letters would give u == 1.0 exactly, which selects a *rejected* field)
CPMC_LETTERS = [0.0, 1.0, -1.0, 8.0, -8.0]
DTS = [1e-4, 1e-2, 0.3, 2.0]


def lib_prop():
    jnp, wf = trials.lib()
    from ad_afqmc import hamiltonian, propagation

    return jnp, hamiltonian, propagation


def configs(tier, seed):
    thorough = tier == "thorough"
    out = []
    for cls in ("propagator_restricted", "propagator_unrestricted"):
        for dt in DTS:
            for strong in (False, True):
                for poor in (False, True):
                    if not thorough and (strong != poor):
                        continue
                    out.append(dict(family="phaseless", cls=cls, dt=dt, strong=strong, poor=poor, seed=seed, tier=tier))
    for cls in ("propagator_cpmc", "propagator_cpmc_slow", "propagator_cpmc_nn", "propagator_cpmc_nn_slow", "propagator_cpmc_continuous"):
        for dt in DTS:
            for strong in (False, True):
                for poor in (False, True):
                    if not thorough and (strong != poor):
                        continue
                    out.append(dict(family="cpmc", cls=cls, dt=dt, strong=strong, poor=poor, seed=seed, tier=tier))
    return out


class Inv:
    """Invariant evaluation on successive states of one population."""

    def __init__(self, res, sig0, cfg, lo, hi=100.0):
        self.res, self.sig0, self.cfg, self.lo, self.hi = res, sig0, cfg, lo, hi
        self.prev = None
        self.step = 0

    def reset_after_comb(self, w):
        self.prev = np.asarray(w, dtype=float)

    def check(self, pd, where, words=None):
        res = self.res
        w_raw = np.asarray(pd["weights"])
        sh = np.asarray(pd["pop_control_ene_shift"])
        case = dict(self.cfg, where=where, step=self.step)
        self.step += 1
        res.add(states=w_raw.size, transitions=w_raw.size, evaluations=w_raw.size)
        extinct_before = self.prev is not None and np.nansum(np.where(np.isfinite(self.prev), self.prev, 0)) == 0

        def viol(kind, idx, extra=None):
            ctx = "population-extinct" if extinct_before else ("walker-dead-before" if (self.prev is not None and idx is not None and self.prev[idx] == 0) else "walker-alive-before")
            d = dict(where=where, weight=(None if idx is None else w_raw[idx]), prev=(None if (idx is None or self.prev is None) else self.prev[idx]))
            if words is not None and idx is not None:
                d["history"] = words[idx]
            d.update(extra or {})
            res.violation("%s/%s/%s" % (self.sig0, kind, ctx), dict(case, walker=idx), d)

        if np.iscomplexobj(w_raw):
            viol("complex-weight-dtype", None)
            w = w_raw.real
        else:
            w = w_raw.astype(float)
        bad = np.nonzero(~np.isfinite(w))[0]
        if bad.size:
            viol("non-finite-weight", int(bad[0]), dict(n_bad=int(bad.size)))
        neg = np.nonzero(w < 0)[0]
        if neg.size:
            viol("negative-weight", int(neg[0]))
        big = np.nonzero(w > self.hi * (1 + 1e-12))[0]
        if big.size:
            viol("weight-above-window", int(big[0]))
        if self.prev is not None:
            fin = np.isfinite(w) & np.isfinite(self.prev)
            res_ = np.nonzero(fin & (self.prev == 0) & (w != 0))[0]
            if res_.size:
                viol("dead-walker-resurrected", int(res_[0]))
            alive = fin & (self.prev > 0) & (w > 0)
            fac = np.where(alive, w / np.where(self.prev > 0, self.prev, 1.0), 1.0)
            out = np.nonzero(alive & ((fac < self.lo * (1 - 1e-9)) | (fac > self.hi * (1 + 1e-9))))[0]
            if out.size and where == "step":
                viol("step-factor-outside-window", int(out[0]), dict(factor=float(fac[out[0]])))
            res.guard("walkers_died", int((fin & (self.prev > 0) & (w == 0)).sum()))
            res.guard("walkers_survived", int(alive.sum()))
        tot = np.sum(np.where(np.isfinite(w), w, 0.0))
        if tot > 0 and not np.all(np.isfinite(sh)) and not bad.size:
            viol("shift-non-finite-while-alive", None, dict(shift=float(np.real(sh)), total_weight=float(tot)))
        if tot == 0:
            res.guard("states_with_extinct_population", 1)
        # after a reported non-finite weight the harness repairs the state (NaN weight -> 0, NaN shift -> estimate) so
        # that its mere consequences are not reported again under other signatures, while later independent
        # violations in the same population remain visible
        if bad.size or (tot > 0 and not np.all(np.isfinite(sh))):
            import jax.numpy as jnp

            w = np.where(np.isfinite(w), w, 0.0)
            pd["weights"] = jnp.asarray(w)
            if not np.all(np.isfinite(sh)):
                pd["pop_control_ene_shift"] = jnp.asarray(float(np.real(np.asarray(pd["e_estimate"]))))
            res.guard("states_repaired_after_violation", 1)
        self.prev = w
        return w


def phaseless_job(cfg):
    res = Result()
    jnp, hamiltonian, propagation = lib_prop()
    thorough = cfg["tier"] == "thorough"
    restricted = cfg["cls"] == "propagator_restricted"
    n, na, nb = (3, 1, 1) if restricted else (3, 2, 1)
    seed = cfg["seed"]
    T = 3 if not thorough else 4
    words = vrng.words(FIELD_LETTERS, T)
    M = len(words)
    kind = "rhf" if restricted else "uhf"
    tc = trials.build(kind, n, na, nb, seed, "same" if kind == "uhf" else "", full_basis=False)
    trial, p = tc.trial, tc.params[0]
    h0, h1, chol = al.small_ham(n, 1, seed, spin_dependent=not restricted, scale=(2.0 if cfg["strong"] else 0.3))
    wd = dict(p.wave_data)
    wd["rdm1"] = jnp.asarray(np.asarray(trial.get_rdm1(p.wave_data)).real)
    # start walker: the trial determinant itself (good) or a rotated frame (poor trial for this walker)
    Qw = tc.Qa if not cfg["poor"] else tc.Qa @ al.givens(n, 0, n - 1, 1.1) @ al.givens(n, 0, 1, 0.7)
    wa = Qw[:, :na] + 0j
    wb = Qw[:, :nb] + 0j
    dt = cfg["dt"]
    prop = getattr(propagation, cfg["cls"])(dt=dt, n_walkers=M)
    ham = hamiltonian.hamiltonian(n)
    hd = {"h0": h0, "h1": jnp.asarray(h1), "chol": jnp.asarray(chol.reshape(1, n * n)), "ene0": 0.0}
    hd = ham.build_measurement_intermediates(hd, trial, wd)
    hd = ham.build_propagation_intermediates(hd, prop, trial, wd)
    walkers = jnp.asarray(np.repeat(wa[None], M, 0)) if restricted else [jnp.asarray(np.repeat(wa[None], M, 0)), jnp.asarray(np.repeat(wb[None], M, 0))]
    pd = prop.init_prop_data(trial, wd, hd, walkers)
    ov0 = np.asarray(pd["overlaps"])
    if not (np.all(np.isfinite(ov0)) and np.abs(ov0).min() > 1e-6):
        raise RuntimeError("start population must have finite non-zero overlaps")
    sig0 = cfg["cls"]
    inv = Inv(res, sig0, cfg, lo=1e-3)
    inv.reset_after_comb(np.asarray(pd["weights"]))
    J = gridmc.jitted
    wl = [list(map(float, w_)) for w_ in words]
    for block in range(2):
        order = words if block == 0 else words[:, ::-1]
        for t in range(T):
            pd = prop.propagate(trial, hd, pd, jnp.asarray(order[:, t:t + 1]), wd)
            inv.check(pd, "step", wl)
            res.add(traces=1)
        # the sampler's block epilogue
        w = np.asarray(pd["weights"])
        pd = prop.orthonormalize_walkers(pd)
        pd["overlaps"] = J(trial, "calc_overlap")(pd["walkers"], wd)
        el = np.real(np.asarray(J(trial, "calc_energy")(pd["walkers"], hd, wd)))
        est = float(pd["e_estimate"])
        el = np.where(np.abs(el - est) <= np.sqrt(2.0 / dt), el, est)  # NaN counts as a large deviation
        be = np.sum(el * w) / np.sum(w)
        pd["pop_control_ene_shift"] = 0.9 * pd["pop_control_ene_shift"] + 0.1 * be
        inv.check(pd, "block-epilogue", wl)
    res.nontrivial_values((sig0, dt, cfg["strong"], cfg["poor"]), inv.prev, 12)
    res.sample(dict(cfg=cfg, population=M, history_length=T, letters=FIELD_LETTERS, final_alive=int((inv.prev > 0).sum())))
    # the same through the real sampler (one block of T steps + comb): killed fraction and shift
    from mc import samplers as S_

    L = S_.lib()
    tn = np.zeros((1, 4, T, M, 1))
    for c in range(4):
        tn[0, c] = words.T[:, :, None]
    vrng.install(tn, np.full((1, 4), 0.37))
    try:
        samp = L["sampling"].sampler(T, 1, 1, 1)
        pd2 = prop.init_prop_data(trial, wd, hd, walkers)
        pd2["key"] = vrng.key(0)
        e, po = samp.propagate_phaseless(ham, hd, prop, pd2, trial, wd)
        kf = float(po["n_killed_walkers"])
        res.add(states=1, transitions=1, evaluations=1, traces=1)
        res.guard("sampler_blocks", 1)
        if not (0.0 <= kf <= 1.0):
            res.violation(sig0 + "/killed-fraction-outside-[0,1]", dict(cfg, where="sampler"), dict(value=kf))
        w = np.asarray(po["weights"])
        if not (np.all(np.isfinite(w)) and np.all(w >= 0)):
            res.violation(sig0 + "/non-finite-weight/after-sampler-block", dict(cfg, where="sampler"), dict(n_bad=int((~np.isfinite(w)).sum())))
        if np.sum(np.where(np.isfinite(w), w, 0)) > 0 and not np.isfinite(float(po["pop_control_ene_shift"])):
            res.violation(sig0 + "/shift-non-finite-while-alive/after-sampler-block", dict(cfg, where="sampler"),
                          dict(shift=float(po["pop_control_ene_shift"]), energy=float(e)))
    finally:
        vrng.uninstall()
    return res


def cpmc_job(cfg):
    res = Result()
    jnp, hamiltonian, propagation = lib_prop()
    jnp_, wf = trials.lib()
    thorough = cfg["tier"] == "thorough"
    seed = cfg["seed"]
    n, na, nb = (2, 1, 1) if not thorough else (3, 2, 1)
    T = 2
    cls = cfg["cls"]
    dt = cfg["dt"]
    u = 12.0 if cfg["strong"] else 1.0
    u1 = 0.5 * u
    nn = cls in ("propagator_cpmc_nn", "propagator_cpmc_nn_slow")
    neighbors = tuple((i, i + 1) for i in range(n - 1))
    K = -1.0 * (np.eye(n, k=1) + np.eye(n, k=-1))
    chol = np.array([np.sqrt(u) * np.diag(np.eye(n)[i]) for i in range(n)])
    h1 = np.array([K, K])
    # trial: eigenvectors of K with a small staggered field (good) or a generic frame (poor)
    ea, ca = np.linalg.eigh(K + np.diag(0.3 * (-1.0) ** np.arange(n)))
    eb, cb = np.linalg.eigh(K - np.diag(0.3 * (-1.0) ** np.arange(n)))
    if cfg["poor"]:
        ca, cb = al.frame(n, seed, 11), al.frame(n, seed, 12)
    trial = wf.uhf_cpmc(n, (na, nb))
    wd = {"mo_coeff": [jnp.asarray(ca[:, :na]), jnp.asarray(cb[:, :nb])]}
    wd["rdm1"] = jnp.asarray(np.array([ca[:, :na] @ ca[:, :na].T, cb[:, :nb] @ cb[:, :nb].T]))
    L = CPMC_LETTERS if not nn else [0.0]
    words = vrng.words(L, T * n)
    M = len(words) if not nn else 1
    if nn:
        # uniforms are drawn inside propagate: enumerate them through the virtual source; one walker per word
        UL = [0.0, 0.5, 0.999999]
        nb_ = len(neighbors)
        per_step = n + 4 * nb_
        uw = vrng.words(UL, per_step)  # all words for ONE step (the second step replays the reversed word)
        M = len(uw)
        tsite = np.zeros((1, 2 * T + 2, M, n))
        tnb = np.zeros((1, 2 * T + 2, M, 4, nb_))
        for t in range(T):
            wds = uw if t == 0 else uw[:, ::-1]
            tsite[0, 2 * t] = wds[:, :n]
            tnb[0, 2 * t + 1] = wds[:, n:].reshape(M, 4, nb_)
        vrng.install(np.zeros((1, 2 * T + 2, 1)), np.full((1, 2 * T + 2), 0.5), {(M, n): tsite, (M, 4, nb_): tnb})
        words_l = [list(map(float, w_)) for w_ in uw]
    else:
        words_l = [list(map(float, w_)) for w_ in words]
    try:
        kw = dict(dt=dt, n_walkers=M)
        if nn:
            kw["neighbors"] = neighbors
        prop = getattr(propagation, cls)(**kw)
        ham = hamiltonian.hamiltonian(n)
        hd = {"h0": 0.0, "h1": jnp.asarray(h1), "chol": jnp.asarray(chol.reshape(n, n * n)), "ene0": 0.0, "u": u, "u_1": u1}
        hd = ham.build_measurement_intermediates(hd, trial, wd)
        hd = ham.build_propagation_intermediates(hd, prop, trial, wd)
        if cls == "propagator_cpmc_continuous":
            hd["hs_constant"] = jnp.asarray(np.sqrt(u * dt) * np.ones(n))
        # generic real start walker with a healthy overlap
        rng = np.random.default_rng(77 + seed)
        wa = np.linalg.qr(ca[:, :na] + 0.2 * rng.normal(size=(n, na)))[0]
        wb = np.linalg.qr(cb[:, :nb] + 0.2 * rng.normal(size=(n, nb)))[0]
        walkers = [jnp.asarray(np.repeat(wa[None], M, 0) + 0j), jnp.asarray(np.repeat(wb[None], M, 0) + 0j)]
        pd = prop.init_prop_data(trial, wd, hd, walkers)
        if nn:
            pd["key"] = vrng.key(0)
        ov0 = np.asarray(pd["overlaps"])
        if not (np.all(np.isfinite(ov0)) and np.abs(ov0).min() > 1e-6):
            raise RuntimeError("start population must have finite non-zero overlaps")
        sig0 = cls
        inv = Inv(res, sig0, cfg, lo=1e-8)
        inv.reset_after_comb(np.asarray(pd["weights"]))
        for block in range(2):
            for t in range(T):
                if nn:
                    g = np.zeros((M, n))
                    if block == 1:  # replay the same table from the start
                        pd["key"] = vrng.key(0, 2 * t)
                else:
                    g = words[:, t * n:(t + 1) * n] if block == 0 else words[:, ::-1][:, t * n:(t + 1) * n]
                pd = prop.propagate(trial, hd, pd, jnp.asarray(g), wd)
                # the CPMC window is on the weight itself: {0} U [1e-8, 100]
                w = inv.check(pd, "cpmc-step", words_l)
                small = np.nonzero(np.isfinite(w) & (w > 0) & (w < 1e-8 * (1 - 1e-9)))[0]
                if small.size:
                    res.violation(sig0 + "/weight-below-window", dict(cfg, where="cpmc-step", walker=int(small[0])), dict(weight=float(w[small[0]])))
                res.add(traces=1)
            # block epilogue as the sampler does it
            w = np.asarray(pd["weights"]).real
            pd = prop.orthonormalize_walkers(pd)
            pd["overlaps"] = gridmc.jitted(trial, "calc_overlap")(pd["walkers"], wd)
            if "greens" in pd:
                pd["greens"] = trial.calc_full_green_vmap(pd["walkers"], wd)
            el = np.real(np.asarray(gridmc.jitted(trial, "calc_energy")(pd["walkers"], hd, wd)))
            est = float(np.real(pd["e_estimate"]))
            el = np.where(np.abs(el - est) <= np.sqrt(2.0 / dt), el, est)
            with np.errstate(all="ignore"):
                be = np.sum(el * w) / np.sum(w)
            pd["pop_control_ene_shift"] = 0.9 * pd["pop_control_ene_shift"] + 0.1 * be
            inv.check(pd, "block-epilogue", words_l)
        res.nontrivial_values((sig0, dt, cfg["strong"], cfg["poor"]), inv.prev, 12)
        res.sample(dict(cfg=cfg, population=M, final_alive=int((np.nan_to_num(inv.prev) > 0).sum())))
    finally:
        if nn:
            vrng.uninstall()
    return res


def job(cfg):
    return phaseless_job(cfg) if cfg["family"] == "phaseless" else cpmc_job(cfg)


def run(ctx):
    ctx.rule = ("propagator class {restricted, unrestricted, cpmc, cpmc_slow, cpmc_nn, cpmc_nn_slow, cpmc_continuous} x dt {1e-4,1e-2,0.3,2} x "
                "interaction {weak, strong} x trial {good, poor}; one population holds EVERY per-walker field history: all words of length "
                "3 (4 thorough) over {0,+-1,+-4,+-40,+-1e4,+-1e154} (phaseless), all words over {0,+-1,+-8} per site and step (CPMC; +-8 "
                "forces the discrete branch while staying on the uniform's support), all words over uniform letters {0,0.5,1-} for the neighbour propagators' internal draws; "
                "stepped one propagate() at a time, then block epilogue, then a second block; state = (class, setting, step, walker)")
    ctx.assume("the block epilogue (QR, energy with capping, shift update) is replayed with public calls exactly as sampler._block_scan does; the real sampler is also run once per setting for the killed fraction")
    ctx.pmap(job, configs(ctx.tier, ctx.seed), tasks_per_child=2)
    ctx.require_guard("walkers_died", "walkers_survived", "sampler_blocks")


def replay(case):
    cfg = {k: case[k] for k in ("family", "cls", "dt", "strong", "poor", "seed", "tier")}
    r = job(cfg)
    return (len(r.violations) > 0, {"violations": [(v["signature"], v["detail"]) for v in r.violations][:3]})
