"""C08 -- cached overlaps are coherent with the walkers whenever a step reads them.

Engine: seqmc.  Breadth-first search over the words the sampler/driver can produce,
    INIT ((plain | ad | ad_nosr | ad_norot | ad_nosr_norot)[block structure] GLUE)*,
each transition executed on the real objects (the sampler entry point, then driver.afqmc's glue: QR, global
comb, e_estimate update) for every stream of the virtual random source.  Invariant in every state: the hook's
max relative |cached - recomputed| overlap at every propagate() entry is ~0.  Differential oracle: the same
word replayed through single public propagate() steps with an explicit overlap refresh after every walker
modification gives the same weights, walkers and block energies."""

import itertools

import numpy as np

from mc import gridmc, samplers, vrng
from mc.core import Result

ID = "C08"
TECHNIQUE = "breadth-first search over sampler/driver operation words x all virtual-RNG streams on the real objects; hook invariant at every propagate() entry plus differential replay through single public steps"

ENTRIES = ["plain", "ad", "ad_nosr", "ad_norot", "ad_nosr_norot"]
STRUCTS = {"A": (2, 1, 1), "B": (1, 2, 2)}  # (n_steps, n_ene, n_sr)
NW = 4
LETTERS = [0.0, 2.6, -2.6]
DT = 0.4
W0 = [0.3, 1.0, 2.2, 0.5]  # non-initial start: uneven weights as they arise after many steps
TOL = 1e-9


def entries_for(wt):
    """The orbital-relaxing entries re-solve the SCF from the density 2 C C^dagger of the orbitals they are GIVEN; for the
    deliberately unnormalised trial that density is ~0, relaxation is then not the identity (whether 30 undamped
    Roothaan steps from the core guess come back to 1e-9 depends on the system) and the single-step replay, which
    relies on 'converged trial => relaxation is the identity', has no reference for them.  They are left out of the
    alphabet of that one configuration (observed as a false alarm at VERIF_SEED=3)."""
    return [e for e in ENTRIES if not (wt == "restricted-tinytrial" and e in ("ad", "ad_nosr"))]


def configs(tier, seed):
    out = []
    # restricted-open: restricted walker container with an open-shell (2,1) UHF trial (the beta determinant is the
    # leading n_dn columns), the configuration in which "QR changes nothing for the cached overlap" is false
    # restricted-tinytrial: the same RHF trial with unnormalised orbitals (x 1e-5): every overlap is ~1e-10, so anything
    # that treats the stored overlap on an absolute scale (floors, thresholds) makes it incoherent with the walker
    for wt in ("restricted", "unrestricted", "restricted-open", "restricted-tinytrial"):
        for first in [(e, s) for e in entries_for(wt) for s in sorted(STRUCTS)]:
            out.append(dict(wt=wt, first=list(first), seed=seed, tier=tier))
    return out


def tables(seed, n_draws, D):
    """Streams: every word over LETTERS on D scalar positions (first entries of the first D normal draws... spread
    over the first draws), comb offsets from a fixed non-trivial pattern; both block structures share one table
    per draw shape."""
    from mc.checks.c12 import filler

    W = vrng.words(LETTERS, D)
    S = len(W)
    tabs = {}
    for name, (ns, ne, nsr) in STRUCTS.items():
        shape = (ns, NW, 1)
        t = np.zeros((S, n_draws) + shape)
        for c in range(n_draws):
            base = 0.8 * filler(shape, 3 * c + seed)
            t[:, c] = base[None]
        # varying positions: entry [0, w, 0] of draw d for (d, w) round robin
        for k in range(D):
            d, w = k % 3, (k // 3) % NW
            t[:, d, 0, w, 0] = W[:, k]
        tabs[shape] = t
    tu = np.stack([np.array([[0.35, 0.8, 0.1, 0.6, 0.95][(c + s) % 5] for c in range(n_draws)]) for s in range(S)])
    return tabs, tu, S


def job(cfg):
    res = Result()
    thorough = cfg["tier"] == "thorough"
    wt = cfg["wt"]
    n, na, nb = (3, 1, 1) if wt in ("restricted", "restricted-tinytrial") else (3, 2, 1)
    container = "restricted" if wt.startswith("restricted") else "unrestricted"
    depth = 3 if thorough else 2
    D = 3 if thorough else 2
    n_draws = 8 * depth + 2
    sysd = samplers.system(n, na, nb, 1, cfg["seed"], "restricted" if wt in ("restricted", "restricted-tinytrial") else "unrestricted", scale=0.7)
    tabs, tu, S = tables(cfg["seed"], n_draws, D)
    vr = vrng.install(tabs, tu)
    L = samplers.lib()
    jnp = L["jnp"]
    B = samplers.build(sysd, container, NW, dt=DT, n_batch=1, trial_kind=("uhf" if wt == "restricted-open" else None),
                       mo_scale=(1.0e-5 if wt == "restricted-tinytrial" else 1.0))
    samps = {k: L["sampling"].sampler(ns, ne, nsr, 1) for k, (ns, ne, nsr) in STRUCTS.items()}
    letters = [(e, s) for e in entries_for(wt) for s in sorted(STRUCTS)]
    first = tuple(cfg["first"])
    # BFS over words starting with `first`; a state is (word, stream) with the two executions' prop_data
    init = []
    for s in range(S):
        pd = samplers.fresh_prop_data(B, vrng.key(s))
        pd["_verif_incoh"] = jnp.asarray(0.0)
        if s % 2 == 1:
            pd["weights"] = jnp.asarray(W0)
        init.append((pd, samplers.copy_pd(pd)))
    # shortest history of all: init_prop_data (library-made or caller-supplied walkers) followed directly by ONE public
    # step -- no sampler entry point in between to refresh anything.  Supplied walkers are deliberately not in
    # QR-canonical form (unnormalised, non-orthogonal, complex), which the documentation allows.
    if first == letters[0]:
        rngw = np.random.default_rng(4242 + cfg["seed"])
        pd_lib0 = samplers.fresh_prop_data(B, vrng.key(0))

        def distort(W):
            W = np.asarray(W)
            k = W.shape[-1]
            T = np.eye(k) * 1.7 + 0.4 * rngw.normal(size=(NW, k, k)) + 0.3j * rngw.normal(size=(NW, k, k))
            return jnp.asarray(np.einsum("wik,wkl->wil", W + 0.05 * rngw.normal(size=W.shape), T))

        if container == "restricted":
            supplied = distort(pd_lib0["walkers"])
        else:
            supplied = [distort(pd_lib0["walkers"][0]), distort(pd_lib0["walkers"][1])]
        for lab, iw in (("library-made", None), ("supplied-non-canonical", supplied)):
            for s in range(min(S, 3)):
                pd = B["prop"].init_prop_data(B["trial"], B["wave_data"], B["ham_data"], iw)
                pd["key"] = vrng.key(s)
                ov_now = np.asarray(gridmc.jitted(B["trial"], "calc_overlap")(pd["walkers"], B["wave_data"]))
                inc0 = float(np.max(np.abs(np.asarray(pd["overlaps"]) - ov_now) / np.abs(ov_now)))
                pd["_verif_incoh"] = jnp.asarray(0.0)
                fields = jnp.asarray(tabs[(STRUCTS["A"][0], NW, 1)][s][0][0])
                pd1 = B["prop"].propagate(B["trial"], B["ham_data"], pd, fields, B["wave_data"])
                inc1 = float(pd1["_verif_incoh"])
                res.add(states=1, transitions=1, evaluations=1, traces=1)
                res.guard("init_then_public_step[%s]" % lab, 1)
                if not (inc0 <= 1e-10 and inc1 <= 1e-10):
                    res.violation("init_prop_data/%s/%s/stale-overlap-read-by-first-public-step" % (wt, lab),
                                  dict(cfg, what="init", walkers=lab, stream=s), dict(after_init=inc0, read_by_propagate=inc1))
    frontier = [((), init)]
    n_states = 0
    qr_nontrivial = 0
    comb_dup = 0
    for level in range(depth):
        nxt = []
        for word, states in frontier:
            choices = [first] if level == 0 else letters
            for (entry, sname) in choices:
                ns, ne, nsr = STRUCTS[sname]
                new_states = []
                for s, (pd_lib, pd_ref) in enumerate(states):
                    w = word + ((entry, sname),)
                    # --- library execution
                    e_lib, pd1 = samplers.call_entry(B, samps[sname], entry, samplers.copy_pd(pd_lib))
                    e_lib = float(e_lib)
                    incoh = float(pd1["_verif_incoh"])
                    # --- explicit single-step replay
                    e_ref, pr1, trace = samplers.explicit_call(B, entry, ns, ne, nsr, pd_ref, tabs[(ns, NW, 1)], tu, s)
                    n_states += 1
                    res.add(states=1, transitions=2, evaluations=1, traces=1)
                    case = dict(cfg, word=[list(x) for x in w], stream=s)
                    if not incoh <= 1e-10:
                        res.violation("%s/%s/stale-overlap-read-by-propagate" % (entry, wt), dict(case, what="hook"),
                                      dict(max_rel_incoherence=incoh))
                    dw = np.abs(np.asarray(pd1["weights"]) - np.asarray(pr1["weights"])).max()
                    wl = pd1["walkers"] if container == "restricted" else pd1["walkers"][0]
                    wr = pr1["walkers"] if container == "restricted" else pr1["walkers"][0]
                    dwalk = np.abs(np.asarray(wl) - np.asarray(wr)).max()
                    if not (abs(e_lib - e_ref) <= TOL * max(1, abs(e_ref)) and dw <= TOL and dwalk <= 1e-8):
                        res.violation("%s/%s/differs-from-single-step-replay" % (entry, wt), dict(case, what="replay"),
                                      dict(e_lib=e_lib, e_ref=e_ref, dweights=float(dw), dwalkers=float(dwalk), trace=trace))
                    # --- glue (driver): library's own vs explicit with refresh
                    wa_before = np.asarray(wl)
                    pd2 = samplers.library_glue(B, pd1, e_lib)
                    pr2 = samplers.explicit_glue(B, pr1, e_ref, tu, s)
                    wl2 = pd2["walkers"] if container == "restricted" else pd2["walkers"][0]
                    if np.abs(np.asarray(wl2) - wa_before).max() > 1e-6:
                        qr_nontrivial += 1
                    uniq = len({np.asarray(x).tobytes() for x in np.asarray(wl2)})
                    if uniq < NW:
                        comb_dup += 1
                    pd2["key"] = jnp.asarray(pd2["key"])
                    new_states.append((pd2, pr2))
                    if s == 0 and level == depth - 1 and len(res.samples) < 3:
                        res.sample(dict(word=[list(x) for x in w], stream=s, energy=e_lib, incoherence=incoh,
                                        weights=np.asarray(pd1["weights"]).tolist()))
                    res.nontrivial((wt, tuple(w), s, round(e_lib, 10)))
                nxt.append((word + ((entry, sname),), new_states))
        frontier = nxt
    res.guard("words_explored", len(frontier))
    res.guard("states", n_states)
    res.guard("glue_qr_changed_walkers", qr_nontrivial)
    res.guard("glue_comb_duplicated_a_walker", comb_dup)
    res.guard("propagate_entries_observed", vr.calls["normal"])
    if vr.calls["normal"] == 0:
        raise RuntimeError("virtual RNG never traced")
    vrng.uninstall()
    return res


def run(ctx):
    ctx.rule = ("words over the operation alphabet {plain, ad, ad_nosr, ad_norot, ad_nosr_norot} x block structure {(2,1,1),(1,2,2)}, each "
                "letter followed by the driver glue (QR, global comb, e_estimate update), all words up to depth 2 (3 thorough), for "
                "{restricted+rhf, unrestricted+uhf, restricted walkers + open-shell uhf}, times every virtual-RNG stream over field letters {0,+-2.6} (dt=0.4 so that weights become uneven and combs duplicate walkers; odd streams start from uneven weights) on 2 (3) draw positions; "
                "a state = (word, stream); every transition runs the real sampler entry point and, in parallel, the single-public-step replay")
    ctx.assume("the hook records max_w |cached - recomputed|/|cached| at every propagate() entry (guarded, pre-seeded key carried through scan/checkpoint)")
    ctx.assume("converged SCF trial so that optimize() inside the AD entry points is the identity; zero coupling")
    ctx.pmap(job, configs(ctx.tier, ctx.seed), tasks_per_child=2)
    ctx.require_guard("words_explored", "glue_qr_changed_walkers", "glue_comb_duplicated_a_walker", "propagate_entries_observed",
                      "init_then_public_step[library-made]", "init_then_public_step[supplied-non-canonical]")


def replay(case):
    cfg = {k: case[k] for k in ("wt", "first", "seed", "tier")}
    r = job(cfg)
    return (len(r.violations) > 0, {"violations": [(v["signature"], v["detail"]) for v in r.violations][:2]})
