"""C20 -- lattices of ad_afqmc/lattices.py are consistent graphs that survive construction and pytree round trips.

Engine: gridmc.  Every lattice kind x every tuple of side lengths in the bound x boundary condition x EVERY site is
visited on the real classes; nothing is sampled (VERIF_SEED only rotates the order in which sites are visited).

Per lattice:
  * constructible (all sides >= 2);
  * `sites` and `get_site_num` are inverse bijections onto the full position box;
  * neighbour relation (in-range positions returned by get_nearest_neighbors) symmetric and irreflexive when all
    sides >= 3 (for the open-boundary triangular lattice: when the number of rows is even -- with an odd number of
    rows the zig-zag offset cannot be wrapped consistently, which the property's parenthesis acknowledges; those
    lattices are still checked for everything else and the asymmetry is counted, not judged);
  * adjacency matrix (create_adjacency_matrix; for the cubic lattice assembled from get_nearest_neighbors +
    get_site_num) is 0/1, symmetric, zero diagonal, is the (symmetrised) neighbour relation in the lattice's own
    site numbering, regular of degree coord_num for periodic lattices with sides >= 3, degree <= coord_num for the
    open boundary with an even number of rows;
  * equality / hash: an identically constructed lattice is equal with equal hash; lattices with different
    parameters are unequal;
  * flatten -> unflatten (directly and as performed at a real jax.jit boundary) preserves every dataclass field,
    equality, hash and the adjacency matrix.
"""

import dataclasses
import itertools

import numpy as np

from mc.core import Result

ID = "C20"
TECHNIQUE = "exhaustive enumeration of lattice kinds x side lengths x boundary x all sites; graph invariants and pytree round trip through a real jit boundary"


# ---------------------------------------------------------------------------- the space
def configs(tier):
    T = tier == "thorough"
    out = []
    for n in range(2, (66 if T else 34)):
        out.append(dict(kind="chain", sides=[n], open_x=False))
    smax = 10 if T else 6
    # long thin shapes: one side beyond smax (crossing 8, 10, 16), the other tiny
    for k in (range(smax + 1, 18) if not T else range(smax + 1, 34)):
        for w in (2, 3):
            for sides in ([k, w], [w, k]):
                out.append(dict(kind="grid2d", sides=sides, open_x=False))
                out.append(dict(kind="triangular", sides=sides, open_x=False))
                out.append(dict(kind="triangular", sides=sides, open_x=True))
    for k in ((5, 6, 7, 8, 9, 10, 11, 12) if not T else range(7, 18)):
        for sides in ([k, 2, 2], [2, k, 2], [2, 2, k]):
            out.append(dict(kind="cubic", sides=sides, open_x=False))
    for lx in range(2, smax + 1):
        for ly in range(2, smax + 1):
            out.append(dict(kind="grid2d", sides=[lx, ly], open_x=False))
            out.append(dict(kind="triangular", sides=[lx, ly], open_x=False))
            out.append(dict(kind="triangular", sides=[lx, ly], open_x=True))
    cmax = 6 if T else 4
    for lx in range(2, cmax + 1):
        for ly in range(2, cmax + 1):
            for lz in range(2, cmax + 1):
                out.append(dict(kind="cubic", sides=[lx, ly, lz], open_x=False))
    out.sort(key=lambda c: (int(np.prod(c["sides"])), c["kind"], c["sides"], c["open_x"]))   # simplest first
    return out


def _classes():
    from ad_afqmc import lattices as L

    return {"chain": L.one_dimensional_chain, "grid2d": L.two_dimensional_grid,
            "triangular": L.triangular_grid, "cubic": L.three_dimensional_grid}


SIDE_NAMES = {"chain": ["n_sites"], "grid2d": ["l_x", "l_y"], "triangular": ["l_x", "l_y"], "cubic": ["l_x", "l_y", "l_z"]}


PRIMARY = {"chain": ["n_sites", "hop_signs", "coord_num"], "grid2d": ["l_x", "l_y", "hop_signs", "coord_num"],
           "triangular": ["l_x", "l_y", "coord_num", "open_x"], "cubic": ["l_x", "l_y", "l_z", "coord_num"]}


def construct(cfg):
    cls = _classes()[cfg["kind"]]
    if cfg["kind"] == "triangular":
        return cls(*cfg["sides"], open_x=bool(cfg["open_x"]))
    return cls(*cfg["sides"])


def position_box(cfg):
    """Ranges of the position tuple, slowest index first (written from the class docstrings / field comments)."""
    s = cfg["sides"]
    if cfg["kind"] == "chain":
        return [s[0]]
    if cfg["kind"] == "grid2d":      # pos = (row in l_y, column in l_x)
        return [s[1], s[0]]
    if cfg["kind"] == "triangular":  # pos = (row in l_x "height", column in l_y "width")
        return [s[0], s[1]]
    return [s[2], s[1], s[0]]        # cubic: (z, y, x)


def side_class(cfg):
    names = SIDE_NAMES[cfg["kind"]]
    two = [n for n, v in zip(names, cfg["sides"]) if v == 2]
    more = [n for n, v in zip(names, cfg["sides"]) if v > 2]
    return ",".join(["%s==2" % n for n in two] + ["%s>2" % n for n in more])


def tup(x):
    return tuple(int(v) for v in np.asarray(x).ravel())


def adjacency(lat, cfg, nbrs, box):
    """Adjacency matrix as the library gives it (cubic: assembled from its neighbour lists and site numbering)."""
    if cfg["kind"] != "cubic":
        return np.asarray(lat.create_adjacency_matrix())
    n = int(np.prod(cfg["sides"]))
    A = np.zeros((n, n), dtype=int)
    for s, lst in nbrs.items():
        for t in lst:
            A[int(lat.get_site_num(s)), int(lat.get_site_num(t))] = 1
    return A


def field_diff(a, b):
    """Names of dataclass fields whose values differ (type-strict for scalars/tuples)."""
    out = []
    for f in dataclasses.fields(a):
        x, y = getattr(a, f.name), getattr(b, f.name, "<missing>")
        same = (x == y) and (type(x) == type(y) or (isinstance(x, (tuple, list)) and isinstance(y, (tuple, list))))
        if not same:
            out.append(f.name)
    return out


# ---------------------------------------------------------------------------- one lattice
def check_lattice(cfg, res=None, order_seed=0):
    """All checks for ONE lattice configuration.  Returns list of (signature, detail)."""
    import jax
    from jax import tree_util as tu

    fails = []
    kind = cfg["kind"]
    cname = _classes()[kind].__name__
    # ---- construction
    try:
        lat = construct(cfg)
    except Exception as e:  # noqa: BLE001 -- any exception means "cannot be constructed"
        fails.append(("%s.__post_init__:%s[%s]" % (cname, type(e).__name__, side_class(cfg)),
                      dict(sides=cfg["sides"], error="%s: %s" % (type(e).__name__, e))))
        if res is not None:
            res.add(states=1, transitions=1, evaluations=1, traces=1)
        return fails
    box = position_box(cfg)
    nsite = int(np.prod(box))
    positions = list(itertools.product(*[range(k) for k in box]))
    if order_seed:
        positions = positions[order_seed % nsite:] + positions[: order_seed % nsite]
    ncalls = 1
    # ---- sites <-> numbering
    sites = [tuple(int(v) for v in s) for s in lat.sites]
    bad = None
    if lat.n_sites != nsite or len(sites) != nsite or set(sites) != set(positions):
        bad = dict(n_sites=lat.n_sites, expected=nsite, n_listed=len(sites), missing=sorted(set(positions) - set(sites))[:4])
    else:
        for i, s in enumerate(sites):
            ncalls += 1
            if int(lat.get_site_num(s)) != i:
                bad = dict(site=s, index_in_sites=i, get_site_num=int(lat.get_site_num(s)))
                break
        if bad is None:
            for p in positions:
                k = int(lat.get_site_num(p))
                if not (0 <= k < nsite) or sites[k] != p:
                    bad = dict(position=p, get_site_num=k, sites_at_k=sites[k] if 0 <= k < nsite else None)
                    break
    if bad is not None:
        fails.append(("%s.get_site_num/sites:not-inverse-bijections" % cname, dict(sides=cfg["sides"], **bad)))
    # ---- neighbour relation
    periodic = not cfg["open_x"]
    sides_ge3 = min(cfg["sides"]) >= 3
    even_rows = cfg["sides"][0] % 2 == 0            # triangular: l_x = number of rows
    nbrs = {}
    out_of_range = 0
    for p in positions:
        raw = [tup(t) for t in np.asarray(lat.get_nearest_neighbors(p))]
        ncalls += 1
        inr = [t for t in raw if all(0 <= t[a] < box[a] for a in range(len(box)))]
        out_of_range += len(raw) - len(inr)
        nbrs[p] = inr
        if periodic and len(inr) != len(raw) and not any(s.endswith("periodic-neighbour-outside-lattice") for s, _ in fails):
            fails.append(("%s.get_nearest_neighbors:periodic-neighbour-outside-lattice" % cname, dict(sides=cfg["sides"], site=p, neighbours=raw)))
    judge_relation = sides_ge3 and (periodic or even_rows)
    asym = [(p, t) for p in positions for t in nbrs[p] if p not in nbrs.get(t, [])]
    refl = [p for p in positions if p in nbrs[p]]
    if judge_relation:
        if asym:
            fails.append(("%s.get_nearest_neighbors:relation-not-symmetric[%s]" % (cname, "open_x" if cfg["open_x"] else "periodic"),
                          dict(sides=cfg["sides"], open_x=cfg["open_x"], site=asym[0][0], lists=asym[0][1],
                               but_neighbours_of_that_site=nbrs[asym[0][1]], n_asymmetric_pairs=len(asym))))
        if refl:
            fails.append(("%s.get_nearest_neighbors:site-is-its-own-neighbour" % cname, dict(sides=cfg["sides"], site=refl[0])))
    # ---- adjacency
    try:
        A = adjacency(lat, cfg, nbrs, box)
        ncalls += 1
    except Exception as e:  # noqa: BLE001
        fails.append(("%s.create_adjacency_matrix:%s[%s]" % (cname, type(e).__name__, side_class(cfg)), dict(sides=cfg["sides"], error=str(e))))
        A = None
    if A is not None:
        deg = A.sum(1) if A.ndim == 2 else None
        if A.shape != (nsite, nsite) or not np.isin(A, (0, 1)).all():
            fails.append(("%s.create_adjacency_matrix:not-a-0/1-matrix-of-order-n_sites" % cname, dict(sides=cfg["sides"], shape=A.shape)))
        else:
            if not np.array_equal(A, A.T):
                i, j = np.argwhere(A != A.T)[0]
                fails.append(("%s.adjacency:not-symmetric" % cname, dict(sides=cfg["sides"], i=int(i), j=int(j))))
            if np.diag(A).any():
                fails.append(("%s.adjacency:non-zero-diagonal" % cname, dict(sides=cfg["sides"], site=int(np.nonzero(np.diag(A))[0][0]))))
            # the matrix is the neighbour relation in the lattice's own numbering (symmetrised, as the classes do)
            if bad is None:
                R = np.zeros_like(A)
                for p in positions:
                    for t in nbrs[p]:
                        i, j = int(lat.get_site_num(p)), int(lat.get_site_num(t))
                        R[i, j] = 1
                        if kind != "cubic":
                            R[j, i] = 1
                if not np.array_equal(A, R):
                    i, j = np.argwhere(A != R)[0]
                    fails.append(("%s.create_adjacency_matrix:differs-from-neighbour-relation-in-site-numbering" % cname,
                                  dict(sides=cfg["sides"], open_x=cfg["open_x"], i=int(i), j=int(j), A_ij=int(A[i, j]), site_i=sites[i], site_j=sites[j])))
            if periodic and sides_ge3 and not (deg == lat.coord_num).all():
                i = int(np.nonzero(deg != lat.coord_num)[0][0])
                fails.append(("%s.adjacency:periodic-not-regular-of-degree-coord_num" % cname,
                              dict(sides=cfg["sides"], site=sites[i] if bad is None else i, degree=int(deg[i]), coord_num=lat.coord_num)))
            if (not periodic) and even_rows and (deg > lat.coord_num).any():
                i = int(np.nonzero(deg > lat.coord_num)[0][0])
                fails.append(("%s.adjacency:open-boundary-degree-exceeds-coord_num" % cname,
                              dict(sides=cfg["sides"], site=sites[i] if bad is None else i, degree=int(deg[i]), coord_num=lat.coord_num)))
    # ---- equality / hash of an identically constructed lattice
    twin = construct(cfg)
    if not (twin == lat) or hash(twin) != hash(lat):
        fails.append(("%s.__eq__/__hash__:identical-construction-not-equal" % cname, dict(sides=cfg["sides"])))
    # ---- pytree round trip: direct and through a real jit boundary
    routes = {}
    leaves, treedef = tu.tree_flatten(lat)
    routes["flatten-unflatten"] = tu.tree_unflatten(treedef, leaves)
    seen = []

    def f(obj, x):
        seen.append(obj)
        return x + obj.n_sites

    try:
        y = jax.jit(f)(lat, 1.0)
    except Exception as ex:  # the lattice cannot cross a jit boundary at all: that IS a round-trip failure
        fails.append(("%s.tree_unflatten:raises-at-a-jit-boundary:%s" % (cname, type(ex).__name__),
                      dict(sides=cfg["sides"], error=str(ex)[:300])))
        y = None
    ncalls += 3
    if y is not None:
        if len(seen) != 1 or float(y) != 1.0 + nsite:
            raise RuntimeError("jit boundary probe did not trace exactly once")
        routes["jit-argument"] = seen[0]
    lost_all = {}
    for route, lat2 in routes.items():
        if type(lat2) is not type(lat):
            fails.append(("%s.tree_unflatten:wrong-type" % cname, dict(route=route, type=str(type(lat2)))))
            continue
        lost = field_diff(lat, lat2)
        det = dict(sides=cfg["sides"], open_x=cfg["open_x"], route=route,
                   fields={n: dict(before=repr(getattr(lat, n)), after=repr(getattr(lat2, n))) for n in lost})
        if lost:
            try:
                A2 = adjacency(lat2, cfg, {p: [tup(t) for t in np.asarray(lat2.get_nearest_neighbors(p))
                                               if all(0 <= int(t[a]) < box[a] for a in range(len(box)))] for p in positions}, box)
                det["adjacency_entries_changed"] = int((A2 != A).sum()) if A is not None else None
            except Exception as e:  # noqa: BLE001
                det["adjacency_after"] = "raises %s" % type(e).__name__
            lost_all[route] = (tuple(lost), det)
            continue
        if not (lat2 == lat) or hash(lat2) != hash(lat):
            fails.append(("%s.tree_flatten:round-trip-not-equal/hash" % cname, det))
        if A is not None:
            A2 = adjacency(lat2, cfg, nbrs, box) if kind == "cubic" else np.asarray(lat2.create_adjacency_matrix())
            ncalls += 1
            if not np.array_equal(A2, A):
                fails.append(("%s.tree_flatten:round-trip-changes-adjacency" % cname, det))
    # one signature per lost constructor input (derived fields -- shape, sites, bonds, ... -- follow from those)
    reported = set()
    for route, (lost, det) in lost_all.items():
        prim = [n for n in lost if n in PRIMARY[kind]] or list(lost)
        for name in prim:
            if name not in reported:
                reported.add(name)
                fails.append(("%s.tree_flatten:field-not-preserved[%s]" % (cname, name),
                              dict(det, all_fields_changed=list(lost), routes=[r for r, v in lost_all.items() if name in v[0]])))
    if res is not None:
        res.add(states=1 + nsite, transitions=ncalls, evaluations=ncalls, traces=ncalls)
        res.nontrivial([(kind, tuple(cfg["sides"]), cfg["open_x"])] + [(kind, tuple(cfg["sides"]), cfg["open_x"], p) for p in positions])
        res.guard("lattices_constructed")
        res.guard("sites_visited", nsite)
        if judge_relation:
            res.guard("neighbour_relation_judged")
        else:
            res.guard("neighbour_relation_not_judged[%s]" % ("side==2" if not sides_ge3 else "open_x,odd-rows"))
            if asym and sides_ge3:
                res.guard("open_x_odd_rows_asymmetric_lattices_observed")
        if periodic and sides_ge3:
            res.guard("regularity_judged")
        if (not periodic) and even_rows:
            res.guard("open_degree_bound_judged")
            if A is not None and (A.sum(1) < lat.coord_num).any():
                res.guard("open_boundary_sites_below_coord_num")
        if out_of_range:
            res.guard("open_boundary_out_of_range_neighbours", out_of_range)
        if len(set(cfg["sides"])) > 1:
            res.guard("unequal_sides_lattices")
        res.guard("pytree_round_trips", len(routes))
    return fails


def job(j):
    res = Result()
    for cfg in j["cfgs"]:
        for sig, det in check_lattice(cfg, res, j["seed"]):
            res.violation(sig, dict(cfg), det)
    c = j["cfgs"][-1]
    res.sample(dict(kind=c["kind"], sides=c["sides"], open_x=c["open_x"], sites=int(np.prod(c["sides"]))))
    return res


def job_distinct(j):
    """Lattices with different parameters are different objects under ==."""
    res = Result()
    lats = []
    for cfg in j["cfgs"]:
        try:
            lats.append((cfg, construct(cfg)))
        except Exception:  # noqa: BLE001 -- reported by the per-lattice job
            pass
    n = 0
    for (ca, a), (cb, b) in itertools.combinations(lats, 2):
        n += 1
        if a == b:
            res.violation("lattice.__eq__:different-parameters-compare-equal", dict(part="distinct", a=ca, b=cb), dict(a=repr(a)[:200], b=repr(b)[:200]))
    res.add(states=n, transitions=n, evaluations=n, traces=n)
    res.guard("distinct_pairs_compared", n)
    return res


def run(ctx):
    cfgs = configs(ctx.tier)
    ctx.rule = ("lattice kinds {chain n=2..33 (65 thorough); rectangular grid and triangular grid (periodic and open_x) for every ordered "
                "side pair in 2..6 (10) plus the long thin shapes k x {2,3} and {2,3} x k for k up to 17 (33); cubic grid for every side "
                "triple in 2..4 (6) plus k x 2 x 2 in every orientation for k = 5..12 (7..17)} x every site; per lattice: construction, "
                "site numbering both ways, neighbour lists of every site, adjacency matrix, equality/hash, flatten->unflatten and a real "
                "jax.jit argument boundary; all ordered pairs of lattices for inequality. A state is a lattice or a (lattice, site); all are "
                "distinct; non-trivial = every one (each site's neighbour list is compared)")
    ctx.assume("position boxes: chain (n), grid2d (l_y rows, l_x columns), triangular (l_x rows, l_y columns), cubic (l_z, l_y, l_x) -- as the classes' own `sites` construction documents")
    ctx.assume("open-boundary triangular lattices with an odd number of rows are not judged for neighbour symmetry / degree (the property restricts the open boundary to an even number of rows); they are judged for everything else")
    ctx.assume("lattices are built with default hop_signs / coord_num (the property's quantifier ranges over kinds, side lengths and boundary)")
    # wave 1: the smallest lattices, in order, in one job -> the first counterexample of a defect is the smallest one
    small = [c for c in cfgs if np.prod(c["sides"]) <= 16]
    rest = [c for c in cfgs if np.prod(c["sides"]) > 16]
    ctx.pmap(job, [dict(cfgs=small, seed=ctx.seed)])
    nshard = 12
    shards = [rest[i::nshard] for i in range(nshard)]
    ctx.pmap(job, [dict(cfgs=s, seed=ctx.seed) for s in shards if s])
    ctx.pmap(job_distinct, [dict(cfgs=cfgs, seed=ctx.seed)])
    ctx.violations.sort(key=lambda v: int(np.prod(v["case"].get("sides", [0]))))
    ctx.require_guard("lattices_constructed", "neighbour_relation_judged", "regularity_judged", "open_degree_bound_judged",
                      "open_boundary_sites_below_coord_num", "unequal_sides_lattices", "pytree_round_trips", "distinct_pairs_compared")


def replay(case):
    if case.get("part") == "distinct":
        a, b = construct(case["a"]), construct(case["b"])
        return (bool(a == b), dict(equal=bool(a == b)))
    cfg = dict(kind=case["kind"], sides=[int(v) for v in case["sides"]], open_x=bool(case["open_x"]))
    fails = check_lattice(cfg)
    return (len(fails) > 0, dict(failures=[s for s, _ in fails], first=fails[0][1] if fails else None))
