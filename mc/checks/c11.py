"""C11 -- determinant-list trials mean what they say; an exact trial gives zero variance.

Three bounded exhaustive explorations on the real code (engine: gridmc; nothing is sampled):

(1) representation invariance.  For every orbital space in the bound and EVERY determinant of the space as the
    reference (= first entry of the list), every ordered list from the list alphabet

        single [r] | pair [r, d] (coefficients (0.8, 0.6) and the true unit vector (0, 1)) |
        triple [r, d1, d2] for every ordered (d1, d2) (so all 3! orders of every 3-subset occur across r) |
        dense vector on all determinants in every rotation and adjacent transposition of the tail

    is pushed through each source { python dict -> get_excitations(state=..),
    Dice-layout binary file written by the harness -> read_dets -> get_excitations(fname=..),
    pyscf FCI object (ci matrix addressed with pyscf.fci.cistring) -> get_fci_state -> get_excitations }
    at every cut-off max_excitation in {needed, needed+1, needed+3}, and the library overlap
    multislater._calc_overlap is compared on a walker product grid with
        sum_i c_i <A_i B_i|phi>     (alpha-string x beta-string sign convention, mc/fock.py).
    Equality with one common oracle IS invariance across order / reference / cut-off / source.
    Walker grids: the full product grid (2 non-real letters per entry) up to 4096 points; beyond that its lower
    set {digit sum <= n_up+n_dn}.  The overlap (and <psi|H|phi>) is homogeneous of total degree n_up+n_dn in the
    walker entries, and a lower set of a product grid is unisolvent for the polynomials with exponents in it, so
    the lower set decides the same identity with ~2.5e3 instead of 6.5e4 points (4 orbitals, 2+2 electrons).
    A failure is attributed to one call site: the plain route if the list already fails there, otherwise to what
    the variant adds (read_dets / get_fci_state / the ndets argument / a cut-off above the needed one); failures
    of (2) and (3) downstream of a failing representation are reported under that signature (see `attribute`).

(2) zero variance.  For exact eigenvectors of generic symmetric Hamiltonians (diagonalisation of the Fock
    model's H) and of H2 / H4 / LiH (pyscf FCI -> get_fci_state), for every reference determinant with a
    non-negligible coefficient:  E_L(W) = E_k on the whole walker grid, unrestricted and restricted
    containers (polynomial identity N - E O = 0; the multislater energy is a finite-difference quantity,
    eps = 1e-4, so the tolerance is 1e-5 relative; measured ~1e-6).

(4) high excitation ranks.  7 orbitals (4,3) (also 6 orbitals (3,2)/(3,3), 8 orbitals (4,1)/(4,4) in the thorough tier): one determinant per
    excitation class incl. same-spin rank 3 (4), coefficient basis {pair, unit, dense}, aufbau and non-aufbau references,
    overlap and local energy through the public batched entry points for both walker containers, on a generic
    lower-set grid (degree 2-3 < n_up+n_dn: a declared cap) against the Fock model (H assembled from the string spaces).

(5) call histories.  get_excitations / read_dets / get_fci_state take caller-owned containers (state dict, determinant
    file, FCI object).  Every word of length <= 3 (4) over a menu of calls is run on ONE container; after every call the
    container must be bitwise unchanged and the result must mean the separately held list (library overlap on the walker
    grid vs the Fock sum; distinct results are judged once).  A result that is wrong only after an earlier call is
    attributed to the mutation if one was seen, else reported as history dependence.

(3) driver level.  driver.afqmc with that exact trial on tiny systems over the option matrix
    walker container x n_batch x sampler shape x n_eql x seed list: every block energy in samples_raw.dat
    and the returned mean equal E_0.  "Every seed" is decided by (2) (the identity holds for every walker);
    the driver cells are the integration check, each with a control run (one CI coefficient flipped) that
    must NOT give E_0, so the cell is known to have teeth.
"""

import contextlib
import io
import itertools
import os
import shutil
import struct
import tempfile

import numpy as np

from mc import alphabets as al
from mc import core, fock, gridmc, trials
from mc.core import Result

ID = "C11"
TECHNIQUE = ("exhaustive enumeration of determinant lists (every reference x order x cut-off x source) on walker "
             "product grids against the Fock-space sum; excitation classes up to same-spin rank 3 (rank 4 thorough) on 6-8 orbitals, "
             "overlap and energy, both containers; call histories (every word <= 3-4 over a menu of cut-offs) on caller-owned "
             "state dicts / determinant files / FCI objects with a bitwise 'container unchanged' invariant; exact-eigenvector local "
             "energy on the grid; driver option matrix")
TOL_O = 1e-9
TOL_E = 1e-5
NODE_FRAC = 1e-2
NEGLIGIBLE = 1e-2  # reference determinants with |c| below this fraction of max|c| are outside the quantifier of (2)
TMP_ROOT = os.path.join(core.ROOT, "scratch", "c11_tmp")
EXTRAS = (0, 1, 3)
SOURCES = ("dict", "file", "fci")
SITE = {"dict": "get_excitations", "file": "read_dets", "fci": "get_fci_state"}


@contextlib.contextmanager
def quiet():
    buf = io.StringIO()
    with contextlib.redirect_stdout(buf):
        yield buf


@contextlib.contextmanager
def scratch_dir(chdir=False):
    os.makedirs(TMP_ROOT, exist_ok=True)
    d = tempfile.mkdtemp(prefix="c11_", dir=TMP_ROOT)
    cwd = os.getcwd()
    if chdir:
        os.chdir(d)
    try:
        yield d
    finally:
        if chdir:
            os.chdir(cwd)
        shutil.rmtree(d, ignore_errors=True)


# ----------------------------------------------------------------------------- the three sources
_CH = {(0, 0): b"0", (1, 0): b"a", (0, 1): b"b", (1, 1): b"2"}


def write_dets(path, n, items):
    """Dice layout parsed by read_dets: int32 ndets, int32 norbs, per determinant float64 + norbs chars."""
    with open(path, "wb") as f:
        f.write(struct.pack("i", len(items)))
        f.write(struct.pack("i", n))
        for a, b, c in items:
            f.write(struct.pack("d", float(c)))
            for j in range(n):
                f.write(struct.pack("c", _CH[(int(a[j]), int(b[j]))]))


def fci_object(n, na, nb, items):
    """A pyscf FCI solver carrying the CI matrix of the list (pyscf string addressing), as get_fci_state expects
    (attributes ci, norb, nelec and the method large_ci)."""
    from pyscf.fci import cistring, direct_spin1

    ci = np.zeros((cistring.num_strings(n, na), cistring.num_strings(n, nb)))
    for a, b, c in items:
        sa = sum(1 << i for i in range(n) if a[i])
        sb = sum(1 << i for i in range(n) if b[i])
        ci[cistring.str2addr(n, na, sa), cistring.str2addr(n, nb, sb)] = c
    o = direct_spin1.FCI()
    o.ci, o.norb, o.nelec = ci, n, (na, nb)
    return o


def canon(out):
    """Tuple returned by get_excitations -> wave_data; only the dict keys are normalised to python ints (the
    library mixes numpy and python ints, which would only multiply jit cache entries)."""
    Acre, Ades, Bcre, Bdes, coeff, ref_det = out
    cv = lambda d: {(int(k[0]), int(k[1])): np.asarray(v) for k, v in d.items()}
    return {"Acre": cv(Acre), "Ades": cv(Ades), "Bcre": cv(Bcre), "Bdes": cv(Bdes), "coeff": cv(coeff),
            "ref_det": np.asarray(ref_det)}


def as_state(items):
    return {(tuple(int(x) for x in a), tuple(int(x) for x in b)): float(c) for a, b, c in items}


def state_from_source(source, n, na, nb, items, tmpdir=None, fci_tol=None):
    """The state dict the library derives from the source (file and FCI paths only)."""
    from ad_afqmc import pyscf_interface as pi

    if source == "file":
        path = os.path.join(tmpdir, "dets.bin")
        write_dets(path, n, items)
        return pi.read_dets(path)[1]
    kw = {} if fci_tol is None else {"tol": fci_tol}
    return pi.get_fci_state(fci_object(n, na, nb, items), **kw)


def build_wave_data(source, n, na, nb, items, mx, ndets=None, n_batch=1, tmpdir=None, fci_tol=None):
    """(trial, wave_data) for an ordered list `items` = [(occ_a, occ_b, coeff), ...] through one source."""
    jnp, wf = trials.lib()
    from ad_afqmc import pyscf_interface as pi

    if source == "dict":
        state = as_state(items)
        if ndets is None:
            trial, wd = trials.multislater_from_state(n, na, nb, state, mx, n_batch)
            return trial, canon((wd["Acre"], wd["Ades"], wd["Bcre"], wd["Bdes"], wd["coeff"], wd["ref_det"]))
        out = pi.get_excitations(state=state, max_excitation=mx, ndets=ndets)
    elif source == "file":
        path = os.path.join(tmpdir, "dets.bin")
        write_dets(path, n, items)
        out = pi.get_excitations(fname=path, ndets=ndets, max_excitation=mx)
    elif source == "fci":
        kw = {} if fci_tol is None else {"tol": fci_tol}
        state = pi.get_fci_state(fci_object(n, na, nb, items), ndets=ndets, **kw)
        out = pi.get_excitations(state=state, max_excitation=mx)
    else:
        raise ValueError(source)
    return wf.multislater(n, (na, nb), mx, n_batch=n_batch), canon(out)


def needed(items):
    return trials.needed_excitation(as_state(items))


def ket_of(n, na, nb, items):
    return fock.ket_multislater(n, na, nb, [(tuple(a), tuple(b), c) for a, b, c in items])


# ----------------------------------------------------------------------------- list alphabet
def dense_coeffs(n, na, nb, seed):
    """One generic coefficient per determinant (|c| in [0.3, 1], signs mixed); the seed picks the vector only."""
    dets = trials.all_dets(n, na, nb)
    rng = np.random.default_rng(1100 + 17 * seed + 7 * n + 3 * na + nb)
    mag = 0.3 + 0.7 * rng.random(len(dets))
    sgn = np.where(rng.random(len(dets)) < 0.5, -1.0, 1.0)
    return {d: float(m * s) for d, m, s in zip(dets, mag, sgn)}


def lists_for_ref(dets, r, dc, kinds, triple_pool=None):
    """Ordered lists whose first entry (the reference) is dets[r], simplest first: (kind, label, items)."""
    ref = dets[r]
    others = [d for d in dets if d != ref]
    idx = {d: i for i, d in enumerate(dets)}
    out = []
    if "single" in kinds:
        out.append(("single", "r%d" % r, [(ref[0], ref[1], 0.9)]))
    if "pair" in kinds:
        for d in others:
            out.append(("pair", "r%d,d%d" % (r, idx[d]), [(ref[0], ref[1], 0.8), (d[0], d[1], 0.6)]))
        for d in others:
            out.append(("unit", "r%d,e%d" % (r, idx[d]), [(ref[0], ref[1], 0.0), (d[0], d[1], 1.0)]))
    if "triple" in kinds:
        pool = others if triple_pool is None else [d for d in others if idx[d] in triple_pool]
        for d1, d2 in itertools.permutations(pool, 2):
            out.append(("triple", "r%d,d%d,d%d" % (r, idx[d1], idx[d2]),
                        [(ref[0], ref[1], 0.8), (d1[0], d1[1], -0.6), (d2[0], d2[1], 0.5)]))
    if "dense" in kinds and others:
        m = len(others)
        orders = [("rot%d" % j, others[j:] + others[:j]) for j in range(m)]
        for j in range(m - 1):
            o = list(others)
            o[j], o[j + 1] = o[j + 1], o[j]
            orders.append(("swap%d" % j, o))
        seen = set()
        for lab, o in orders:
            key = tuple(idx[d] for d in o)
            if key in seen:
                continue
            seen.add(key)
            out.append(("dense", "r%d,%s" % (r, lab), [(ref[0], ref[1], dc[ref])] + [(d[0], d[1], dc[d]) for d in o]))
    return out


def positional(kind, items):
    """get_fci_state orders by |coefficient|: to realise a given list ORDER through the FCI source the magnitudes
    must decrease along the list; signs stay with the determinants."""
    L = len(items)
    if kind != "dense" or L < 2:
        return items  # (0.9) / (0.8, 0.6) / (0.8, -0.6, 0.5) already decrease
    return [(a, b, float(np.sign(c) * (1.0 - 0.65 * p / (L - 1)))) for p, (a, b, c) in enumerate(items)]


# ----------------------------------------------------------------------------- grouped evaluation
_JV = {}


def shape_sig(wd):
    return tuple((name, k, np.shape(v)) for name in ("Acre", "Ades", "Bcre", "Bdes", "coeff")
                 for k, v in sorted(wd[name].items()))


def eval_overlaps(trial, wds, ja, jb, chunk):
    """Library overlaps multislater._calc_overlap for a group of wave_data with identical shapes, vmapped over the
    walkers and over the group (one compilation per (trial, shapes, chunk)).  -> (len(wds), P)"""
    import jax
    from jax import tree_util as tu

    if trial not in _JV:
        _JV[trial] = jax.jit(jax.vmap(jax.vmap(trial._calc_overlap, in_axes=(0, 0, None)), in_axes=(None, None, 0)))
    f = _JV[trial]
    flat = [tu.tree_flatten(w) for w in wds]
    treedef = flat[0][1]
    nleaf = len(flat[0][0])
    out = []
    for s in range(0, len(flat), chunk):
        part = flat[s:s + chunk]
        m = len(part)
        part = part + [part[-1]] * (chunk - m)  # fixed chunk size: one compilation per (trial, shapes)
        stacked = tu.tree_unflatten(treedef, [np.stack([p[0][k] for p in part]) for k in range(nleaf)])
        out.append(np.asarray(f(ja, jb, stacked))[:m])
    return np.concatenate(out)


_LOWER = {}


def lower_set_digits(E, nlet, d):
    """All words x in {0..nlet-1}^E with sum(x) <= d, smallest sum first.  Interpolation on a lower set of a product
    grid is unisolvent for the polynomials whose exponent vectors lie in that set, so these points decide every
    polynomial of degree < nlet per variable and total degree <= d."""
    key = (E, nlet, d)
    if key not in _LOWER:
        def rec(e, budget):
            if e == 0:
                yield ()
                return
            for v in range(min(nlet - 1, budget) + 1):
                for rest in rec(e - 1, budget - v):
                    yield (v,) + rest
        a = np.array(list(rec(E, d)), dtype=np.int8).reshape(-1, E)
        _LOWER[key] = a[np.argsort(a.sum(axis=1), kind="stable")]
    return _LOWER[key]


def walker_grid(n, na, nb, seed, restricted, limit):
    """Frame-basis walker grid.  The overlap and <psi|H|phi> are homogeneous polynomials of total degree n_up+n_dn in the
    walker entries (degree <= 1 per entry, <= 2 for a restricted walker).  Up to 4096 points the full product grid is used
    (as in C01/C02); beyond, the lower set {digit sum <= n_up+n_dn} of the same product grid, which decides the same
    polynomial identities with far fewer points.  `limit` bounds the number of points (degree reduced -> capped)."""
    nlet = 3 if restricted else 2
    Ea = n * na
    E = Ea if restricted else n * (na + nb)
    deg = na + nb
    if nlet ** E <= 4096:
        digits, kind, d = al.grid_digits(E, nlet, E, seed)[0], "full", deg
    else:
        d = deg
        while d > 1 and len(lower_set_digits(E, nlet, d)) > limit:
            d -= 1
        digits, kind = lower_set_digits(E, nlet, d), "lower-set(sum<=%d)" % d
    Ga = al.block_from_digits(digits[:, :Ea], n, na, seed, nlet)
    Gb = None if restricted else al.block_from_digits(digits[:, Ea:], n, nb, seed + 1, nlet)
    return dict(Ga=Ga, Gb=Gb, P=digits.shape[0], capped=d < deg, kind=kind, entries=E, degree=d, full_degree=deg)


def ref_grid(n, na, nb, ref, seed, cap, restricted=False):
    """Walker grid (lab frame) whose reference block(s) sit on the occupied orbitals of `ref`; cap = point limit."""
    grid = walker_grid(n, na, nb, seed, restricted, cap)
    Qa, Qb = trials.frame_for_ref(n, ref[0]), trials.frame_for_ref(n, ref[1])
    if restricted:
        W = np.einsum("pq,wqk->wpk", Qa, grid["Ga"])
        return grid, W, None
    return grid, np.einsum("pq,wqk->wpk", Qa, grid["Ga"]), np.einsum("pq,wqk->wpk", Qb, grid["Gb"])


def nbatch_for(P):
    """A batch count > 1 dividing the number of walkers (the library reshapes to (n_batch, P // n_batch, ...))."""
    for d in (4, 3, 2, 5, 7, 9, 11, 13):
        if P % d == 0:
            return d
    return 1


def cap_text(what, n, na, nb, mode, grid):
    return ("%s n=%d (%d,%d) %s walkers: grid %s of %d points has total degree %d < %d = n_up+n_dn (point limit)" % (
        what, n, na, nb, mode, grid["kind"], grid["P"], grid["degree"], grid["full_degree"]))


def block_dets(ref, Wa, Wb):
    ra = [i for i, x in enumerate(ref[0]) if x]
    rb = [i for i, x in enumerate(ref[1]) if x]
    return min(np.abs(np.linalg.det(Wa[:, ra, :])).min(), np.abs(np.linalg.det(Wb[:, rb, :])).min())


# ----------------------------------------------------------------------------- (1) representation invariance
ROOT_SIG = "get_excitations+multislater._calc_overlap/list-overlap"
REPR_SITES = ("get_excitations", "read_dets", "get_fci_state")


def repr_sig(kind, source, extra, ndets, base_bad):
    """Call site + failure class.  A list that already fails on the plain route (python dict, cut-off = needed) is
    attributed to that route whatever the variant; otherwise to what the variant adds."""
    if base_bad or (source == "dict" and extra == 0 and ndets is None):
        return ROOT_SIG
    if source != "dict":
        return "%s/list-overlap" % SITE[source]
    if ndets is not None:
        return "get_excitations/ndets-truncation"
    return "get_excitations+multislater._calc_overlap/cutoff-above-needed"


def job_repr(cfg):
    res = Result()
    n, na, nb, seed = cfg["n"], cfg["na"], cfg["nb"], cfg["seed"]
    dets = trials.all_dets(n, na, nb)
    sec = fock.sector(n, na, nb)
    dc = dense_coeffs(n, na, nb, seed)
    jnp, wf = trials.lib()
    found = []
    with scratch_dir() as tmp:
        for r in cfg["refs"]:
            ref = dets[r]
            grid, Wa, Wb = ref_grid(n, na, nb, ref, seed, cfg["cap"])
            P = grid["P"]
            if grid["capped"]:
                res.cap(cap_text("lists", n, na, nb, "unrestricted", grid))
            Phi = sec.walker_vectors(Wa, Wb)
            if np.linalg.matrix_rank(Phi) < sec.dim:
                raise RuntimeError("walker grid does not span the sector for %r" % (cfg,))
            res.guard("grids_spanning_the_sector")
            if block_dets(ref, Wa, Wb) < 1e-3:
                raise RuntimeError("reference block singular on its own grid: %r" % (cfg,))
            ja, jb = jnp.asarray(Wa), jnp.asarray(Wb)
            entries = []
            for order, (kind, label, items) in enumerate(lists_for_ref(dets, r, dc, cfg["kinds"], cfg.get("triple_pool"))):
                for source in cfg["sources"]:
                    if source == "fci" and kind == "unit":
                        continue  # a zero coefficient cannot be carried by the FCI path (large_ci drops it)
                    its = positional(kind, items) if source == "fci" else items
                    truncs = [None]
                    if kind == "dense" and label.endswith("rot0") and len(items) > 2:
                        truncs.append((len(items) + 1) // 2)
                    for ndets in truncs:
                        eff = its if ndets is None else its[:ndets]
                        need = needed(eff)
                        for extra in cfg["extras"]:
                            case = dict(part="repr", n=n, na=na, nb=nb, seed=seed, cap=cfg["cap"], ref=r, kind=kind, label=label,
                                        items=[[list(a), list(b), c] for a, b, c in its], source=source, ndets=ndets,
                                        extra=extra, max_excitation=need + extra)
                            try:
                                trial, wd = build_wave_data(source, n, na, nb, its, need + extra, ndets, tmpdir=tmp)
                            except Exception as e:  # the library refusing a legitimate list
                                found.append((order, "%s/raises-%s" % (SITE[source], type(e).__name__), case,
                                              dict(error=repr(e)[:300])))
                                continue
                            entries.append(dict(order=order, kind=kind, label=label, source=source, ndets=ndets, extra=extra,
                                                eff=eff, trial=trial, wd=wd, case=case))
            groups = {}
            for e in entries:
                groups.setdefault((e["trial"], shape_sig(e["wd"])), []).append(e)
            chunk = max(1, min(16, (1 << 16) // P))
            if os.environ.get("C11_DEBUG"):
                print("ref", r, "entries", len(entries), "groups", len(groups), "chunk", chunk, flush=True)
            sliced = [(trial, es_all[k:k + 256]) for (trial, _), es_all in groups.items() for k in range(0, len(es_all), 256)]
            for trial, es in sliced:  # slices bound the memory of the (lists x points) arrays
                O = eval_overlaps(trial, [e["wd"] for e in es], ja, jb, chunk)
                K = np.array([ket_of(n, na, nb, e["eff"]) for e in es])
                Oref = np.conj(K) @ Phi
                scale = np.abs(Oref).max(axis=1, keepdims=True)
                if not np.all(scale > 1e-6):
                    raise RuntimeError("reference overlap degenerate in %r" % (cfg,))
                err = np.abs(O - Oref) / np.maximum(np.abs(Oref), 1e-3 * scale)
                err = np.where(np.isfinite(O), err, np.inf)
                for k, e in enumerate(es):
                    e["maxerr"] = float(err[k].max())
                    e["bad"] = gridmc.first_bad(err[k], TOL_O)
                    if e["bad"] is not None:
                        b = e["bad"]
                        e["detail"] = dict(impl=O[k, b], ref=Oref[k, b], relerr=float(err[k, b]), n_bad=int((~(err[k] <= TOL_O)).sum()),
                                           n_points=P, walker_up=Wa[b], walker_dn=Wb[b])
                res.add(states=P * len(es), transitions=P * len(es), evaluations=P * len(es), traces=P * len(es))
            base = {e["label"]: e["bad"] is not None for e in entries if e["source"] == "dict" and e["extra"] == 0 and e["ndets"] is None}

            def base_bad(e):
                """Does the plain route (python dict, cut-off = needed, no truncation) already fail for this list?  Decides
                which call site a failure is attributed to; evaluated on demand (failures only)."""
                if e["label"] not in base:
                    its = [(tuple(a), tuple(b), c) for a, b, c in e["case"]["items"]]
                    if e["kind"] == "dense":  # the FCI route carries positional magnitudes; the plain route its own vector
                        its = [(a, b, dc[(a, b)]) for a, b, _ in its]
                    try:
                        t0, w0 = build_wave_data("dict", n, na, nb, its, needed(its))
                        O0 = eval_overlaps(t0, [w0], ja, jb, chunk)[0]
                        R0 = np.conj(ket_of(n, na, nb, its)) @ Phi
                        e0 = np.abs(O0 - R0) / np.maximum(np.abs(R0), 1e-3 * np.abs(R0).max())
                        base[e["label"]] = not np.all(np.where(np.isfinite(O0), e0, np.inf) <= TOL_O)
                    except Exception:
                        base[e["label"]] = True
                return base[e["label"]]

            for e in entries:
                res.nontrivial((n, na, nb, e["label"], e["source"], e["extra"], e["ndets"]))
                res.guard("lists_" + ("pair" if e["kind"] == "unit" else e["kind"]))
                res.guard("lists_src_" + e["source"])
                if e["extra"]:
                    res.guard("lists_cutoff_above_needed")
                if e["bad"] is not None:
                    case = dict(e["case"], point=e["bad"])
                    plain = e["source"] == "dict" and e["extra"] == 0 and e["ndets"] is None
                    found.append((e["order"], repr_sig(e["kind"], e["source"], e["extra"], e["ndets"], (not plain) and base_bad(e)),
                                  case, e["detail"]))
            if entries and r == cfg["refs"][0] and cfg.get("sample"):
                e = entries[-1]
                res.sample(dict(part="repr", n=n, nelec=[na, nb], reference=[list(ref[0]), list(ref[1])], n_lists=len(entries),
                                grid_points=P, example=dict(label=e["label"], source=e["source"], max_excitation=e["case"]["max_excitation"],
                                                            n_dets=len(e["eff"]), max_relerr=e["maxerr"])))
            # the public batched entry points on the dense list (both containers)
            if cfg.get("public", True) and len(dets) > 1:
                items = lists_for_ref(dets, r, dc, ("dense",))[0][2]
                trial, wd = build_wave_data("dict", n, na, nb, items, needed(items))
                ket = ket_of(n, na, nb, items)
                for mode in ("u", "r"):
                    if mode == "r":
                        g2, W, _ = ref_grid(n, na, nb, ref, seed, cfg["cap_r"], restricted=True)
                        Va, Vb = W[:, :, :na], W[:, :, :nb]
                        if block_dets(ref, Va, Vb) < 1e-2:
                            res.guard("restricted_grids_skipped_singular_reference_block")
                            continue
                        Ph = sec.walker_vectors(Va, Vb)
                        nbt = nbatch_for(g2["P"])
                        O = np.asarray(gridmc.jitted(gridmc.with_batch(trial, nbt), "calc_overlap")(jnp.asarray(W), wd))
                    else:
                        Ph, Va, Vb = Phi, Wa, Wb
                        nbt = nbatch_for(P)
                        O = np.asarray(gridmc.jitted(gridmc.with_batch(trial, nbt), "calc_overlap")([ja, jb], wd))
                    Oref = np.conj(ket) @ Ph
                    err = np.abs(O - Oref) / np.maximum(np.abs(Oref), 1e-3 * np.abs(Oref).max())
                    err = np.where(np.isfinite(O), err, np.inf)
                    res.add(states=len(O), transitions=len(O), evaluations=len(O), traces=len(O))
                    res.guard("public_calc_overlap_" + mode)
                    b = gridmc.first_bad(err, TOL_O)
                    if b is not None:
                        case = dict(part="repr-public", n=n, na=na, nb=nb, seed=seed, cap=cfg["cap"], cap_r=cfg["cap_r"], ref=r,
                                    mode=mode, n_batch=nbt, point=b)
                        root = any(e["bad"] is not None for e in entries if e["kind"] == "dense" and e["label"].endswith("rot0")
                                   and e["source"] == "dict" and e["ndets"] is None)
                        found.append((10 ** 6, ROOT_SIG if root else "multislater.calc_overlap/batched-%s" % mode, case,
                                      dict(impl=O[b], ref=Oref[b], relerr=float(err[b]), n_bad=int((~(err <= TOL_O)).sum()))))
    for order, sig, case, detail in sorted(found, key=lambda t: (t[0], t[2].get("extra", 0), SOURCES.index(t[2].get("source", "dict")))):
        res.violation(sig, case, detail)
    return res


def replay_repr(case):
    n, na, nb, seed = case["n"], case["na"], case["nb"], case["seed"]
    jnp, wf = trials.lib()
    dets = trials.all_dets(n, na, nb)
    ref = dets[case["ref"]]
    sec = fock.sector(n, na, nb)
    i = int(case.get("point", 0))  # cases recorded because the library raised carry no grid point
    if case["part"] == "repr-public":
        dc = dense_coeffs(n, na, nb, seed)
        items = lists_for_ref(dets, case["ref"], dc, ("dense",))[0][2]
        trial, wd = build_wave_data("dict", n, na, nb, items, needed(items))
        trial = gridmc.with_batch(trial, case["n_batch"])
        if case["mode"] == "r":
            _, W, _ = ref_grid(n, na, nb, ref, seed, case["cap_r"], restricted=True)
            O = np.asarray(gridmc.jitted(trial, "calc_overlap")(jnp.asarray(W), wd))
            Phi = sec.walker_vectors(W[:, :, :na], W[:, :, :nb])
        else:
            _, Wa, Wb = ref_grid(n, na, nb, ref, seed, case["cap"])
            O = np.asarray(gridmc.jitted(trial, "calc_overlap")([jnp.asarray(Wa), jnp.asarray(Wb)], wd))
            Phi = sec.walker_vectors(Wa, Wb)
        Oref = np.conj(ket_of(n, na, nb, items)) @ Phi
        err = abs(O[i] - Oref[i]) / max(abs(Oref[i]), 1e-3 * np.abs(Oref).max())
        return (not err <= TOL_O, dict(impl=O[i], ref=Oref[i], relerr=float(err)))
    items = [(tuple(int(x) for x in a), tuple(int(x) for x in b), float(c)) for a, b, c in case["items"]]
    ndets = case.get("ndets")
    eff = items if ndets is None else items[: int(ndets)]
    _, Wa, Wb = ref_grid(n, na, nb, ref, seed, case["cap"])
    Phi = sec.walker_vectors(Wa, Wb)
    Oref = np.conj(ket_of(n, na, nb, eff)) @ Phi
    with scratch_dir() as tmp:
        try:
            trial, wd = build_wave_data(case["source"], n, na, nb, items, int(case["max_excitation"]),
                                        None if ndets is None else int(ndets), tmpdir=tmp)
        except Exception as e:
            return (True, dict(error=repr(e)[:300]))
    if "point" not in case:
        return (False, dict(note="the library no longer raises on this list"))
    O = complex(np.asarray(trial._calc_overlap(jnp.asarray(Wa[i]), jnp.asarray(Wb[i]), wd)))
    err = abs(O - Oref[i]) / max(abs(Oref[i]), 1e-3 * np.abs(Oref).max())
    if not np.isfinite(err):
        err = float("inf")
    return (not err <= TOL_O, dict(impl=O, ref=Oref[i], relerr=float(err)))


# ----------------------------------------------------------------------------- exact eigenvectors
MOLECULES = {
    "h2": ("H 0 0 0; H 0 0 0.9", "sto-3g", 0),
    "h2_631g": ("H 0 0 0; H 0 0 0.9", "6-31g", 0),
    "h4": ("H 0 0 0; H 0 0 1.0; H 0 0 2.1; H 0 0 3.0", "sto-3g", 0),
    "lih_fc": ("Li 0 0 0; H 0 0 1.6", "sto-3g", 1),
    "lih": ("Li 0 0 0; H 0 0 1.6", "sto-3g", 0),
}


def chol_from_eri(eri, n):
    """Exact symmetric factorisation eri[pq,rs] = sum_g L_g[pq] L_g[rs] (eigen-decomposition; residual < 1e-10)."""
    M = eri.reshape(n * n, n * n)
    w, v = np.linalg.eigh(M)
    keep = w > 1e-12
    L = (v[:, keep] * np.sqrt(w[keep])).T.reshape(-1, n, n)
    if np.abs(np.einsum("gpq,grs->pqrs", L, L).reshape(n * n, n * n) - M).max() > 1e-10:
        raise RuntimeError("ERI factorisation inexact")
    return 0.5 * (L + L.transpose(0, 2, 1))


_SYS = {}


def system(spec):
    """-> dict(n, na, nb, h0, h1[2,n,n], chol[g,n,n], E, items) with items the FULL eigenvector as an ordered
    list (largest |c| first).  Generic Hamiltonians: eigenvector k of the Fock model's H (python-dict source);
    molecules: pyscf RHF integrals + pyscf FCI, list obtained through the library's get_fci_state."""
    key = repr(sorted(spec.items()))
    if key in _SYS:
        return _SYS[key]
    if spec["sys"] == "rand":
        n, na, nb = spec["n"], spec["na"], spec["nb"]
        h0, h1, chol = al.small_ham(n, spec["nchol"], spec["hseed"], spin_dependent=spec.get("spin_dep", False), scale=0.5)
        sec = fock.sector(n, na, nb)
        w, v = np.linalg.eigh(sec.hamiltonian(h0, h1, chol))
        k = spec["eig"] % len(w)
        vec = v[:, k]
        dets = trials.all_dets(n, na, nb)  # same (A major, B minor) order as the sector
        order = np.argsort(-np.abs(vec), kind="stable")
        items = [(dets[i][0], dets[i][1], float(vec[i])) for i in order]
        if np.abs(ket_of(n, na, nb, items) - vec).max() > 1e-14:
            raise RuntimeError("determinant order of the reference model changed")
        out = dict(n=n, na=na, nb=nb, h0=h0, h1=h1, chol=chol, E=float(w[k]), items=items)
    else:
        from pyscf import ao2mo, gto, mcscf, scf
        from pyscf.fci import direct_spin1
        from ad_afqmc import pyscf_interface as pi

        atom, basis, frozen = MOLECULES[spec["name"]]
        mol = gto.M(atom=atom, basis=basis, verbose=0)
        mf = scf.RHF(mol)
        mf.conv_tol = 1e-12
        mf.kernel()
        C = mf.mo_coeff
        na, nb = mol.nelec
        if frozen:
            cas = mcscf.CASCI(mf, C.shape[1] - frozen, (na - frozen, nb - frozen))
            h1, h0 = cas.get_h1eff()
            n = h1.shape[0]
            eri = ao2mo.restore(1, cas.get_h2eff(), n)
            na, nb = na - frozen, nb - frozen
        else:
            n = C.shape[1]
            h1 = C.T @ mf.get_hcore() @ C
            eri = ao2mo.restore(1, ao2mo.kernel(mol, C), n)
            h0 = mol.energy_nuc()
        cis = direct_spin1.FCI()
        cis.conv_tol = 1e-13
        E, ci = cis.kernel(h1, eri, n, (na, nb), ecore=h0)
        cis.ci, cis.norb, cis.nelec = ci, n, (na, nb)
        state = pi.get_fci_state(cis, tol=0.0)
        items = [(a, b, float(c)) for (a, b), c in state.items()]
        chol = chol_from_eri(eri, n)
        out = dict(n=n, na=int(na), nb=int(nb), h0=float(h0), h1=np.array([h1, h1]), chol=chol, E=float(E), items=items)
        if n <= 5:  # independent cross-check of the oracle energy (Fock model built from the same h0, h1, chol)
            w = np.linalg.eigvalsh(fock.sector(n, na, nb).hamiltonian(h0, out["h1"], chol))
            if abs(w[0] - E) > 1e-8:
                raise RuntimeError("pyscf FCI energy and the Fock model disagree for %s: %r %r" % (spec["name"], E, w[0]))
    _SYS[key] = out
    return out


def with_reference(items, ref):
    head = [t for t in items if (tuple(t[0]), tuple(t[1])) == (tuple(ref[0]), tuple(ref[1]))]
    return head + [t for t in items if t is not head[0]]


def references(items, limit=None, subset_ok=None):
    cmax = max(abs(c) for _, _, c in items)
    refs = [(tuple(a), tuple(b)) for a, b, c in items if abs(c) >= NEGLIGIBLE * cmax]
    if subset_ok is not None:
        refs = [r for r in refs if subset_ok(r)]
    if limit is not None and len(refs) > limit:
        pick = sorted(set(int(round(x)) for x in np.linspace(0, len(refs) - 1, limit)))
        refs = [refs[i] for i in pick]
    return refs


def perturbed(items):
    """The same list with the sign of the second largest coefficient (by |c|) flipped: no longer an eigenvector."""
    mags = sorted(range(len(items)), key=lambda i: -abs(items[i][2]))
    j = mags[1]
    return [(a, b, (-c if i == j else c)) for i, (a, b, c) in enumerate(items)]


# ----------------------------------------------------------------------------- (2) zero variance on the grid
def zv_eval(sysd, ref, mode, cap, seed, items=None):
    """-> (E_impl[P], O_impl[P], O_ref[P], trial info) for the exact trial with reference `ref`."""
    jnp, wf = trials.lib()
    n, na, nb = sysd["n"], sysd["na"], sysd["nb"]
    its = with_reference(sysd["items"] if items is None else items, ref)
    trial, wd = build_wave_data("dict", n, na, nb, its, needed(its))
    sec = fock.sector(n, na, nb)
    ket = ket_of(n, na, nb, its)
    if mode == "r":
        grid, W, _ = ref_grid(n, na, nb, ref, seed, cap, restricted=True)
        Va, Vb = W[:, :, :na], W[:, :, :nb]
        walkers = jnp.asarray(W)
    else:
        grid, Va, Vb = ref_grid(n, na, nb, ref, seed, cap)
        walkers = [jnp.asarray(Va), jnp.asarray(Vb)]
    dmin = block_dets(ref, Va, Vb)
    if dmin < 1e-2:
        return "restricted_grids_skipped_singular_reference_block", grid
    Phi = sec.walker_vectors(Va, Vb)
    Oref = np.conj(ket) @ Phi
    if np.abs(Oref).max() < 1e-8 * np.linalg.norm(ket) * np.linalg.norm(Phi, axis=0).max():
        # e.g. a high-spin eigenvector against restricted (spin-pure, low-spin) walkers: <psi|phi> = 0 on the whole
        # family, the local energy is 0/0 and the property (walkers with non-zero overlap) does not speak
        return "walker_families_orthogonal_to_the_eigenvector", grid
    tr = gridmc.with_batch(trial, nbatch_for(grid["P"]))
    hd = gridmc.build_ham_data(n, sysd["h0"], sysd["h1"], sysd["chol"], tr, wd)
    E = np.asarray(gridmc.jitted(tr, "calc_energy")(walkers, hd, wd))
    O = np.asarray(gridmc.jitted(tr, "calc_overlap")(walkers, wd))
    return (E, O, Oref, Va, Vb), grid


def zv_errors(E, Oref, E0):
    escale = max(1.0, abs(E0))
    good = np.abs(Oref) > NODE_FRAC * np.abs(Oref).max()
    d = np.where(np.isfinite(E), np.abs(E - E0), np.inf)
    err_rel = np.where(good, d / escale, 0.0)
    err_pol = d * np.abs(Oref) / np.abs(Oref).max() / escale  # residual of N - E0 O = 0, scaled
    return np.maximum(err_rel, err_pol), good


def job_zv(cfg):
    """All eigenvectors of one orbital space in one job (they share every compilation)."""
    res = Result()
    for spec in cfg["specs"]:
        _zv_one(res, cfg, spec)
    return res


def _zv_one(res, cfg, spec):
    seed = cfg["seed"]
    sysd = system(spec)
    n, na, nb, E0 = sysd["n"], sysd["na"], sysd["nb"], sysd["E"]
    # every non-negligible reference for ground states (and everything up to 9 determinants); a spread of
    # max_refs references for the other eigenvectors of the larger spaces
    full = spec.get("eig", 0) == 0 or len(sysd["items"]) <= 9
    refs = references(sysd["items"], cfg.get("max_refs") if not (full and cfg["tier"] == "thorough") else cfg.get("max_refs_ground"))
    first = True
    for ref in refs:
        for mode in cfg["modes"]:
            if mode == "r" and (na < nb or spec.get("spin_dep")):
                continue
            cap = cfg["cap_r"] if mode == "r" else cfg["cap"]
            out, grid = zv_eval(sysd, ref, mode, cap, seed)
            if isinstance(out, str):  # excluded by a pre-check on the inputs (reference values only)
                res.guard(out)
                continue
            if grid["capped"]:
                res.cap(cap_text("zero variance " + spec.get("name", "generic H"), n, na, nb, mode, grid))
            E, O, Oref, Va, Vb = out
            P = len(E)
            err, good = zv_errors(E, Oref, E0)
            res.add(states=P, transitions=2 * P, evaluations=2 * P, traces=2 * P)
            res.guard("zv_points_" + mode, P)
            res.guard("zv_near_node_points_judged_by_residual_only", int((~good).sum()))
            res.guard("zv_references")
            res.nontrivial_values((repr(sorted(spec.items())), ref, mode), Oref, 10)
            case = dict(part="zv", spec=spec, seed=seed, ref=[list(ref[0]), list(ref[1])], mode=mode, cap=cap)
            eo = np.abs(O - Oref) / np.maximum(np.abs(Oref), 1e-3 * np.abs(Oref).max())
            eo = np.where(np.isfinite(O), eo, np.inf)
            bo = gridmc.first_bad(eo, TOL_O)
            sig_o = "multislater.calc_overlap/full-vector/%s" % mode
            b = gridmc.first_bad(err, TOL_E)
            if b is not None:  # a wrong overlap of the same trial makes the energy failure a consequence of it
                res.violation(sig_o if bo is not None else "multislater.calc_energy/exact-trial-local-energy/%s" % mode, dict(case, point=b),
                              dict(impl=E[b], E_exact=E0, err=float(err[b]), tol=TOL_E, n_bad=int((~(err <= TOL_E)).sum()), n_points=P,
                                   overlap=Oref[b], walker_up=Va[b], walker_dn=Vb[b]))
            if bo is not None:
                res.violation(sig_o, dict(case, point=bo, what="overlap"), dict(impl=O[bo], ref=Oref[bo], relerr=float(eo[bo])))
            if first:
                # control: the same list with one sign flipped is not an eigenvector and must NOT pass
                first = False
                outc, _ = zv_eval(sysd, ref, mode, cap, seed, items=perturbed(sysd["items"]))
                if not isinstance(outc, str) and len(sysd["items"]) > 1:
                    errc, _ = zv_errors(outc[0], outc[2], E0)
                    if errc.max() > 100 * TOL_E:
                        res.guard("control_inexact_trial_deviates")
                if cfg.get("sample") and spec is cfg["specs"][0]:
                    res.sample(dict(part="zero-variance", system=spec, n=n, nelec=[na, nb], E_exact=E0, n_dets=len(sysd["items"]),
                                    reference=[list(ref[0]), list(ref[1])], mode=mode, grid_points=P, max_err=float(err.max())))


def replay_zv(case):
    spec = {k: (int(v) if isinstance(v, (np.integer,)) else v) for k, v in case["spec"].items()}
    sysd = system(spec)
    ref = (tuple(int(x) for x in case["ref"][0]), tuple(int(x) for x in case["ref"][1]))
    out, _ = zv_eval(sysd, ref, case["mode"], case["cap"], case["seed"])
    if isinstance(out, str):
        return (False, dict(excluded_by_input_precheck=out))
    E, O, Oref, _, _ = out
    i = int(case["point"])
    if case.get("what") == "overlap":
        err = abs(O[i] - Oref[i]) / max(abs(Oref[i]), 1e-3 * np.abs(Oref).max())
        return (not err <= TOL_O, dict(impl=O[i], ref=Oref[i], relerr=float(err)))
    err, _ = zv_errors(E, Oref, sysd["E"])
    return (not err[i] <= TOL_E, dict(impl=E[i], E_exact=sysd["E"], err=float(err[i])))


# ----------------------------------------------------------------------------- (3) driver
_MPI = None


def driver_lib():
    global _MPI
    jnp, wf = trials.lib()
    from ad_afqmc import config

    if _MPI is None:
        with quiet():
            _MPI = config.setup_comm()
    from ad_afqmc import driver, hamiltonian, propagation, sampling

    return jnp, driver, hamiltonian, propagation, sampling, _MPI


def run_driver(sysd, items, cell, seed):
    """One complete driver.afqmc run in a private directory -> (e_afqmc, e_err, samples_raw[n_blocks, 3])."""
    jnp, driver, hamiltonian, propagation, sampling, MPI = driver_lib()
    n, na, nb = sysd["n"], sysd["na"], sysd["nb"]
    trial, wd = build_wave_data("dict", n, na, nb, items, needed(items), n_batch=cell["n_batch"])
    wd = dict(wd)
    wd["rdm1"] = trial._calc_rdm1(wd)
    ham = hamiltonian.hamiltonian(n)
    hd = {"h0": sysd["h0"], "h1": jnp.asarray(np.asarray(sysd["h1"], dtype=float)),
          "chol": jnp.asarray(np.asarray(sysd["chol"], dtype=float).reshape(len(sysd["chol"]), n * n)), "ene0": 0.0}
    cls = propagation.propagator_restricted if cell["walker_type"] == "restricted" else propagation.propagator_unrestricted
    prop = cls(cell["dt"], cell["n_walkers"], n_batch=cell["n_batch"])
    smp = sampling.sampler(*cell["shape"])
    options = dict(seed=int(seed), n_eql=cell["n_eql"], n_ene_blocks_eql=1, n_sr_blocks_eql=1, ad_mode=None,
                   orbital_rotation=True, do_sr=True, save_walkers=False)
    with scratch_dir(chdir=True):
        with quiet():
            e, err = driver.afqmc(hd, ham, prop, trial, wd, smp, None, options, MPI)
        raw = np.loadtxt("samples_raw.dat", ndmin=2)
    return e, err, raw


def driver_reference(sysd, cell):
    """Reference determinant for a cell: rank-th non-negligible determinant; restricted walkers are initialised
    from the reference's natural orbitals, which needs the beta string inside the alpha string."""
    ok = None
    if cell["walker_type"] == "restricted":
        ok = lambda r: all(a >= b for a, b in zip(r[0], r[1]))
    refs = references(sysd["items"], None, ok)
    if not refs:
        return None
    return refs[min(cell["ref_rank"], len(refs) - 1)]


def driver_verdict(sysd, cell, seed, e, raw):
    E0 = sysd["E"]
    escale = max(1.0, abs(E0))
    out = []
    nb_ = cell["shape"][3]
    if raw.shape[0] != nb_ or not np.all(np.isfinite(raw)) or not np.all(raw[:, 0] > 0):
        out.append(("samples_raw-malformed", dict(shape=list(raw.shape), raw=raw)))
    else:
        d = np.abs(raw[:, 1] - E0) / escale
        if not np.all(d <= TOL_E):
            out.append(("block-energy", dict(block=int(np.argmax(d)), block_energies=raw[:, 1], E_exact=E0, err=float(d.max()), weights=raw[:, 0])))
    if not out and (e is None or not np.isfinite(e) or not abs(e - E0) / escale <= TOL_E):
        out.append(("return-value", dict(e_afqmc=None if e is None else float(e), E_exact=E0, block_energies=raw[:, 1])))
    return out


def job_driver(cfg):
    res = Result()
    spec, cell = cfg["spec"], cfg["cell"]
    sysd = system(spec)
    ref = driver_reference(sysd, cell)
    if ref is None:
        res.guard("driver_cells_without_admissible_reference")
        return res
    items = with_reference(sysd["items"], ref)
    weights, energies = [], []
    for seed in cell["seeds"]:
        case = dict(part="driver", spec=spec, cell=dict(cell, seeds=[int(seed)]), seed=cfg["seed"])
        try:
            e, err, raw = run_driver(sysd, items, cell, seed)
        except Exception as ex:
            res.violation("driver.afqmc/raises-%s" % type(ex).__name__, dict(case), dict(error=repr(ex)[:400]))
            continue
        nblk = cell["shape"][3]
        res.add(states=nblk, transitions=nblk + 1, evaluations=nblk + 1, traces=1)
        res.guard("driver_runs")
        res.guard("driver_block_energies", nblk)
        for what, detail in driver_verdict(sysd, cell, seed, e, raw):
            res.violation("driver.afqmc/%s" % what, case, detail)
        weights.append(raw[:, 0])
        energies.append(raw[:, 1])
        res.nontrivial_values((repr(sorted(spec.items())), repr(sorted(cell.items())), int(seed)), raw[:, 0], 6)
    if weights:
        w = np.concatenate(weights)
        if np.abs(w - cell["n_walkers"]).max() > 1e-6:
            res.guard("driver_runs_with_nontrivial_weights")
        # control run: a trial that is not the eigenvector must be reported away from E_0 by the same cell
        try:
            e, err, raw = run_driver(sysd, perturbed(items), cell, cell["seeds"][0])
            if driver_verdict(sysd, cell, cell["seeds"][0], e, raw):
                res.guard("control_inexact_trial_deviates_in_driver")
        except Exception:
            pass
        if cfg.get("sample"):
            res.sample(dict(part="driver", system=spec, cell=cell, E_exact=sysd["E"], reference=[list(ref[0]), list(ref[1])],
                            block_energies_first_run=energies[0], block_weights_first_run=weights[0]))
    return res


def replay_driver(case):
    spec = dict(case["spec"])
    cell = dict(case["cell"])
    cell["shape"] = [int(x) for x in cell["shape"]]
    sysd = system(spec)
    ref = driver_reference(sysd, cell)
    items = with_reference(sysd["items"], ref)
    seed = int(cell["seeds"][0])
    try:
        e, err, raw = run_driver(sysd, items, cell, seed)
    except Exception as ex:
        return (True, dict(error=repr(ex)[:400]))
    v = driver_verdict(sysd, cell, seed, e, raw)
    return (len(v) > 0, dict(failures=[w for w, _ in v], block_energies=raw[:, 1], e_afqmc=e, E_exact=sysd["E"]))


# ----------------------------------------------------------------------------- (4) high excitation ranks in one spin channel
def occ_tuple(n, idx):
    return tuple(1 if i in idx else 0 for i in range(n))


def entry_factors(n, k, salt):
    """Fixed generic complex factor per walker entry: a pure phase inside the reference block (keeps its diagonal dominance),
    phase x magnitude in [0.7, 1.2] in the virtual rows."""
    r, c = np.meshgrid(np.arange(n) + 1.0, np.arange(k) + 1.0, indexing="ij")
    golden = 0.6180339887498949
    mag = np.where(r <= k, 1.0, 0.7 + 0.5 * np.mod(golden * (r + salt) * (c + 1.0) + 0.31 * r * r, 1.0))
    return np.exp(1j * (0.37 * r * r + 0.61 * c * c + 0.9 * r * c + 0.2 * salt)) * mag  # not of the form f(r) g(c)


def generic_grid(n, na, nb, ref, seed, degree, restricted):
    """Walker grid for the large sectors of part (4): the lower set {digit sum <= degree} of a product grid in which every
    entry has its OWN pair (triple) of letters -- the catalogue letters times a fixed generic factor per entry.  With one
    common letter set all virtual rows of the base walker coincide and every excitation block of rank >= 2 of the half
    Green's function is exactly singular; with per-entry letters the blocks are generic matrices.  (Per-coordinate node
    sets do not affect unisolvence.)  The reference block keeps its diagonal dominance.  degree < n_up+n_dn: declared cap."""
    nlet = 3 if restricted else 2
    Ea = n * na
    E = Ea if restricted else n * (na + nb)
    digits = lower_set_digits(E, nlet, degree)
    Qa, Qb = trials.frame_for_ref(n, ref[0]), trials.frame_for_ref(n, ref[1])
    Ga = al.block_from_digits(digits[:, :Ea], n, na, seed, nlet) * entry_factors(n, na, 0)[None]
    if restricted:
        W = np.einsum("pq,wqk->wpk", Qa, Ga)
        return W, W[:, :, :na], W[:, :, :nb]
    Gb = al.block_from_digits(digits[:, Ea:], n, nb, seed + 1, nlet) * entry_factors(n, nb, 4)[None]
    return None, np.einsum("pq,wqk->wpk", Qa, Ga), np.einsum("pq,wqk->wpk", Qb, Gb)


def kron_hamiltonian(n, na, nb, h0, h1, chol):
    """The Fock model's H on the (n_up, n_dn) sector assembled from the two string spaces: a spin-conserving one-body
    operator is A(T_a) x 1 + 1 x B(T_b) in the (alpha-string major, beta-string minor) basis (a beta pair operator
    commutes through the alpha string).  Same definition as fock.Sector.hamiltonian, affordable for 6-8 orbitals;
    cross-checked against it on a small sector in every job."""
    SA, SB = fock.space(n, na), fock.space(n, nb)
    IA, IB = np.eye(SA.dim), np.eye(SB.dim)
    op1 = lambda Ta, Tb: np.kron(SA.op(Ta), IB) + np.kron(IA, SB.op(Tb))
    H = h0 * np.eye(SA.dim * SB.dim) + op1(h1[0], h1[1])
    for L in np.asarray(chol).reshape(-1, n, n):
        Lh = op1(L, L)
        H = H + 0.5 * (Lh @ Lh - op1(L @ L, L @ L))
    return H


def excite(ref_occ, n, k, which=0):
    """Occupation string with k electrons of `ref_occ` moved to virtuals; `which` rotates the choice."""
    occ = [i for i in range(n) if ref_occ[i]]
    virt = [i for i in range(n) if not ref_occ[i]]
    if k == 0:
        return tuple(ref_occ)
    if k > len(occ) or k > len(virt):
        return None
    o = [occ[(which + j) % len(occ)] for j in range(k)]
    v = [virt[(len(virt) - 1 - which - j) % len(virt)] for j in range(k)]
    new = set(occ) - set(o) | set(v)
    return occ_tuple(n, new)


def rank_lists(n, na, nb, ref, ranks, top, seed, w=0):
    """Lists around `ref` for cut-off `top`: ONE determinant list (the reference + one determinant of every excitation class
    (i, j), i + j <= top, that is of rank >= 3 in one spin or of total rank <= 2) carrying a basis of coefficient vectors:
    for every class in `ranks` the pair (0.8 on the reference, 0.6 on the class) and the true unit vector, plus one dense
    vector.  Zero coefficients stay in the list, so every vector has the same wave_data shapes (one compilation).
    `w` rotates which electrons / virtuals the rank >= 3 determinants use (spectator electrons in between change the parity)."""
    rng = np.random.default_rng(2200 + 13 * seed + n + 3 * na + nb + 7 * top)
    classes, dets = [], []
    for i in range(0, na + 1):
        for j in range(0, nb + 1):
            if 0 < i + j <= top and (i >= 3 or j >= 3 or i + j <= 2):
                da = excite(ref[0], n, i, which=w if i >= 3 else (1 if i < na else 0))
                db = excite(ref[1], n, j, which=w if j >= 3 else 0)
                if da is not None and db is not None:
                    classes.append((i, j))
                    dets.append((da, db))
    out = []
    mk = lambda cs: [(ref[0], ref[1], cs[0])] + [(d[0], d[1], c) for d, c in zip(dets, cs[1:])]
    for cls in ranks:
        if cls in classes:
            k = classes.index(cls)
            for lab, c0, c1 in ((("pair", 0.8, 0.6), ("unit", 0.0, 1.0)) if w == 0 else (("unit", 0.0, 1.0),)):
                cs = [c0] + [0.0] * len(dets)
                cs[1 + k] = c1
                out.append(("a%db%d-w%d-%s@%d" % (cls[0], cls[1], w, lab, top), mk(cs), cls, 1 + k))
    dense = [1.0] + [float((0.3 + 0.6 * rng.random()) * (1 if rng.random() < 0.5 else -1)) for _ in dets]
    hi = max(classes, key=lambda t: (max(t), sum(t)))
    out.append(("dense-w%d@%d" % (w, top), mk(dense), hi, 1 + classes.index(hi)))
    return out


def rank_refs(n, na, nb):
    """Catalogue of references: EVERY alpha string of the space (so every sign pattern of the excitation parities occurs),
    the beta string inside the alpha string ("in": restricted walkers possible) and, for every third string, also a beta
    string taken from the other end ("split": alpha and beta reference blocks differ)."""
    out = []
    for k, a in enumerate(itertools.combinations(range(n), na)):
        out.append(("a%d-in" % k, (occ_tuple(n, a), occ_tuple(n, a[:nb]))))
        if k % 3 == 1:
            compl = [i for i in range(n) if i not in a]
            out.append(("a%d-split" % k, (occ_tuple(n, a), occ_tuple(n, (compl[::-1] + list(a))[:nb]))))
    return out


def leaves_bytes(wd):
    return tuple((name, k, np.asarray(v).tobytes(), str(np.asarray(v).dtype), np.shape(v))
                 for name in ("Acre", "Ades", "Bcre", "Bdes", "coeff") for k, v in sorted(wd[name].items())) + (
                     ("ref_det", np.asarray(wd["ref_det"]).tobytes()),)


RANK_SIG = "get_excitations+multislater._calc_overlap/same-spin-excitation-rank>=3"
_RANK_GRID = {}


def rank_eval(cfg, ref, items, mx, mode, H=None, want_energy=True, kdet=-1):
    """Library overlap and energy of one list on the generic grid of one container + the Fock-model values."""
    jnp, wf = trials.lib()
    n, na, nb, seed = cfg["n"], cfg["na"], cfg["nb"], cfg["seed"]
    sec = fock.sector(n, na, nb)
    key = (n, na, nb, ref, seed, mode, cfg["degree_r" if mode == "r" else "degree_u"])
    if key not in _RANK_GRID:
        _RANK_GRID.clear()  # one (reference, container) at a time: the amplitude matrices are large
        W, Va, Vb = generic_grid(n, na, nb, ref, seed, key[-1], mode == "r")
        ok_block = block_dets(ref, Va, Vb) >= 1e-2
        _RANK_GRID[key] = (W, Va, Vb, ok_block) + ((sec.walker_vectors(Va, Vb), fock.minors(Va), fock.minors(Vb)) if ok_block else ())
    g = _RANK_GRID[key]
    if not g[3]:
        return "restricted_grids_skipped_singular_reference_block"
    W, Va, Vb, _, Phi, ma, mb = g
    walkers = jnp.asarray(W) if mode == "r" else [jnp.asarray(Va), jnp.asarray(Vb)]
    ket = ket_of(n, na, nb, items)
    Oref = np.conj(ket) @ Phi
    # pre-check on the inputs: a listed determinant whose alpha or beta minor of the walker vanishes makes an excitation
    # block of the half Green's function exactly singular, where jax's det derivative (used by the one-body energy) is
    # not defined reliably -- such walkers are excluded beforehand (none on the generic grids)
    ia = {a: k for k, a in enumerate(sec.A)}
    ib = {b: k for k, b in enumerate(sec.B)}
    ok = np.ones(len(Oref), dtype=bool)
    for a, b, c in items:
        if c == 0.0:
            continue
        ka = ia[tuple(i for i in range(n) if a[i])]
        kb = ib[tuple(i for i in range(n) if b[i])]
        ok &= (np.abs(ma[:, ka]) > 1e-6 * np.abs(ma).max(axis=1)) & (np.abs(mb[:, kb]) > 1e-6 * np.abs(mb).max(axis=1))
    trial, wd = build_wave_data("dict", n, na, nb, items, mx)
    held = leaves_bytes(wd)
    tr = gridmc.with_batch(trial, nbatch_for(len(Oref)))
    O = np.asarray(gridmc.jitted(tr, "calc_overlap")(walkers, wd))
    out = dict(O=O, Oref=Oref, ok=ok, Va=Va, Vb=Vb, top=np.abs(np.conj(ket_of(n, na, nb, items[kdet:][:1])) @ Phi))
    if want_energy:
        h0, h1, chol = cfg["_ham"]
        hd = gridmc.build_ham_data(n, h0, h1, chol, tr, wd)
        out["E"] = np.asarray(gridmc.jitted(tr, "calc_energy")(walkers, hd, wd))
        out["N"] = (np.conj(ket) @ H) @ Phi
    out["wave_data_intact"] = leaves_bytes(wd) == held
    out["lib_coeff"] = {k: np.ravel(v) for k, v in wd["coeff"].items()}
    return out


def rank_verdict(out):
    """-> (overlap error per point, energy error per point or None, escale)"""
    O, Oref, ok = out["O"], out["Oref"], out["ok"]
    scale = np.abs(Oref).max()
    eo = np.abs(O - Oref) / np.maximum(np.abs(Oref), 1e-3 * scale)
    eo = np.where(np.isfinite(O), eo, np.inf)
    eo = np.where(ok, eo, 0.0)
    if "E" not in out:
        return eo, None, 1.0
    good = ok & (np.abs(Oref) > NODE_FRAC * scale)
    Eref = np.where(good, out["N"] / np.where(good, Oref, 1.0), 0.0)
    escale = max(1.0, np.abs(Eref).max())
    ee = np.where(np.isfinite(out["E"]), np.abs(out["E"] - Eref) / escale, np.inf)
    return eo, np.where(good, ee, 0.0), escale


def job_rank(cfg):
    res = Result()
    n, na, nb, seed = cfg["n"], cfg["na"], cfg["nb"], cfg["seed"]
    # reference self-test: the string-space assembly of H equals the Fock model's on a small sector
    t0, t1, tc = al.small_ham(3, 2, seed, scale=0.5)
    if np.abs(kron_hamiltonian(3, 2, 1, t0, t1, tc) - fock.sector(3, 2, 1).hamiltonian(t0, t1, tc)).max() > 1e-12:
        raise RuntimeError("kron_hamiltonian disagrees with fock.Sector.hamiltonian")
    res.guard("kron_hamiltonian_selftest")
    h0, h1, chol = al.small_ham(n, 2, seed, spin_dependent=False, scale=0.3)
    cfg = dict(cfg, _ham=(h0, h1, chol))
    H = kron_hamiltonian(n, na, nb, h0, h1, chol)
    res.cap("same-spin rank>=3 lists, %d orbitals (%d,%d): walker grids are lower sets of degree %d (unrestricted) / %d (restricted) "
            "< n_up+n_dn around a generic base walker -- a structured dense test in the walker dimension, not a decision" % (
                n, na, nb, cfg["degree_u"], cfg["degree_r"]))
    for refname, ref in rank_refs(n, na, nb):
        if refname not in cfg["refs"]:
            continue
        for mode, mx, w in itertools.product(("u", "r"), cfg["cutoffs"], cfg["which"]):
            for label, items, cls, kdet in rank_lists(n, na, nb, ref, [tuple(c) for c in cfg["ranks"]], mx, seed, w):
                energy = mx in cfg["energy_cutoffs"]
                if True:
                    case = dict(part="rank", n=n, na=na, nb=nb, seed=seed, refname=refname, label=label, mode=mode, kdet=kdet,
                                items=[[list(a), list(b), c] for a, b, c in items], max_excitation=mx,
                                degree_u=cfg["degree_u"], degree_r=cfg["degree_r"])
                    out = rank_eval(cfg, ref, items, mx, mode, H, energy, kdet)
                    if isinstance(out, str):
                        res.guard(out)
                        continue
                    eo, ee, escale = rank_verdict(out)
                    P = len(eo)
                    if out["ok"].mean() < 0.5:
                        raise RuntimeError("pre-check excludes most of the grid (%d of %d kept) for %r" % (out["ok"].sum(), P, case))
                    k = 2 if energy else 1
                    res.add(states=P, transitions=k * P, evaluations=k * P, traces=k * P)
                    res.guard("rank_points_" + mode, P)
                    res.guard("rank_points_excluded_singular_excitation_block", int((~out["ok"]).sum()))
                    res.guard("rank_lists_class_a%db%d" % cls)
                    if "-unit@" in label and max(cls) >= 3 and min(cls) == 0 and mode == "u":
                        res.guard("rank_same_spin_rank>=3_determinants_with_%s_parity" % ("negative" if out["lib_coeff"][cls].sum() < 0 else "positive"))
                    if max(cls) >= 3 and np.median(out["top"] / np.maximum(np.abs(out["Oref"]), 1e-300)) > 1e-3:
                        res.guard("rank_lists_where_the_high_rank_determinant_matters")
                    res.nontrivial_values((n, na, nb, refname, label, mode, mx), out["Oref"], 10)
                    if not out["wave_data_intact"]:
                        res.violation("multislater.calc_overlap|calc_energy/mutates-caller-wave_data", dict(case, what="wave_data"), {})
                    bo = gridmc.first_bad(eo, TOL_O)
                    if bo is not None:
                        res.violation(RANK_SIG, dict(case, what="overlap", point=bo),
                                      dict(impl=out["O"][bo], ref=out["Oref"][bo], relerr=float(eo[bo]), n_bad=int((~(eo <= TOL_O)).sum()),
                                           n_points=P, walker_up=out["Va"][bo], walker_dn=out["Vb"][bo]))
                    if ee is not None:
                        be = gridmc.first_bad(ee, TOL_E)
                        if be is not None:
                            res.violation(RANK_SIG if bo is not None else "multislater.calc_energy/same-spin-excitation-rank>=3/%s" % mode,
                                          dict(case, what="energy", point=be),
                                          dict(impl=out["E"][be], ref=out["N"][be] / out["Oref"][be], err=float(ee[be]), tol=TOL_E,
                                               n_bad=int((~(ee <= TOL_E)).sum()), n_points=P))
                        res.guard("rank_energy_points_" + mode, P)
                    if cfg.get("sample") and refname == cfg["refs"][-1] and label.startswith("dense") and mode == "u" and mx == cfg["energy_cutoffs"][0]:
                        res.sample(dict(part="same-spin-rank>=3", n=n, nelec=[na, nb], reference=[list(ref[0]), list(ref[1])],
                                        classes=[list(c) for c in cfg["ranks"]], n_dets=len(items), max_excitation=mx, grid_points=P,
                                        max_overlap_relerr=float(eo.max()), max_energy_err=None if ee is None else float(ee.max())))
    return res


def replay_rank(case):
    n, na, nb = case["n"], case["na"], case["nb"]
    cfg = dict(n=n, na=na, nb=nb, seed=case["seed"], degree_u=case["degree_u"], degree_r=case["degree_r"])
    h0, h1, chol = al.small_ham(n, 2, case["seed"], spin_dependent=False, scale=0.3)
    cfg["_ham"] = (h0, h1, chol)
    H = kron_hamiltonian(n, na, nb, h0, h1, chol)
    ref = dict(rank_refs(n, na, nb))[case["refname"]]
    items = [(tuple(int(x) for x in a), tuple(int(x) for x in b), float(c)) for a, b, c in case["items"]]
    out = rank_eval(cfg, ref, items, int(case["max_excitation"]), case["mode"], H, case["what"] == "energy", int(case.get("kdet", -1)))
    if isinstance(out, str):
        return (False, dict(excluded_by_input_precheck=out))
    if case["what"] == "wave_data":
        return (not out["wave_data_intact"], {})
    eo, ee, _ = rank_verdict(out)
    i = int(case["point"])
    if case["what"] == "overlap":
        return (not eo[i] <= TOL_O, dict(impl=out["O"][i], ref=out["Oref"][i], relerr=float(eo[i])))
    return (not ee[i] <= TOL_E, dict(impl=out["E"][i], ref=out["N"][i] / out["Oref"][i], err=float(ee[i])))


# ----------------------------------------------------------------------------- (5) caller-owned containers over call histories
def snapshot(state):
    """Bitwise picture of a state dict: key order, key contents, value type and the 8 bytes of every coefficient."""
    return [(tuple(tuple(int(x) for x in s) for s in k), type(v).__name__, struct.pack("d", float(v))) for k, v in state.items()]


def file_digest(path):
    with open(path, "rb") as f:
        return f.read()


def seq_words(letters, depth):
    out = []
    for L in range(1, depth + 1):
        out += list(itertools.product(letters, repeat=L))
    return out


def seq_menu(items):
    """Operation letters for get_excitations on one caller-owned state: (name, max_excitation, ndets, judged list)."""
    need = needed(items)
    k = (len(items) + 1) // 2
    menu = [("full", need, None, items), ("wide", need + 1, None, items), ("half", needed(items[:k]), k, items[:k])]
    if need > 1:
        menu.append(("narrow", 1, None, None))  # drops determinants: outside the property, not judged -- but a legal call
    return menu


def make_state(source, n, na, nb, items, tmp):
    """A fresh caller-owned state dict from one source (+ the list the oracle holds separately)."""
    from ad_afqmc import pyscf_interface as pi

    if source == "dict":
        return as_state(items), items
    if source == "npdict":  # numpy scalars as values, as get_fci_state produces them
        return {k: np.float64(v) for k, v in as_state(items).items()}, items
    if source == "file":
        path = os.path.join(tmp, "seq.bin")
        write_dets(path, n, items)
        return pi.read_dets(path)[1], items
    its = positional("dense", items)
    return pi.get_fci_state(fci_object(n, na, nb, its)), its


def job_seq(cfg):
    """Histories: the SAME caller-owned container passed through every word (length <= depth) of a menu of calls.
    After every call the container is bitwise what it was, and the result means what a fresh call would mean
    (library overlap on the walker grid against the Fock sum built from the separately held list)."""
    res = Result()
    jnp, wf = trials.lib()
    from ad_afqmc import pyscf_interface as pi

    seed, depth = cfg["seed"], cfg["depth"]
    with scratch_dir() as tmp:
        for (n, na, nb, refs) in cfg["spaces"]:
            dets = trials.all_dets(n, na, nb)
            sec = fock.sector(n, na, nb)
            dc = dense_coeffs(n, na, nb, seed)
            for r in refs:
                ref = dets[r]
                items0 = lists_for_ref(dets, r, dc, ("dense",))[0][2]
                grid, Wa, Wb = ref_grid(n, na, nb, ref, seed, cfg["cap"])
                ja, jb = jnp.asarray(Wa), jnp.asarray(Wb)
                Phi = sec.walker_vectors(Wa, Wb)
                P = grid["P"]
                verdicts = {}

                def judge(wd, trial, eff):
                    key = (leaves_bytes(wd), tuple(eff))
                    if key not in verdicts:
                        O = eval_overlaps(trial, [wd], ja, jb, 1)[0]
                        Oref = np.conj(ket_of(n, na, nb, eff)) @ Phi
                        err = np.abs(O - Oref) / np.maximum(np.abs(Oref), 1e-3 * np.abs(Oref).max())
                        err = np.where(np.isfinite(O), err, np.inf)
                        b = gridmc.first_bad(err, TOL_O)
                        verdicts[key] = None if b is None else dict(point=b, impl=O[b], ref=Oref[b], relerr=float(err[b]))
                        res.add(states=P, transitions=P, evaluations=P, traces=P)
                        res.guard("seq_distinct_results_judged_on_the_grid")
                    return verdicts[key]

                for source in cfg["sources"]:
                    base = dict(part="seq", n=n, na=na, nb=nb, seed=seed, cap=cfg["cap"], ref=r, source=source)
                    # ---- get_excitations(state=...) on one state over call histories
                    st0, held = make_state(source, n, na, nb, items0, tmp)
                    menu = seq_menu(held)
                    byname = {m[0]: m for m in menu}
                    neg = 0
                    for word in seq_words([m[0] for m in menu], depth):
                        state, _ = make_state(source, n, na, nb, items0, tmp)
                        snap = snapshot(state)
                        mutated_at = None
                        for t, name in enumerate(word):
                            _, mx, nd, eff = byname[name]
                            case = dict(base, routine="get_excitations", word=list(word), step=t)
                            try:
                                out = pi.get_excitations(state=state, max_excitation=mx, ndets=nd)
                            except Exception as e:
                                res.violation("get_excitations/raises-%s-on-a-reused-state" % type(e).__name__, dict(case, what="raises"),
                                              dict(error=repr(e)[:300]))
                                break
                            res.add(states=1, transitions=1, evaluations=1, traces=1)
                            res.guard("seq_calls_get_excitations")
                            if mutated_at is None and snapshot(state) != snap:
                                mutated_at = t
                                now = snapshot(state)
                                diff = [(a[0], struct.unpack("d", a[2])[0], struct.unpack("d", b[2])[0]) for a, b in zip(snap, now) if a != b][:3]
                                res.violation("get_excitations/mutates-caller-state", dict(case, what="state"),
                                              dict(changed_entries=len([1 for a, b in zip(snap, now) if a != b]) + abs(len(snap) - len(now)),
                                                   first_changes=[dict(det=[list(x) for x in d], before=b0, after=b1) for d, b0, b1 in diff]))
                            if eff is None:
                                continue
                            wd = canon(out)
                            v = judge(wd, wf.multislater(n, (na, nb), mx), eff)
                            if t == 0 and name == "full":
                                cvals = np.concatenate([np.ravel(wd["coeff"][k]) for k in sorted(wd["coeff"])])
                                neg = int(sum(1 for a, b, c in held if not np.any(np.isclose(cvals, c, rtol=0, atol=1e-15))))
                            if v is not None:
                                fresh_ok = t == 0
                                sig = ROOT_SIG if fresh_ok else ("get_excitations/mutates-caller-state" if mutated_at is not None
                                                                 else "get_excitations/result-depends-on-call-history")
                                res.violation(sig, dict(case, what="result", point=v["point"]), dict(v, history=list(word[:t + 1])))
                        res.nontrivial((n, na, nb, r, source, word))
                    res.guard("seq_words", len(seq_words([m[0] for m in menu], depth)))
                    res.guard("seq_determinants_with_negative_parity", neg)
                # ---- get_excitations(fname=...): the file is the caller's container
                path = os.path.join(tmp, "hist.bin")
                write_dets(path, n, items0)
                fbytes = file_digest(path)
                menu = seq_menu(items0)
                byname = {m[0]: m for m in menu}
                base = dict(part="seq", n=n, na=na, nb=nb, seed=seed, cap=cfg["cap"], ref=r, source="fname")
                for word in seq_words([m[0] for m in menu], min(depth, 2)):
                    for t, name in enumerate(word):
                        _, mx, nd, eff = byname[name]
                        case = dict(base, routine="get_excitations(fname)", word=list(word), step=t)
                        out = pi.get_excitations(fname=path, max_excitation=mx, ndets=nd)
                        res.add(states=1, transitions=1, evaluations=1, traces=1)
                        res.guard("seq_calls_get_excitations_fname")
                        if file_digest(path) != fbytes:
                            res.violation("get_excitations/rewrites-the-determinant-file", dict(case, what="file"), {})
                            write_dets(path, n, items0)
                        if eff is not None:
                            v = judge(canon(out), wf.multislater(n, (na, nb), mx), eff)
                            if v is not None:
                                res.violation(ROOT_SIG if t == 0 else "get_excitations/result-depends-on-call-history",
                                              dict(case, what="result", point=v["point"]), dict(v, history=list(word[:t + 1])))
                # ---- read_dets: file reused, returned state reused
                k = (len(items0) + 1) // 2
                rmenu = {"all": (None, items0), "half": (k, items0[:k]), "one": (1, items0[:1])}
                base = dict(part="seq", n=n, na=na, nb=nb, seed=seed, cap=cfg["cap"], ref=r, source="file")
                for word in seq_words(list(rmenu), min(depth, 3)):
                    for t, name in enumerate(word):
                        nd, eff = rmenu[name]
                        case = dict(base, routine="read_dets", word=list(word), step=t)
                        norbs, st, nall = pi.read_dets(path, nd)
                        res.add(states=1, transitions=1, evaluations=1, traces=1)
                        res.guard("seq_calls_read_dets")
                        if file_digest(path) != fbytes:
                            res.violation("read_dets/rewrites-the-determinant-file", dict(case, what="file"), {})
                            write_dets(path, n, items0)
                        good = (norbs == n and nall == len(items0) and list(st.keys()) == [(tuple(a), tuple(b)) for a, b, _ in eff]
                                and np.abs(ket_of(n, na, nb, [(a, b, c) for (a, b), c in st.items()]) - ket_of(n, na, nb, eff)).max() < 1e-15)
                        if not good:
                            res.violation("read_dets/list-overlap" if t == 0 else "read_dets/result-depends-on-call-history",
                                          dict(case, what="read"), dict(norbs=int(norbs), ndets_all=int(nall), n_read=len(st), history=list(word[:t + 1])))
                # ---- get_fci_state: the FCI object is the caller's container
                its = positional("dense", items0)
                fmenu = {"all": (dict(), its), "half": (dict(ndets=k), its[:k]), "tol0": (dict(tol=0.0), its),
                         "tol.5": (dict(tol=0.5), [t_ for t_ in its if abs(t_[2]) > 0.5])}
                base = dict(part="seq", n=n, na=na, nb=nb, seed=seed, cap=cfg["cap"], ref=r, source="fci")
                for word in seq_words(list(fmenu), min(depth, 3)):
                    obj = fci_object(n, na, nb, its)
                    ci0 = obj.ci.tobytes()
                    for t, name in enumerate(word):
                        kw, eff = fmenu[name]
                        case = dict(base, routine="get_fci_state", word=list(word), step=t)
                        st = pi.get_fci_state(obj, **kw)
                        res.add(states=1, transitions=1, evaluations=1, traces=1)
                        res.guard("seq_calls_get_fci_state")
                        if obj.ci.tobytes() != ci0 or obj.norb != n or tuple(obj.nelec) != (na, nb):
                            res.violation("get_fci_state/mutates-the-fci-object", dict(case, what="fci-object"), {})
                            obj = fci_object(n, na, nb, its)
                        good = (len(st) == len(eff) and
                                np.abs(ket_of(n, na, nb, [(a, b, c) for (a, b), c in st.items()]) - ket_of(n, na, nb, eff)).max() < 1e-15)
                        if not good:
                            res.violation("get_fci_state/list-overlap" if t == 0 else "get_fci_state/result-depends-on-call-history",
                                          dict(case, what="fci-state"), dict(n_returned=len(st), n_expected=len(eff), history=list(word[:t + 1])))
                if cfg.get("sample") and r == refs[0]:
                    res.sample(dict(part="call-histories", n=n, nelec=[na, nb], reference=[list(ref[0]), list(ref[1])], n_dets=len(items0),
                                    menu=[m[:3] for m in seq_menu(items0)], depth=depth, sources=cfg["sources"], grid_points=P))
    return res


def replay_seq(case):
    jnp, wf = trials.lib()
    from ad_afqmc import pyscf_interface as pi

    n, na, nb, seed, r = case["n"], case["na"], case["nb"], case["seed"], case["ref"]
    dets = trials.all_dets(n, na, nb)
    sec = fock.sector(n, na, nb)
    items0 = lists_for_ref(dets, r, dense_coeffs(n, na, nb, seed), ("dense",))[0][2]
    word, step, routine = list(case["word"]), int(case["step"]), case["routine"]
    k = (len(items0) + 1) // 2
    with scratch_dir() as tmp:
        path = os.path.join(tmp, "hist.bin")
        write_dets(path, n, items0)
        fbytes = file_digest(path)
        if routine == "read_dets":
            rmenu = {"all": (None, items0), "half": (k, items0[:k]), "one": (1, items0[:1])}
            for t, name in enumerate(word[: step + 1]):
                norbs, st, nall = pi.read_dets(path, rmenu[name][0])
            eff = rmenu[word[step]][1]
            if case["what"] == "file":
                return (file_digest(path) != fbytes, {})
            good = (norbs == n and nall == len(items0) and list(st.keys()) == [(tuple(a), tuple(b)) for a, b, _ in eff]
                    and np.abs(ket_of(n, na, nb, [(a, b, c) for (a, b), c in st.items()]) - ket_of(n, na, nb, eff)).max() < 1e-15)
            return (not good, dict(n_read=len(st)))
        if routine == "get_fci_state":
            its = positional("dense", items0)
            fmenu = {"all": (dict(), its), "half": (dict(ndets=k), its[:k]), "tol0": (dict(tol=0.0), its),
                     "tol.5": (dict(tol=0.5), [t_ for t_ in its if abs(t_[2]) > 0.5])}
            obj = fci_object(n, na, nb, its)
            ci0 = obj.ci.tobytes()
            for name in word[: step + 1]:
                st = pi.get_fci_state(obj, **fmenu[name][0])
            if case["what"] == "fci-object":
                return (obj.ci.tobytes() != ci0, {})
            eff = fmenu[word[step]][1]
            good = (len(st) == len(eff) and
                    np.abs(ket_of(n, na, nb, [(a, b, c) for (a, b), c in st.items()]) - ket_of(n, na, nb, eff)).max() < 1e-15)
            return (not good, dict(n_returned=len(st), n_expected=len(eff)))
        # get_excitations on a state / on the file
        if routine == "get_excitations":
            state, held = make_state(case["source"], n, na, nb, items0, tmp)
            snap = snapshot(state)
        else:
            state, held = None, items0
        byname = {m[0]: m for m in seq_menu(held)}
        out, err = None, None
        for name in word[: step + 1]:
            _, mx, nd, eff = byname[name]
            try:
                out = pi.get_excitations(state=state, max_excitation=mx, ndets=nd) if state is not None else \
                    pi.get_excitations(fname=path, max_excitation=mx, ndets=nd)
            except Exception as e:
                err = e
                break
        if case["what"] == "raises":
            return (err is not None, dict(error=repr(err)[:300]))
        if case["what"] == "state":
            return (snapshot(state) != snap, dict(entries_changed=len([1 for a, b in zip(snap, snapshot(state)) if a != b])))
        if case["what"] == "file":
            return (file_digest(path) != fbytes, {})
        _, Wa, Wb = ref_grid(n, na, nb, dets[r], seed, case["cap"])
        i = int(case["point"])
        O = complex(np.asarray(wf.multislater(n, (na, nb), mx)._calc_overlap(jnp.asarray(Wa[i]), jnp.asarray(Wb[i]), canon(out))))
        Oref = np.conj(ket_of(n, na, nb, eff)) @ sec.walker_vectors(Wa, Wb)
        e = abs(O - Oref[i]) / max(abs(Oref[i]), 1e-3 * np.abs(Oref).max())
        return (not e <= TOL_O, dict(impl=O, ref=Oref[i], relerr=float(e)))


# ----------------------------------------------------------------------------- enumeration
SPACES3 = [(3, 1, 1), (3, 2, 1), (3, 2, 2), (3, 3, 1), (3, 3, 2), (3, 3, 3)]
SPACES4 = [(4, 2, 1), (4, 2, 2)]


def spread(k, m):
    return sorted(set(int(round(x)) for x in np.linspace(0, k - 1, m)))


def repr_configs(tier, seed):
    thorough = tier == "thorough"
    out = []
    for (n, na, nb) in SPACES3 + SPACES4:
        nd = len(trials.all_dets(n, na, nb))
        E = n * (na + nb)
        kinds = ["single", "pair", "triple", "dense"]
        # one job per (space, cut-off, block of references): compilation (one per wave_data shape signature and
        # cut-off) dominates, so a worker keeps one cut-off and sweeps the references
        for extra in EXTRAS:
            if not thorough and ((extra == 3 and (n, na, nb) in ((3, 1, 1), (3, 2, 2), (4, 2, 1), (4, 2, 2))) or
                                 (extra == 1 and (n, na, nb) == (4, 2, 2))):
                continue  # compilation of the deep excitation loops dominates: thorough tier only
            base = dict(n=n, na=na, nb=nb, seed=seed, tier=tier, sources=list(SOURCES), extras=[extra], kinds=kinds,
                        public=(extra == 0), sample=(extra == 0 and (n, na, nb) in ((3, 2, 1), (4, 2, 2))))
            if n == 3:
                out.append(dict(base, refs=list(range(nd)), cap=40000 if thorough else 6000, cap_r=7000 if thorough else 4000))
            elif thorough:
                nblk = 6 if nd > 30 else 2
                for b in range(nblk):
                    out.append(dict(base, refs=list(range(b, nd, nblk)), cap=6000, cap_r=7000))
            else:
                # quick tier: a spread of references; triples over a spread pool of partners
                out.append(dict(base, refs=spread(nd, 3), cap=6000, cap_r=4000, triple_pool=spread(nd, 5)))
    return out


def zv_specs(tier, seed):
    thorough = tier == "thorough"
    specs = []
    spaces = [(3, 1, 1), (3, 2, 1), (3, 2, 2), (3, 3, 1), (3, 3, 2), (4, 2, 1), (4, 2, 2)]
    if thorough:
        spaces += [(4, 3, 1), (4, 3, 2)]
    for (n, na, nb) in spaces:
        dim = len(trials.all_dets(n, na, nb))
        eigs = list(range(dim)) if thorough else sorted(set([0, dim - 1]))
        for k in eigs:
            specs.append(dict(sys="rand", n=n, na=na, nb=nb, nchol=2, hseed=seed, eig=k))
        if thorough:
            specs.append(dict(sys="rand", n=n, na=na, nb=nb, nchol=3, hseed=seed + 1, eig=0, spin_dep=True))
    for name in (["h2", "h2_631g", "h4", "lih_fc"] + (["lih"] if thorough else [])):
        specs.append(dict(sys="mol", name=name))
    return specs


def zv_configs(tier, seed):
    thorough = tier == "thorough"
    groups = {}
    for spec in zv_specs(tier, seed):
        key = (spec["sys"], spec.get("n"), spec.get("na"), spec.get("nb"), spec.get("name"), spec.get("spin_dep", False))
        groups.setdefault(key, []).append(spec)
    out = []
    for key, specs in groups.items():
        big = key[4] == "lih"
        out.append(dict(specs=specs, seed=seed, tier=tier, modes=["u", "r"], sample=key[4] == "h4" or key[1:4] == (3, 2, 1), max_refs=6 if (thorough and not big) else 4, max_refs_ground=6 if big else None,
                        cap=40000 if thorough else 6000, cap_r=7000 if thorough else 4000))
    return out


def driver_configs(tier, seed):
    thorough = tier == "thorough"
    r3 = lambda na, nb: dict(sys="rand", n=3, na=na, nb=nb, nchol=2, hseed=seed, eig=0)
    cell = lambda wt, nbt, shape, neql, seeds, rank=0, dt=0.01, nw=4: dict(
        walker_type=wt, n_batch=nbt, shape=list(shape), n_eql=neql, seeds=list(seeds), ref_rank=rank, dt=dt, n_walkers=nw)
    out = []
    if not thorough:
        S = [1, 7]
        cells = [
            (r3(2, 1), cell("unrestricted", 1, (3, 2, 2, 3), 1, S)),
            (r3(2, 1), cell("restricted", 2, (2, 1, 1, 2), 0, S)),
            (r3(2, 2), cell("restricted", 1, (2, 2, 1, 2), 1, S, rank=1)),
            (r3(1, 1), cell("unrestricted", 2, (2, 1, 2, 3), 0, S, rank=1)),
            (dict(sys="mol", name="h2"), cell("restricted", 1, (3, 1, 1, 2), 1, S)),
            (dict(sys="mol", name="h2_631g"), cell("unrestricted", 2, (2, 1, 1, 2), 0, S)),
        ]
    else:
        S = [1, 7, 12345]
        systems = [r3(1, 1), r3(2, 1), r3(2, 2), dict(sys="rand", n=4, na=2, nb=2, nchol=2, hseed=seed, eig=0),
                   dict(sys="mol", name="h2"), dict(sys="mol", name="h2_631g"), dict(sys="mol", name="h4")]
        cells = []
        for sp in systems:
            for wt in ("restricted", "unrestricted"):
                for nbt in (1, 2):
                    for shape, neql in (((2, 1, 1, 2), 0), ((3, 2, 2, 3), 1)):
                        for rank in ((0, 1) if nbt == 1 else (0,)):
                            cells.append((sp, cell(wt, nbt, shape, neql, S, rank=rank)))
            cells.append((sp, cell("unrestricted", 4, (2, 2, 1, 4), 1, S, dt=0.05, nw=8)))
            cells.append((sp, cell("restricted", 1, (5, 1, 3, 2), 0, S, dt=0.002, nw=3)))
    for k, (sp, c) in enumerate(cells):
        out.append(dict(spec=sp, cell=c, seed=seed, tier=tier, sample=k in (0, len(cells) - 2)))
    return out


def rank_configs(tier, seed):
    """7 orbitals (4,3): alpha rank 3 with a spectator electron (both parities occur), beta rank 3 with a spare virtual."""
    thorough = tier == "thorough"
    out = []
    for (n, na, nb) in ([(7, 4, 3), (6, 3, 3), (6, 3, 2)] if thorough else [(7, 4, 3)]):
        ranks = [(3, 0), (3, 1)] + ([(0, 3), (1, 3)] if nb >= 3 else [])
        if thorough:
            ranks += [(3, 2)] + ([(2, 3), (3, 3)] if nb >= 3 else [])
        names = [nm for nm, _ in rank_refs(n, na, nb)]
        pick = names if thorough else [names[i] for i in spread(len(names), 6)]
        nblk = 4 if (thorough and n == 7) else (2 if thorough else 1)
        for b in range(nblk):
            deep = thorough and n == 6 and nb == 3  # (3,3) in 6 orbitals also carries the cut-off 6 lists (class (3,3))
            out.append(dict(n=n, na=na, nb=nb, seed=seed, tier=tier, refs=pick[b::nblk], ranks=ranks, which=[0, 1, 2, 3] if thorough else [0, 2],
                            cutoffs=([3, 4, 5, 6] if deep else [3, 4, 5]) if thorough else [3, 4],
                            energy_cutoffs=([4, 6] if deep else [4, 3]) if thorough else [4],
                            degree_u=2, degree_r=3 if thorough else 2, sample=(n == 7 and b == 0)))
    if thorough:
        for (n, na, nb) in [(8, 4, 1), (8, 4, 4)]:
            ranks = [(4, 0), (3, 0), (4, 1)] + ([(0, 4), (1, 4), (0, 3)] if nb >= 4 else [])
            names = [nm for nm, _ in rank_refs(n, na, nb)]
            out.append(dict(n=n, na=na, nb=nb, seed=seed, tier=tier, refs=[names[i] for i in spread(len(names), 8)], ranks=ranks,
                            which=[0, 1], cutoffs=[4, 5], energy_cutoffs=[5], degree_u=2, degree_r=2))
    return out


def seq_configs(tier, seed):
    thorough = tier == "thorough"
    nd = lambda n, na, nb: len(trials.all_dets(n, na, nb))
    src = ["dict", "npdict", "file", "fci"]
    if not thorough:
        return [dict(seed=seed, tier=tier, depth=3, sources=src, cap=6000, sample=True,
                     spaces=[(3, 2, 1, spread(nd(3, 2, 1), 3)), (4, 2, 2, [7, 23])])]
    return [dict(seed=seed, tier=tier, depth=4, sources=src, cap=6000, sample=(k == 0), spaces=[sp])
            for k, sp in enumerate([(3, 2, 1, list(range(9))), (3, 2, 2, list(range(9))), (4, 2, 1, spread(nd(4, 2, 1), 6)),
                                    (4, 2, 2, spread(nd(4, 2, 2), 3)), (4, 2, 2, [7, 23, 30])])]


def job(cfg):
    """Dispatcher (one pool for all parts, most expensive jobs first)."""
    return {"repr": job_repr, "zv": job_zv, "driver": job_driver, "rank": job_rank, "seq": job_seq}[cfg["part"]](cfg)


def run(ctx):
    ctx.rule = ("(1) orbital spaces 3 orbitals (all n_up>=n_dn>=1) and 4 orbitals (2,1),(2,2) x every determinant as reference x "
                "ordered lists {single; pair (0.8,0.6) and unit vector (0,1); every ordered triple; dense vector in every rotation and "
                "adjacent transposition of its tail, plus its leading half through the ndets argument} x source {dict, Dice file "
                "-> read_dets, pyscf FCI object -> get_fci_state} x max_excitation in needed+{0,1,3} x walker grid (full product grid or its degree-(n_up+n_dn) lower set), oracle "
                "sum_i c_i <A_i B_i|phi>; (2) exact eigenvectors (every eigenvector of generic Hamiltonians in the thorough tier, lowest "
                "and highest in quick; pyscf FCI ground states of H2/H4/LiH) x every non-negligible reference x {unrestricted, restricted} "
                "x walker grid, oracle E_L = E_k; (3) driver.afqmc option matrix (container x n_batch x sampler shape x n_eql x dt x "
                "seed list) on the exact trial, oracle every block energy and the returned mean = E_0; (4) 6 orbitals (3,2),(3,3) [thorough: "
                "also 8 orbitals (4,1),(4,4)] x references {aufbau, non-aufbau with beta inside alpha, non-aufbau with different strings} x "
                "one determinant per excitation class (i,j) incl. same-spin rank 3 (4) and mixed (3,1),(1,3) [thorough (3,2),(2,3),(3,3),(4,1),"
                "(1,4)] x coefficient basis {pair, unit vector, dense} x cut-off x {unrestricted, restricted} x generic lower-set walker "
                "grid, oracle overlap and <psi|H|phi>/<psi|phi> from the string-space Fock Hamiltonian; (5) call histories: the same "
                "caller-owned container (python dict, numpy-valued dict, read_dets result, get_fci_state result; determinant file; FCI "
                "object) through every word of length <= 3 (4 thorough) over the menu {needed, needed+1, leading half via ndets, cut-off 1} "
                "resp. {ndets} / {ndets, tol}, after every call: container bitwise unchanged and result = Fock sum of the separately held "
                "list on the walker grid.  A state is one (list, source, "
                "cut-off, walker) / (eigenvector, reference, container, walker) / (cell, seed, block); distinct & non-trivial = distinct "
                "(list, source, cut-off) cases with non-zero oracle overlap, distinct non-zero oracle overlaps, distinct block weights")
    ctx.assume("walker grids: full product grid (2 non-real letters per entry, 3 for restricted walkers) up to 4096 points, beyond that the "
               "lower set {digit sum <= n_up+n_dn} of the same product grid; overlap and <psi|H|phi> are homogeneous of total degree "
               "n_up+n_dn in the walker entries and interpolation on a lower set is unisolvent for that degree class, so either grid decides "
               "the identity for every complex walker for implementations in the class (dense exhaustive test otherwise); every "
               "unrestricted grid is additionally checked to span the (n_up,n_dn) sector")
    ctx.assume("pyscf.fci string addressing / sign convention equals the Fock model's alpha-string x beta-string convention up to a global "
               "sign per sector (the Hamiltonian matrices agree element-wise; verified in the design of this check)")
    ctx.assume("part (4): walkers on which a listed determinant has a vanishing alpha or beta minor are excluded beforehand (counted): an "
               "excitation block of the half Green's function is then exactly singular and jax.numpy.linalg.det has no reliable derivative "
               "there (jax 0.11: AD of det at an exactly singular 3x3 block differs from the finite difference by O(1)); measure-zero for "
               "sampled walkers, frequent on letter grids with one common base letter -- hence the generic base walker")
    ctx.assume("'every seed' of the driver is decided by (2): E_L = E_0 for every walker; the driver cells enumerate a fixed seed list")
    ctx.assume("finite-difference local energy (eps = 1e-4): tolerance 1e-5 relative to max(1,|E|); walkers with reference overlap below "
               "1e-2 of the grid maximum are judged by the residual of N - E O = 0 only")
    jobs = [dict(c, part="driver") for c in driver_configs(ctx.tier, ctx.seed)]
    jobs += [dict(c, part="rank") for c in rank_configs(ctx.tier, ctx.seed)]
    jobs += [dict(c, part="seq") for c in seq_configs(ctx.tier, ctx.seed)]
    jobs += [dict(c, part="zv") for c in zv_configs(ctx.tier, ctx.seed)]
    rj = [dict(c, part="repr") for c in repr_configs(ctx.tier, ctx.seed)]
    rj.sort(key=lambda c: -(len(trials.all_dets(c["n"], c["na"], c["nb"])) ** 2) * len(c["refs"]))
    if not ctx.thorough:
        ctx.cap("quick tier: 4-orbital spaces use 3 references, triples over a 5-determinant partner pool and cut-offs needed+{0,1} / needed only; "
                "cut-off needed+3 for the (2,1),(3,1),(3,2),(3,3) spaces of 3 orbitals only; "
                "driver matrix reduced to 6 cells; eigenvectors: lowest and highest only; at most 4 references per eigenvector")
    try:
        # thorough: a fresh worker process per job (long-lived workers exhaust the executable-memory mappings: "LLVM
        # compilation error: Cannot allocate memory" after ~60 min)
        ctx.pmap(job, jobs + rj, tasks_per_child=(1 if ctx.tier == "thorough" else None))
    finally:
        with contextlib.suppress(OSError):
            os.rmdir(TMP_ROOT)  # every cell removes its own directory; the root goes only when empty
    attribute(ctx.violations)
    ctx.require_guard("rank_points_u", "rank_points_r", "rank_energy_points_u", "rank_energy_points_r", "rank_lists_class_a3b0",
                      "rank_lists_class_a0b3", "rank_lists_class_a3b1", "rank_lists_where_the_high_rank_determinant_matters",
                      "rank_same_spin_rank>=3_determinants_with_negative_parity", "rank_same_spin_rank>=3_determinants_with_positive_parity",
                      "seq_calls_get_excitations", "seq_calls_get_excitations_fname", "seq_calls_read_dets", "seq_calls_get_fci_state",
                      "seq_determinants_with_negative_parity", "seq_distinct_results_judged_on_the_grid", "kron_hamiltonian_selftest")
    ctx.require_guard("grids_spanning_the_sector", "lists_single", "lists_pair", "lists_triple", "lists_dense", "lists_src_dict",
                      "lists_src_file", "lists_src_fci", "lists_cutoff_above_needed", "public_calc_overlap_u", "public_calc_overlap_r",
                      "zv_points_u", "zv_points_r", "zv_references", "control_inexact_trial_deviates", "driver_runs",
                      "driver_runs_with_nontrivial_weights", "control_inexact_trial_deviates_in_driver")


def attribute(violations):
    """One defect, one signature.  Simplest case first; failures downstream of a failing layer carry that layer's
    signature (a wrong representation makes the full-vector overlap, the local energy and the driver's block energies
    wrong; a wrong local energy makes the block energies wrong).  Nothing is removed: every case stays in the list and
    is replayable; the attribution only decides under which signature it is reported."""
    rank = {"repr": 0, "repr-public": 1, "rank": 1, "seq": 1, "zv": 2, "driver": 3}
    violations.sort(key=lambda v: (rank.get(v["case"].get("part"), 9), len(v["case"].get("items", [])), v["case"].get("n", 9),
                                   v["case"].get("extra", 0)))
    layer = lambda v: rank.get(v["case"].get("part"), 9)
    roots = set(v["signature"] for v in violations if layer(v) == 0)
    fci_sig = "%s/list-overlap" % SITE["fci"]

    def upstream(v, zv):
        if layer(v) >= 1 and ROOT_SIG in roots:  # everything downstream builds its trial through the plain route
            return ROOT_SIG
        if layer(v) >= 2 and fci_sig in roots and v["case"].get("spec", {}).get("sys") == "mol":  # molecules: get_fci_state
            return fci_sig
        if layer(v) == 3 and zv:
            return zv[0]
        return None

    for lay in (1, 2, 3):
        zv = [v["signature"] for v in violations if layer(v) == 2]
        for v in violations:
            up = upstream(v, zv) if layer(v) == lay else None
            if up is not None and v["signature"] != up:
                v["detail"]["reported_as_consequence_of"] = up
                v["detail"]["own_signature"] = v["signature"]
                v["signature"] = up


def replay(case):
    part = case["part"]
    if part in ("repr", "repr-public"):
        return replay_repr(case)
    if part == "zv":
        return replay_zv(case)
    if part == "rank":
        return replay_rank(case)
    if part == "seq":
        return replay_seq(case)
    return replay_driver(case)
