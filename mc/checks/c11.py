"""C11 -- determinant-list trials mean what they say; an exact trial gives zero variance.

Three bounded exhaustive explorations on the real code (engine: gridmc; nothing is sampled):

(1) representation invariance.  For every orbital space in the bound and EVERY determinant of the space as the
    reference (= first entry of the list), every ordered list from the list alphabet

        single [r] | pair [r, d] (coefficients (0.8, 0.6) and the true unit vector (0, 1)) |
        triple [r, d1, d2] for every ordered (d1, d2) (so all 3! orders of every 3-subset occur across r) |
        dense vector on all determinants in every rotation and adjacent transposition of the tail

    is pushed through each source { python dict -> get_excitations(state=..),
    Dice-layout binary file written by the harness -> read_dets -> get_excitations(fname=..),
    pyscf FCI object (ci matrix addressed with pyscf.fci.cistring) -> get_fci_state -> get_excitations }
    at every cut-off max_excitation in {needed, needed+1, needed+3}, and the library overlap
    multislater._calc_overlap is compared on a walker product grid with
        sum_i c_i <A_i B_i|phi>     (alpha-string x beta-string sign convention, mc/fock.py).
    Equality with one common oracle IS invariance across order / reference / cut-off / source.
    Walker grids: the full product grid (2 non-real letters per entry) up to 4096 points; beyond that its lower
    set {digit sum <= n_up+n_dn}.  The overlap (and <psi|H|phi>) is homogeneous of total degree n_up+n_dn in the
    walker entries, and a lower set of a product grid is unisolvent for the polynomials with exponents in it, so
    the lower set decides the same identity with ~2.5e3 instead of 6.5e4 points (4 orbitals, 2+2 electrons).
    A failure is attributed to one call site: the plain route if the list already fails there, otherwise to what
    the variant adds (read_dets / get_fci_state / the ndets argument / a cut-off above the needed one); failures
    of (2) and (3) downstream of a failing representation are reported under that signature (see `attribute`).

(2) zero variance.  For exact eigenvectors of generic symmetric Hamiltonians (diagonalisation of the Fock
    model's H) and of H2 / H4 / LiH (pyscf FCI -> get_fci_state), for every reference determinant with a
    non-negligible coefficient:  E_L(W) = E_k on the whole walker grid, unrestricted and restricted
    containers (polynomial identity N - E O = 0; the multislater energy is a finite-difference quantity,
    eps = 1e-4, so the tolerance is 1e-5 relative; measured ~1e-6).

(3) driver level.  driver.afqmc with that exact trial on tiny systems over the option matrix
    walker container x n_batch x sampler shape x n_eql x seed list: every block energy in samples_raw.dat
    and the returned mean equal E_0.  "Every seed" is decided by (2) (the identity holds for every walker);
    the driver cells are the integration check, each with a control run (one CI coefficient flipped) that
    must NOT give E_0, so the cell is known to have teeth.
"""

import contextlib
import io
import itertools
import os
import shutil
import struct
import tempfile

import numpy as np

from mc import alphabets as al
from mc import core, fock, gridmc, trials
from mc.core import Result

ID = "C11"
TECHNIQUE = ("exhaustive enumeration of determinant lists (every reference x order x cut-off x source) on walker "
             "product grids against the Fock-space sum; exact-eigenvector local energy on the grid; driver option matrix")
TOL_O = 1e-9
TOL_E = 1e-5
NODE_FRAC = 1e-2
NEGLIGIBLE = 1e-2  # reference determinants with |c| below this fraction of max|c| are outside the quantifier of (2)
TMP_ROOT = os.path.join(core.ROOT, "scratch", "c11_tmp")
EXTRAS = (0, 1, 3)
SOURCES = ("dict", "file", "fci")
SITE = {"dict": "get_excitations", "file": "read_dets", "fci": "get_fci_state"}


@contextlib.contextmanager
def quiet():
    buf = io.StringIO()
    with contextlib.redirect_stdout(buf):
        yield buf


@contextlib.contextmanager
def scratch_dir(chdir=False):
    os.makedirs(TMP_ROOT, exist_ok=True)
    d = tempfile.mkdtemp(prefix="c11_", dir=TMP_ROOT)
    cwd = os.getcwd()
    if chdir:
        os.chdir(d)
    try:
        yield d
    finally:
        if chdir:
            os.chdir(cwd)
        shutil.rmtree(d, ignore_errors=True)


# ----------------------------------------------------------------------------- the three sources
_CH = {(0, 0): b"0", (1, 0): b"a", (0, 1): b"b", (1, 1): b"2"}


def write_dets(path, n, items):
    """Dice layout parsed by read_dets: int32 ndets, int32 norbs, per determinant float64 + norbs chars."""
    with open(path, "wb") as f:
        f.write(struct.pack("i", len(items)))
        f.write(struct.pack("i", n))
        for a, b, c in items:
            f.write(struct.pack("d", float(c)))
            for j in range(n):
                f.write(struct.pack("c", _CH[(int(a[j]), int(b[j]))]))


def fci_object(n, na, nb, items):
    """A pyscf FCI solver carrying the CI matrix of the list (pyscf string addressing), as get_fci_state expects
    (attributes ci, norb, nelec and the method large_ci)."""
    from pyscf.fci import cistring, direct_spin1

    ci = np.zeros((cistring.num_strings(n, na), cistring.num_strings(n, nb)))
    for a, b, c in items:
        sa = sum(1 << i for i in range(n) if a[i])
        sb = sum(1 << i for i in range(n) if b[i])
        ci[cistring.str2addr(n, na, sa), cistring.str2addr(n, nb, sb)] = c
    o = direct_spin1.FCI()
    o.ci, o.norb, o.nelec = ci, n, (na, nb)
    return o


def canon(out):
    """Tuple returned by get_excitations -> wave_data; only the dict keys are normalised to python ints (the
    library mixes numpy and python ints, which would only multiply jit cache entries)."""
    Acre, Ades, Bcre, Bdes, coeff, ref_det = out
    cv = lambda d: {(int(k[0]), int(k[1])): np.asarray(v) for k, v in d.items()}
    return {"Acre": cv(Acre), "Ades": cv(Ades), "Bcre": cv(Bcre), "Bdes": cv(Bdes), "coeff": cv(coeff),
            "ref_det": np.asarray(ref_det)}


def as_state(items):
    return {(tuple(int(x) for x in a), tuple(int(x) for x in b)): float(c) for a, b, c in items}


def state_from_source(source, n, na, nb, items, tmpdir=None, fci_tol=None):
    """The state dict the library derives from the source (file and FCI paths only)."""
    from ad_afqmc import pyscf_interface as pi

    if source == "file":
        path = os.path.join(tmpdir, "dets.bin")
        write_dets(path, n, items)
        return pi.read_dets(path)[1]
    kw = {} if fci_tol is None else {"tol": fci_tol}
    return pi.get_fci_state(fci_object(n, na, nb, items), **kw)


def build_wave_data(source, n, na, nb, items, mx, ndets=None, n_batch=1, tmpdir=None, fci_tol=None):
    """(trial, wave_data) for an ordered list `items` = [(occ_a, occ_b, coeff), ...] through one source."""
    jnp, wf = trials.lib()
    from ad_afqmc import pyscf_interface as pi

    if source == "dict":
        state = as_state(items)
        if ndets is None:
            trial, wd = trials.multislater_from_state(n, na, nb, state, mx, n_batch)
            return trial, canon((wd["Acre"], wd["Ades"], wd["Bcre"], wd["Bdes"], wd["coeff"], wd["ref_det"]))
        out = pi.get_excitations(state=state, max_excitation=mx, ndets=ndets)
    elif source == "file":
        path = os.path.join(tmpdir, "dets.bin")
        write_dets(path, n, items)
        out = pi.get_excitations(fname=path, ndets=ndets, max_excitation=mx)
    elif source == "fci":
        kw = {} if fci_tol is None else {"tol": fci_tol}
        state = pi.get_fci_state(fci_object(n, na, nb, items), ndets=ndets, **kw)
        out = pi.get_excitations(state=state, max_excitation=mx)
    else:
        raise ValueError(source)
    return wf.multislater(n, (na, nb), mx, n_batch=n_batch), canon(out)


def needed(items):
    return trials.needed_excitation(as_state(items))


def ket_of(n, na, nb, items):
    return fock.ket_multislater(n, na, nb, [(tuple(a), tuple(b), c) for a, b, c in items])


# ----------------------------------------------------------------------------- list alphabet
def dense_coeffs(n, na, nb, seed):
    """One generic coefficient per determinant (|c| in [0.3, 1], signs mixed); the seed picks the vector only."""
    dets = trials.all_dets(n, na, nb)
    rng = np.random.default_rng(1100 + 17 * seed + 7 * n + 3 * na + nb)
    mag = 0.3 + 0.7 * rng.random(len(dets))
    sgn = np.where(rng.random(len(dets)) < 0.5, -1.0, 1.0)
    return {d: float(m * s) for d, m, s in zip(dets, mag, sgn)}


def lists_for_ref(dets, r, dc, kinds, triple_pool=None):
    """Ordered lists whose first entry (the reference) is dets[r], simplest first: (kind, label, items)."""
    ref = dets[r]
    others = [d for d in dets if d != ref]
    idx = {d: i for i, d in enumerate(dets)}
    out = []
    if "single" in kinds:
        out.append(("single", "r%d" % r, [(ref[0], ref[1], 0.9)]))
    if "pair" in kinds:
        for d in others:
            out.append(("pair", "r%d,d%d" % (r, idx[d]), [(ref[0], ref[1], 0.8), (d[0], d[1], 0.6)]))
        for d in others:
            out.append(("unit", "r%d,e%d" % (r, idx[d]), [(ref[0], ref[1], 0.0), (d[0], d[1], 1.0)]))
    if "triple" in kinds:
        pool = others if triple_pool is None else [d for d in others if idx[d] in triple_pool]
        for d1, d2 in itertools.permutations(pool, 2):
            out.append(("triple", "r%d,d%d,d%d" % (r, idx[d1], idx[d2]),
                        [(ref[0], ref[1], 0.8), (d1[0], d1[1], -0.6), (d2[0], d2[1], 0.5)]))
    if "dense" in kinds and others:
        m = len(others)
        orders = [("rot%d" % j, others[j:] + others[:j]) for j in range(m)]
        for j in range(m - 1):
            o = list(others)
            o[j], o[j + 1] = o[j + 1], o[j]
            orders.append(("swap%d" % j, o))
        seen = set()
        for lab, o in orders:
            key = tuple(idx[d] for d in o)
            if key in seen:
                continue
            seen.add(key)
            out.append(("dense", "r%d,%s" % (r, lab), [(ref[0], ref[1], dc[ref])] + [(d[0], d[1], dc[d]) for d in o]))
    return out


def positional(kind, items):
    """get_fci_state orders by |coefficient|: to realise a given list ORDER through the FCI source the magnitudes
    must decrease along the list; signs stay with the determinants."""
    L = len(items)
    if kind != "dense" or L < 2:
        return items  # (0.9) / (0.8, 0.6) / (0.8, -0.6, 0.5) already decrease
    return [(a, b, float(np.sign(c) * (1.0 - 0.65 * p / (L - 1)))) for p, (a, b, c) in enumerate(items)]


# ----------------------------------------------------------------------------- grouped evaluation
_JV = {}


def shape_sig(wd):
    return tuple((name, k, np.shape(v)) for name in ("Acre", "Ades", "Bcre", "Bdes", "coeff")
                 for k, v in sorted(wd[name].items()))


def eval_overlaps(trial, wds, ja, jb, chunk):
    """Library overlaps multislater._calc_overlap for a group of wave_data with identical shapes, vmapped over the
    walkers and over the group (one compilation per (trial, shapes, chunk)).  -> (len(wds), P)"""
    import jax
    from jax import tree_util as tu

    if trial not in _JV:
        _JV[trial] = jax.jit(jax.vmap(jax.vmap(trial._calc_overlap, in_axes=(0, 0, None)), in_axes=(None, None, 0)))
    f = _JV[trial]
    flat = [tu.tree_flatten(w) for w in wds]
    treedef = flat[0][1]
    nleaf = len(flat[0][0])
    out = []
    for s in range(0, len(flat), chunk):
        part = flat[s:s + chunk]
        m = len(part)
        part = part + [part[-1]] * (chunk - m)  # fixed chunk size: one compilation per (trial, shapes)
        stacked = tu.tree_unflatten(treedef, [np.stack([p[0][k] for p in part]) for k in range(nleaf)])
        out.append(np.asarray(f(ja, jb, stacked))[:m])
    return np.concatenate(out)


_LOWER = {}


def lower_set_digits(E, nlet, d):
    """All words x in {0..nlet-1}^E with sum(x) <= d, smallest sum first.  Interpolation on a lower set of a product
    grid is unisolvent for the polynomials whose exponent vectors lie in that set, so these points decide every
    polynomial of degree < nlet per variable and total degree <= d."""
    key = (E, nlet, d)
    if key not in _LOWER:
        def rec(e, budget):
            if e == 0:
                yield ()
                return
            for v in range(min(nlet - 1, budget) + 1):
                for rest in rec(e - 1, budget - v):
                    yield (v,) + rest
        a = np.array(list(rec(E, d)), dtype=np.int8).reshape(-1, E)
        _LOWER[key] = a[np.argsort(a.sum(axis=1), kind="stable")]
    return _LOWER[key]


def walker_grid(n, na, nb, seed, restricted, limit):
    """Frame-basis walker grid.  The overlap and <psi|H|phi> are homogeneous polynomials of total degree n_up+n_dn in the
    walker entries (degree <= 1 per entry, <= 2 for a restricted walker).  Up to 4096 points the full product grid is used
    (as in C01/C02); beyond, the lower set {digit sum <= n_up+n_dn} of the same product grid, which decides the same
    polynomial identities with far fewer points.  `limit` bounds the number of points (degree reduced -> capped)."""
    nlet = 3 if restricted else 2
    Ea = n * na
    E = Ea if restricted else n * (na + nb)
    deg = na + nb
    if nlet ** E <= 4096:
        digits, kind, d = al.grid_digits(E, nlet, E, seed)[0], "full", deg
    else:
        d = deg
        while d > 1 and len(lower_set_digits(E, nlet, d)) > limit:
            d -= 1
        digits, kind = lower_set_digits(E, nlet, d), "lower-set(sum<=%d)" % d
    Ga = al.block_from_digits(digits[:, :Ea], n, na, seed, nlet)
    Gb = None if restricted else al.block_from_digits(digits[:, Ea:], n, nb, seed + 1, nlet)
    return dict(Ga=Ga, Gb=Gb, P=digits.shape[0], capped=d < deg, kind=kind, entries=E, degree=d, full_degree=deg)


def ref_grid(n, na, nb, ref, seed, cap, restricted=False):
    """Walker grid (lab frame) whose reference block(s) sit on the occupied orbitals of `ref`; cap = point limit."""
    grid = walker_grid(n, na, nb, seed, restricted, cap)
    Qa, Qb = trials.frame_for_ref(n, ref[0]), trials.frame_for_ref(n, ref[1])
    if restricted:
        W = np.einsum("pq,wqk->wpk", Qa, grid["Ga"])
        return grid, W, None
    return grid, np.einsum("pq,wqk->wpk", Qa, grid["Ga"]), np.einsum("pq,wqk->wpk", Qb, grid["Gb"])


def nbatch_for(P):
    """A batch count > 1 dividing the number of walkers (the library reshapes to (n_batch, P // n_batch, ...))."""
    for d in (4, 3, 2, 5, 7, 9, 11, 13):
        if P % d == 0:
            return d
    return 1


def cap_text(what, n, na, nb, mode, grid):
    return ("%s n=%d (%d,%d) %s walkers: grid %s of %d points has total degree %d < %d = n_up+n_dn (point limit)" % (
        what, n, na, nb, mode, grid["kind"], grid["P"], grid["degree"], grid["full_degree"]))


def block_dets(ref, Wa, Wb):
    ra = [i for i, x in enumerate(ref[0]) if x]
    rb = [i for i, x in enumerate(ref[1]) if x]
    return min(np.abs(np.linalg.det(Wa[:, ra, :])).min(), np.abs(np.linalg.det(Wb[:, rb, :])).min())


# ----------------------------------------------------------------------------- (1) representation invariance
ROOT_SIG = "get_excitations+multislater._calc_overlap/list-overlap"
REPR_SITES = ("get_excitations", "read_dets", "get_fci_state")


def repr_sig(kind, source, extra, ndets, base_bad):
    """Call site + failure class.  A list that already fails on the plain route (python dict, cut-off = needed) is
    attributed to that route whatever the variant; otherwise to what the variant adds."""
    if base_bad or (source == "dict" and extra == 0 and ndets is None):
        return ROOT_SIG
    if source != "dict":
        return "%s/list-overlap" % SITE[source]
    if ndets is not None:
        return "get_excitations/ndets-truncation"
    return "get_excitations+multislater._calc_overlap/cutoff-above-needed"


def job_repr(cfg):
    res = Result()
    n, na, nb, seed = cfg["n"], cfg["na"], cfg["nb"], cfg["seed"]
    dets = trials.all_dets(n, na, nb)
    sec = fock.sector(n, na, nb)
    dc = dense_coeffs(n, na, nb, seed)
    jnp, wf = trials.lib()
    found = []
    with scratch_dir() as tmp:
        for r in cfg["refs"]:
            ref = dets[r]
            grid, Wa, Wb = ref_grid(n, na, nb, ref, seed, cfg["cap"])
            P = grid["P"]
            if grid["capped"]:
                res.cap(cap_text("lists", n, na, nb, "unrestricted", grid))
            Phi = sec.walker_vectors(Wa, Wb)
            if np.linalg.matrix_rank(Phi) < sec.dim:
                raise RuntimeError("walker grid does not span the sector for %r" % (cfg,))
            res.guard("grids_spanning_the_sector")
            if block_dets(ref, Wa, Wb) < 1e-3:
                raise RuntimeError("reference block singular on its own grid: %r" % (cfg,))
            ja, jb = jnp.asarray(Wa), jnp.asarray(Wb)
            entries = []
            for order, (kind, label, items) in enumerate(lists_for_ref(dets, r, dc, cfg["kinds"], cfg.get("triple_pool"))):
                for source in cfg["sources"]:
                    if source == "fci" and kind == "unit":
                        continue  # a zero coefficient cannot be carried by the FCI path (large_ci drops it)
                    its = positional(kind, items) if source == "fci" else items
                    truncs = [None]
                    if kind == "dense" and label.endswith("rot0") and len(items) > 2:
                        truncs.append((len(items) + 1) // 2)
                    for ndets in truncs:
                        eff = its if ndets is None else its[:ndets]
                        need = needed(eff)
                        for extra in cfg["extras"]:
                            case = dict(part="repr", n=n, na=na, nb=nb, seed=seed, cap=cfg["cap"], ref=r, kind=kind, label=label,
                                        items=[[list(a), list(b), c] for a, b, c in its], source=source, ndets=ndets,
                                        extra=extra, max_excitation=need + extra)
                            try:
                                trial, wd = build_wave_data(source, n, na, nb, its, need + extra, ndets, tmpdir=tmp)
                            except Exception as e:  # the library refusing a legitimate list
                                found.append((order, "%s/raises-%s" % (SITE[source], type(e).__name__), case,
                                              dict(error=repr(e)[:300])))
                                continue
                            entries.append(dict(order=order, kind=kind, label=label, source=source, ndets=ndets, extra=extra,
                                                eff=eff, trial=trial, wd=wd, case=case))
            groups = {}
            for e in entries:
                groups.setdefault((e["trial"], shape_sig(e["wd"])), []).append(e)
            chunk = max(1, min(16, (1 << 16) // P))
            if os.environ.get("C11_DEBUG"):
                print("ref", r, "entries", len(entries), "groups", len(groups), "chunk", chunk, flush=True)
            sliced = [(trial, es_all[k:k + 256]) for (trial, _), es_all in groups.items() for k in range(0, len(es_all), 256)]
            for trial, es in sliced:  # slices bound the memory of the (lists x points) arrays
                O = eval_overlaps(trial, [e["wd"] for e in es], ja, jb, chunk)
                K = np.array([ket_of(n, na, nb, e["eff"]) for e in es])
                Oref = np.conj(K) @ Phi
                scale = np.abs(Oref).max(axis=1, keepdims=True)
                if not np.all(scale > 1e-6):
                    raise RuntimeError("reference overlap degenerate in %r" % (cfg,))
                err = np.abs(O - Oref) / np.maximum(np.abs(Oref), 1e-3 * scale)
                err = np.where(np.isfinite(O), err, np.inf)
                for k, e in enumerate(es):
                    e["maxerr"] = float(err[k].max())
                    e["bad"] = gridmc.first_bad(err[k], TOL_O)
                    if e["bad"] is not None:
                        b = e["bad"]
                        e["detail"] = dict(impl=O[k, b], ref=Oref[k, b], relerr=float(err[k, b]), n_bad=int((~(err[k] <= TOL_O)).sum()),
                                           n_points=P, walker_up=Wa[b], walker_dn=Wb[b])
                res.add(states=P * len(es), transitions=P * len(es), evaluations=P * len(es), traces=P * len(es))
            base = {e["label"]: e["bad"] is not None for e in entries if e["source"] == "dict" and e["extra"] == 0 and e["ndets"] is None}

            def base_bad(e):
                """Does the plain route (python dict, cut-off = needed, no truncation) already fail for this list?  Decides
                which call site a failure is attributed to; evaluated on demand (failures only)."""
                if e["label"] not in base:
                    its = [(tuple(a), tuple(b), c) for a, b, c in e["case"]["items"]]
                    if e["kind"] == "dense":  # the FCI route carries positional magnitudes; the plain route its own vector
                        its = [(a, b, dc[(a, b)]) for a, b, _ in its]
                    try:
                        t0, w0 = build_wave_data("dict", n, na, nb, its, needed(its))
                        O0 = eval_overlaps(t0, [w0], ja, jb, chunk)[0]
                        R0 = np.conj(ket_of(n, na, nb, its)) @ Phi
                        e0 = np.abs(O0 - R0) / np.maximum(np.abs(R0), 1e-3 * np.abs(R0).max())
                        base[e["label"]] = not np.all(np.where(np.isfinite(O0), e0, np.inf) <= TOL_O)
                    except Exception:
                        base[e["label"]] = True
                return base[e["label"]]

            for e in entries:
                res.nontrivial((n, na, nb, e["label"], e["source"], e["extra"], e["ndets"]))
                res.guard("lists_" + ("pair" if e["kind"] == "unit" else e["kind"]))
                res.guard("lists_src_" + e["source"])
                if e["extra"]:
                    res.guard("lists_cutoff_above_needed")
                if e["bad"] is not None:
                    case = dict(e["case"], point=e["bad"])
                    plain = e["source"] == "dict" and e["extra"] == 0 and e["ndets"] is None
                    found.append((e["order"], repr_sig(e["kind"], e["source"], e["extra"], e["ndets"], (not plain) and base_bad(e)),
                                  case, e["detail"]))
            if entries and r == cfg["refs"][0] and cfg.get("sample"):
                e = entries[-1]
                res.sample(dict(part="repr", n=n, nelec=[na, nb], reference=[list(ref[0]), list(ref[1])], n_lists=len(entries),
                                grid_points=P, example=dict(label=e["label"], source=e["source"], max_excitation=e["case"]["max_excitation"],
                                                            n_dets=len(e["eff"]), max_relerr=e["maxerr"])))
            # the public batched entry points on the dense list (both containers)
            if cfg.get("public", True) and len(dets) > 1:
                items = lists_for_ref(dets, r, dc, ("dense",))[0][2]
                trial, wd = build_wave_data("dict", n, na, nb, items, needed(items))
                ket = ket_of(n, na, nb, items)
                for mode in ("u", "r"):
                    if mode == "r":
                        g2, W, _ = ref_grid(n, na, nb, ref, seed, cfg["cap_r"], restricted=True)
                        Va, Vb = W[:, :, :na], W[:, :, :nb]
                        if block_dets(ref, Va, Vb) < 1e-2:
                            res.guard("restricted_grids_skipped_singular_reference_block")
                            continue
                        Ph = sec.walker_vectors(Va, Vb)
                        nbt = nbatch_for(g2["P"])
                        O = np.asarray(gridmc.jitted(gridmc.with_batch(trial, nbt), "calc_overlap")(jnp.asarray(W), wd))
                    else:
                        Ph, Va, Vb = Phi, Wa, Wb
                        nbt = nbatch_for(P)
                        O = np.asarray(gridmc.jitted(gridmc.with_batch(trial, nbt), "calc_overlap")([ja, jb], wd))
                    Oref = np.conj(ket) @ Ph
                    err = np.abs(O - Oref) / np.maximum(np.abs(Oref), 1e-3 * np.abs(Oref).max())
                    err = np.where(np.isfinite(O), err, np.inf)
                    res.add(states=len(O), transitions=len(O), evaluations=len(O), traces=len(O))
                    res.guard("public_calc_overlap_" + mode)
                    b = gridmc.first_bad(err, TOL_O)
                    if b is not None:
                        case = dict(part="repr-public", n=n, na=na, nb=nb, seed=seed, cap=cfg["cap"], cap_r=cfg["cap_r"], ref=r,
                                    mode=mode, n_batch=nbt, point=b)
                        root = any(e["bad"] is not None for e in entries if e["kind"] == "dense" and e["label"].endswith("rot0")
                                   and e["source"] == "dict" and e["ndets"] is None)
                        found.append((10 ** 6, ROOT_SIG if root else "multislater.calc_overlap/batched-%s" % mode, case,
                                      dict(impl=O[b], ref=Oref[b], relerr=float(err[b]), n_bad=int((~(err <= TOL_O)).sum()))))
    for order, sig, case, detail in sorted(found, key=lambda t: (t[0], t[2].get("extra", 0), SOURCES.index(t[2].get("source", "dict")))):
        res.violation(sig, case, detail)
    return res


def replay_repr(case):
    n, na, nb, seed = case["n"], case["na"], case["nb"], case["seed"]
    jnp, wf = trials.lib()
    dets = trials.all_dets(n, na, nb)
    ref = dets[case["ref"]]
    sec = fock.sector(n, na, nb)
    i = int(case.get("point", 0))  # cases recorded because the library raised carry no grid point
    if case["part"] == "repr-public":
        dc = dense_coeffs(n, na, nb, seed)
        items = lists_for_ref(dets, case["ref"], dc, ("dense",))[0][2]
        trial, wd = build_wave_data("dict", n, na, nb, items, needed(items))
        trial = gridmc.with_batch(trial, case["n_batch"])
        if case["mode"] == "r":
            _, W, _ = ref_grid(n, na, nb, ref, seed, case["cap_r"], restricted=True)
            O = np.asarray(gridmc.jitted(trial, "calc_overlap")(jnp.asarray(W), wd))
            Phi = sec.walker_vectors(W[:, :, :na], W[:, :, :nb])
        else:
            _, Wa, Wb = ref_grid(n, na, nb, ref, seed, case["cap"])
            O = np.asarray(gridmc.jitted(trial, "calc_overlap")([jnp.asarray(Wa), jnp.asarray(Wb)], wd))
            Phi = sec.walker_vectors(Wa, Wb)
        Oref = np.conj(ket_of(n, na, nb, items)) @ Phi
        err = abs(O[i] - Oref[i]) / max(abs(Oref[i]), 1e-3 * np.abs(Oref).max())
        return (not err <= TOL_O, dict(impl=O[i], ref=Oref[i], relerr=float(err)))
    items = [(tuple(int(x) for x in a), tuple(int(x) for x in b), float(c)) for a, b, c in case["items"]]
    ndets = case.get("ndets")
    eff = items if ndets is None else items[: int(ndets)]
    _, Wa, Wb = ref_grid(n, na, nb, ref, seed, case["cap"])
    Phi = sec.walker_vectors(Wa, Wb)
    Oref = np.conj(ket_of(n, na, nb, eff)) @ Phi
    with scratch_dir() as tmp:
        try:
            trial, wd = build_wave_data(case["source"], n, na, nb, items, int(case["max_excitation"]),
                                        None if ndets is None else int(ndets), tmpdir=tmp)
        except Exception as e:
            return (True, dict(error=repr(e)[:300]))
    if "point" not in case:
        return (False, dict(note="the library no longer raises on this list"))
    O = complex(np.asarray(trial._calc_overlap(jnp.asarray(Wa[i]), jnp.asarray(Wb[i]), wd)))
    err = abs(O - Oref[i]) / max(abs(Oref[i]), 1e-3 * np.abs(Oref).max())
    if not np.isfinite(err):
        err = float("inf")
    return (not err <= TOL_O, dict(impl=O, ref=Oref[i], relerr=float(err)))


# ----------------------------------------------------------------------------- exact eigenvectors
MOLECULES = {
    "h2": ("H 0 0 0; H 0 0 0.9", "sto-3g", 0),
    "h2_631g": ("H 0 0 0; H 0 0 0.9", "6-31g", 0),
    "h4": ("H 0 0 0; H 0 0 1.0; H 0 0 2.1; H 0 0 3.0", "sto-3g", 0),
    "lih_fc": ("Li 0 0 0; H 0 0 1.6", "sto-3g", 1),
    "lih": ("Li 0 0 0; H 0 0 1.6", "sto-3g", 0),
}


def chol_from_eri(eri, n):
    """Exact symmetric factorisation eri[pq,rs] = sum_g L_g[pq] L_g[rs] (eigen-decomposition; residual < 1e-10)."""
    M = eri.reshape(n * n, n * n)
    w, v = np.linalg.eigh(M)
    keep = w > 1e-12
    L = (v[:, keep] * np.sqrt(w[keep])).T.reshape(-1, n, n)
    if np.abs(np.einsum("gpq,grs->pqrs", L, L).reshape(n * n, n * n) - M).max() > 1e-10:
        raise RuntimeError("ERI factorisation inexact")
    return 0.5 * (L + L.transpose(0, 2, 1))


_SYS = {}


def system(spec):
    """-> dict(n, na, nb, h0, h1[2,n,n], chol[g,n,n], E, items) with items the FULL eigenvector as an ordered
    list (largest |c| first).  Generic Hamiltonians: eigenvector k of the Fock model's H (python-dict source);
    molecules: pyscf RHF integrals + pyscf FCI, list obtained through the library's get_fci_state."""
    key = repr(sorted(spec.items()))
    if key in _SYS:
        return _SYS[key]
    if spec["sys"] == "rand":
        n, na, nb = spec["n"], spec["na"], spec["nb"]
        h0, h1, chol = al.small_ham(n, spec["nchol"], spec["hseed"], spin_dependent=spec.get("spin_dep", False), scale=0.5)
        sec = fock.sector(n, na, nb)
        w, v = np.linalg.eigh(sec.hamiltonian(h0, h1, chol))
        k = spec["eig"] % len(w)
        vec = v[:, k]
        dets = trials.all_dets(n, na, nb)  # same (A major, B minor) order as the sector
        order = np.argsort(-np.abs(vec), kind="stable")
        items = [(dets[i][0], dets[i][1], float(vec[i])) for i in order]
        if np.abs(ket_of(n, na, nb, items) - vec).max() > 1e-14:
            raise RuntimeError("determinant order of the reference model changed")
        out = dict(n=n, na=na, nb=nb, h0=h0, h1=h1, chol=chol, E=float(w[k]), items=items)
    else:
        from pyscf import ao2mo, gto, mcscf, scf
        from pyscf.fci import direct_spin1
        from ad_afqmc import pyscf_interface as pi

        atom, basis, frozen = MOLECULES[spec["name"]]
        mol = gto.M(atom=atom, basis=basis, verbose=0)
        mf = scf.RHF(mol)
        mf.conv_tol = 1e-12
        mf.kernel()
        C = mf.mo_coeff
        na, nb = mol.nelec
        if frozen:
            cas = mcscf.CASCI(mf, C.shape[1] - frozen, (na - frozen, nb - frozen))
            h1, h0 = cas.get_h1eff()
            n = h1.shape[0]
            eri = ao2mo.restore(1, cas.get_h2eff(), n)
            na, nb = na - frozen, nb - frozen
        else:
            n = C.shape[1]
            h1 = C.T @ mf.get_hcore() @ C
            eri = ao2mo.restore(1, ao2mo.kernel(mol, C), n)
            h0 = mol.energy_nuc()
        cis = direct_spin1.FCI()
        cis.conv_tol = 1e-13
        E, ci = cis.kernel(h1, eri, n, (na, nb), ecore=h0)
        cis.ci, cis.norb, cis.nelec = ci, n, (na, nb)
        state = pi.get_fci_state(cis, tol=0.0)
        items = [(a, b, float(c)) for (a, b), c in state.items()]
        chol = chol_from_eri(eri, n)
        out = dict(n=n, na=int(na), nb=int(nb), h0=float(h0), h1=np.array([h1, h1]), chol=chol, E=float(E), items=items)
        if n <= 5:  # independent cross-check of the oracle energy (Fock model built from the same h0, h1, chol)
            w = np.linalg.eigvalsh(fock.sector(n, na, nb).hamiltonian(h0, out["h1"], chol))
            if abs(w[0] - E) > 1e-8:
                raise RuntimeError("pyscf FCI energy and the Fock model disagree for %s: %r %r" % (spec["name"], E, w[0]))
    _SYS[key] = out
    return out


def with_reference(items, ref):
    head = [t for t in items if (tuple(t[0]), tuple(t[1])) == (tuple(ref[0]), tuple(ref[1]))]
    return head + [t for t in items if t is not head[0]]


def references(items, limit=None, subset_ok=None):
    cmax = max(abs(c) for _, _, c in items)
    refs = [(tuple(a), tuple(b)) for a, b, c in items if abs(c) >= NEGLIGIBLE * cmax]
    if subset_ok is not None:
        refs = [r for r in refs if subset_ok(r)]
    if limit is not None and len(refs) > limit:
        pick = sorted(set(int(round(x)) for x in np.linspace(0, len(refs) - 1, limit)))
        refs = [refs[i] for i in pick]
    return refs


def perturbed(items):
    """The same list with the sign of the second largest coefficient (by |c|) flipped: no longer an eigenvector."""
    mags = sorted(range(len(items)), key=lambda i: -abs(items[i][2]))
    j = mags[1]
    return [(a, b, (-c if i == j else c)) for i, (a, b, c) in enumerate(items)]


# ----------------------------------------------------------------------------- (2) zero variance on the grid
def zv_eval(sysd, ref, mode, cap, seed, items=None):
    """-> (E_impl[P], O_impl[P], O_ref[P], trial info) for the exact trial with reference `ref`."""
    jnp, wf = trials.lib()
    n, na, nb = sysd["n"], sysd["na"], sysd["nb"]
    its = with_reference(sysd["items"] if items is None else items, ref)
    trial, wd = build_wave_data("dict", n, na, nb, its, needed(its))
    sec = fock.sector(n, na, nb)
    ket = ket_of(n, na, nb, its)
    if mode == "r":
        grid, W, _ = ref_grid(n, na, nb, ref, seed, cap, restricted=True)
        Va, Vb = W[:, :, :na], W[:, :, :nb]
        walkers = jnp.asarray(W)
    else:
        grid, Va, Vb = ref_grid(n, na, nb, ref, seed, cap)
        walkers = [jnp.asarray(Va), jnp.asarray(Vb)]
    dmin = block_dets(ref, Va, Vb)
    if dmin < 1e-2:
        return "restricted_grids_skipped_singular_reference_block", grid
    Phi = sec.walker_vectors(Va, Vb)
    Oref = np.conj(ket) @ Phi
    if np.abs(Oref).max() < 1e-8 * np.linalg.norm(ket) * np.linalg.norm(Phi, axis=0).max():
        # e.g. a high-spin eigenvector against restricted (spin-pure, low-spin) walkers: <psi|phi> = 0 on the whole
        # family, the local energy is 0/0 and the property (walkers with non-zero overlap) does not speak
        return "walker_families_orthogonal_to_the_eigenvector", grid
    tr = gridmc.with_batch(trial, nbatch_for(grid["P"]))
    hd = gridmc.build_ham_data(n, sysd["h0"], sysd["h1"], sysd["chol"], tr, wd)
    E = np.asarray(gridmc.jitted(tr, "calc_energy")(walkers, hd, wd))
    O = np.asarray(gridmc.jitted(tr, "calc_overlap")(walkers, wd))
    return (E, O, Oref, Va, Vb), grid


def zv_errors(E, Oref, E0):
    escale = max(1.0, abs(E0))
    good = np.abs(Oref) > NODE_FRAC * np.abs(Oref).max()
    d = np.where(np.isfinite(E), np.abs(E - E0), np.inf)
    err_rel = np.where(good, d / escale, 0.0)
    err_pol = d * np.abs(Oref) / np.abs(Oref).max() / escale  # residual of N - E0 O = 0, scaled
    return np.maximum(err_rel, err_pol), good


def job_zv(cfg):
    """All eigenvectors of one orbital space in one job (they share every compilation)."""
    res = Result()
    for spec in cfg["specs"]:
        _zv_one(res, cfg, spec)
    return res


def _zv_one(res, cfg, spec):
    seed = cfg["seed"]
    sysd = system(spec)
    n, na, nb, E0 = sysd["n"], sysd["na"], sysd["nb"], sysd["E"]
    # every non-negligible reference for ground states (and everything up to 9 determinants); a spread of
    # max_refs references for the other eigenvectors of the larger spaces
    full = spec.get("eig", 0) == 0 or len(sysd["items"]) <= 9
    refs = references(sysd["items"], cfg.get("max_refs") if not (full and cfg["tier"] == "thorough") else cfg.get("max_refs_ground"))
    first = True
    for ref in refs:
        for mode in cfg["modes"]:
            if mode == "r" and (na < nb or spec.get("spin_dep")):
                continue
            cap = cfg["cap_r"] if mode == "r" else cfg["cap"]
            out, grid = zv_eval(sysd, ref, mode, cap, seed)
            if isinstance(out, str):  # excluded by a pre-check on the inputs (reference values only)
                res.guard(out)
                continue
            if grid["capped"]:
                res.cap(cap_text("zero variance " + spec.get("name", "generic H"), n, na, nb, mode, grid))
            E, O, Oref, Va, Vb = out
            P = len(E)
            err, good = zv_errors(E, Oref, E0)
            res.add(states=P, transitions=2 * P, evaluations=2 * P, traces=2 * P)
            res.guard("zv_points_" + mode, P)
            res.guard("zv_near_node_points_judged_by_residual_only", int((~good).sum()))
            res.guard("zv_references")
            res.nontrivial_values((repr(sorted(spec.items())), ref, mode), Oref, 10)
            case = dict(part="zv", spec=spec, seed=seed, ref=[list(ref[0]), list(ref[1])], mode=mode, cap=cap)
            eo = np.abs(O - Oref) / np.maximum(np.abs(Oref), 1e-3 * np.abs(Oref).max())
            eo = np.where(np.isfinite(O), eo, np.inf)
            bo = gridmc.first_bad(eo, TOL_O)
            sig_o = "multislater.calc_overlap/full-vector/%s" % mode
            b = gridmc.first_bad(err, TOL_E)
            if b is not None:  # a wrong overlap of the same trial makes the energy failure a consequence of it
                res.violation(sig_o if bo is not None else "multislater.calc_energy/exact-trial-local-energy/%s" % mode, dict(case, point=b),
                              dict(impl=E[b], E_exact=E0, err=float(err[b]), tol=TOL_E, n_bad=int((~(err <= TOL_E)).sum()), n_points=P,
                                   overlap=Oref[b], walker_up=Va[b], walker_dn=Vb[b]))
            if bo is not None:
                res.violation(sig_o, dict(case, point=bo, what="overlap"), dict(impl=O[bo], ref=Oref[bo], relerr=float(eo[bo])))
            if first:
                # control: the same list with one sign flipped is not an eigenvector and must NOT pass
                first = False
                outc, _ = zv_eval(sysd, ref, mode, cap, seed, items=perturbed(sysd["items"]))
                if not isinstance(outc, str) and len(sysd["items"]) > 1:
                    errc, _ = zv_errors(outc[0], outc[2], E0)
                    if errc.max() > 100 * TOL_E:
                        res.guard("control_inexact_trial_deviates")
                if cfg.get("sample") and spec is cfg["specs"][0]:
                    res.sample(dict(part="zero-variance", system=spec, n=n, nelec=[na, nb], E_exact=E0, n_dets=len(sysd["items"]),
                                    reference=[list(ref[0]), list(ref[1])], mode=mode, grid_points=P, max_err=float(err.max())))


def replay_zv(case):
    spec = {k: (int(v) if isinstance(v, (np.integer,)) else v) for k, v in case["spec"].items()}
    sysd = system(spec)
    ref = (tuple(int(x) for x in case["ref"][0]), tuple(int(x) for x in case["ref"][1]))
    out, _ = zv_eval(sysd, ref, case["mode"], case["cap"], case["seed"])
    if isinstance(out, str):
        return (False, dict(excluded_by_input_precheck=out))
    E, O, Oref, _, _ = out
    i = int(case["point"])
    if case.get("what") == "overlap":
        err = abs(O[i] - Oref[i]) / max(abs(Oref[i]), 1e-3 * np.abs(Oref).max())
        return (not err <= TOL_O, dict(impl=O[i], ref=Oref[i], relerr=float(err)))
    err, _ = zv_errors(E, Oref, sysd["E"])
    return (not err[i] <= TOL_E, dict(impl=E[i], E_exact=sysd["E"], err=float(err[i])))


# ----------------------------------------------------------------------------- (3) driver
_MPI = None


def driver_lib():
    global _MPI
    jnp, wf = trials.lib()
    from ad_afqmc import config

    if _MPI is None:
        with quiet():
            _MPI = config.setup_comm()
    from ad_afqmc import driver, hamiltonian, propagation, sampling

    return jnp, driver, hamiltonian, propagation, sampling, _MPI


def run_driver(sysd, items, cell, seed):
    """One complete driver.afqmc run in a private directory -> (e_afqmc, e_err, samples_raw[n_blocks, 3])."""
    jnp, driver, hamiltonian, propagation, sampling, MPI = driver_lib()
    n, na, nb = sysd["n"], sysd["na"], sysd["nb"]
    trial, wd = build_wave_data("dict", n, na, nb, items, needed(items), n_batch=cell["n_batch"])
    wd = dict(wd)
    wd["rdm1"] = trial._calc_rdm1(wd)
    ham = hamiltonian.hamiltonian(n)
    hd = {"h0": sysd["h0"], "h1": jnp.asarray(np.asarray(sysd["h1"], dtype=float)),
          "chol": jnp.asarray(np.asarray(sysd["chol"], dtype=float).reshape(len(sysd["chol"]), n * n)), "ene0": 0.0}
    cls = propagation.propagator_restricted if cell["walker_type"] == "restricted" else propagation.propagator_unrestricted
    prop = cls(cell["dt"], cell["n_walkers"], n_batch=cell["n_batch"])
    smp = sampling.sampler(*cell["shape"])
    options = dict(seed=int(seed), n_eql=cell["n_eql"], n_ene_blocks_eql=1, n_sr_blocks_eql=1, ad_mode=None,
                   orbital_rotation=True, do_sr=True, save_walkers=False)
    with scratch_dir(chdir=True):
        with quiet():
            e, err = driver.afqmc(hd, ham, prop, trial, wd, smp, None, options, MPI)
        raw = np.loadtxt("samples_raw.dat", ndmin=2)
    return e, err, raw


def driver_reference(sysd, cell):
    """Reference determinant for a cell: rank-th non-negligible determinant; restricted walkers are initialised
    from the reference's natural orbitals, which needs the beta string inside the alpha string."""
    ok = None
    if cell["walker_type"] == "restricted":
        ok = lambda r: all(a >= b for a, b in zip(r[0], r[1]))
    refs = references(sysd["items"], None, ok)
    if not refs:
        return None
    return refs[min(cell["ref_rank"], len(refs) - 1)]


def driver_verdict(sysd, cell, seed, e, raw):
    E0 = sysd["E"]
    escale = max(1.0, abs(E0))
    out = []
    nb_ = cell["shape"][3]
    if raw.shape[0] != nb_ or not np.all(np.isfinite(raw)) or not np.all(raw[:, 0] > 0):
        out.append(("samples_raw-malformed", dict(shape=list(raw.shape), raw=raw)))
    else:
        d = np.abs(raw[:, 1] - E0) / escale
        if not np.all(d <= TOL_E):
            out.append(("block-energy", dict(block=int(np.argmax(d)), block_energies=raw[:, 1], E_exact=E0, err=float(d.max()), weights=raw[:, 0])))
    if not out and (e is None or not np.isfinite(e) or not abs(e - E0) / escale <= TOL_E):
        out.append(("return-value", dict(e_afqmc=None if e is None else float(e), E_exact=E0, block_energies=raw[:, 1])))
    return out


def job_driver(cfg):
    res = Result()
    spec, cell = cfg["spec"], cfg["cell"]
    sysd = system(spec)
    ref = driver_reference(sysd, cell)
    if ref is None:
        res.guard("driver_cells_without_admissible_reference")
        return res
    items = with_reference(sysd["items"], ref)
    weights, energies = [], []
    for seed in cell["seeds"]:
        case = dict(part="driver", spec=spec, cell=dict(cell, seeds=[int(seed)]), seed=cfg["seed"])
        try:
            e, err, raw = run_driver(sysd, items, cell, seed)
        except Exception as ex:
            res.violation("driver.afqmc/raises-%s" % type(ex).__name__, dict(case), dict(error=repr(ex)[:400]))
            continue
        nblk = cell["shape"][3]
        res.add(states=nblk, transitions=nblk + 1, evaluations=nblk + 1, traces=1)
        res.guard("driver_runs")
        res.guard("driver_block_energies", nblk)
        for what, detail in driver_verdict(sysd, cell, seed, e, raw):
            res.violation("driver.afqmc/%s" % what, case, detail)
        weights.append(raw[:, 0])
        energies.append(raw[:, 1])
        res.nontrivial_values((repr(sorted(spec.items())), repr(sorted(cell.items())), int(seed)), raw[:, 0], 6)
    if weights:
        w = np.concatenate(weights)
        if np.abs(w - cell["n_walkers"]).max() > 1e-6:
            res.guard("driver_runs_with_nontrivial_weights")
        # control run: a trial that is not the eigenvector must be reported away from E_0 by the same cell
        try:
            e, err, raw = run_driver(sysd, perturbed(items), cell, cell["seeds"][0])
            if driver_verdict(sysd, cell, cell["seeds"][0], e, raw):
                res.guard("control_inexact_trial_deviates_in_driver")
        except Exception:
            pass
        if cfg.get("sample"):
            res.sample(dict(part="driver", system=spec, cell=cell, E_exact=sysd["E"], reference=[list(ref[0]), list(ref[1])],
                            block_energies_first_run=energies[0], block_weights_first_run=weights[0]))
    return res


def replay_driver(case):
    spec = dict(case["spec"])
    cell = dict(case["cell"])
    cell["shape"] = [int(x) for x in cell["shape"]]
    sysd = system(spec)
    ref = driver_reference(sysd, cell)
    items = with_reference(sysd["items"], ref)
    seed = int(cell["seeds"][0])
    try:
        e, err, raw = run_driver(sysd, items, cell, seed)
    except Exception as ex:
        return (True, dict(error=repr(ex)[:400]))
    v = driver_verdict(sysd, cell, seed, e, raw)
    return (len(v) > 0, dict(failures=[w for w, _ in v], block_energies=raw[:, 1], e_afqmc=e, E_exact=sysd["E"]))


# ----------------------------------------------------------------------------- enumeration
SPACES3 = [(3, 1, 1), (3, 2, 1), (3, 2, 2), (3, 3, 1), (3, 3, 2), (3, 3, 3)]
SPACES4 = [(4, 2, 1), (4, 2, 2)]


def spread(k, m):
    return sorted(set(int(round(x)) for x in np.linspace(0, k - 1, m)))


def repr_configs(tier, seed):
    thorough = tier == "thorough"
    out = []
    for (n, na, nb) in SPACES3 + SPACES4:
        nd = len(trials.all_dets(n, na, nb))
        E = n * (na + nb)
        kinds = ["single", "pair", "triple", "dense"]
        # one job per (space, cut-off, block of references): compilation (one per wave_data shape signature and
        # cut-off) dominates, so a worker keeps one cut-off and sweeps the references
        for extra in EXTRAS:
            if not thorough and ((extra == 3 and (n, na, nb) in ((3, 1, 1), (3, 2, 2), (4, 2, 1), (4, 2, 2))) or
                                 (extra == 1 and (n, na, nb) == (4, 2, 2))):
                continue  # compilation of the deep excitation loops dominates: thorough tier only
            base = dict(n=n, na=na, nb=nb, seed=seed, tier=tier, sources=list(SOURCES), extras=[extra], kinds=kinds,
                        public=(extra == 0), sample=(extra == 0 and (n, na, nb) in ((3, 2, 1), (4, 2, 2))))
            if n == 3:
                out.append(dict(base, refs=list(range(nd)), cap=40000 if thorough else 6000, cap_r=7000 if thorough else 4000))
            elif thorough:
                nblk = 6 if nd > 30 else 2
                for b in range(nblk):
                    out.append(dict(base, refs=list(range(b, nd, nblk)), cap=6000, cap_r=7000))
            else:
                # quick tier: a spread of references; triples over a spread pool of partners
                out.append(dict(base, refs=spread(nd, 3), cap=6000, cap_r=4000, triple_pool=spread(nd, 5)))
    return out


def zv_specs(tier, seed):
    thorough = tier == "thorough"
    specs = []
    spaces = [(3, 1, 1), (3, 2, 1), (3, 2, 2), (3, 3, 1), (3, 3, 2), (4, 2, 1), (4, 2, 2)]
    if thorough:
        spaces += [(4, 3, 1), (4, 3, 2)]
    for (n, na, nb) in spaces:
        dim = len(trials.all_dets(n, na, nb))
        eigs = list(range(dim)) if thorough else sorted(set([0, dim - 1]))
        for k in eigs:
            specs.append(dict(sys="rand", n=n, na=na, nb=nb, nchol=2, hseed=seed, eig=k))
        if thorough:
            specs.append(dict(sys="rand", n=n, na=na, nb=nb, nchol=3, hseed=seed + 1, eig=0, spin_dep=True))
    for name in (["h2", "h2_631g", "h4", "lih_fc"] + (["lih"] if thorough else [])):
        specs.append(dict(sys="mol", name=name))
    return specs


def zv_configs(tier, seed):
    thorough = tier == "thorough"
    groups = {}
    for spec in zv_specs(tier, seed):
        key = (spec["sys"], spec.get("n"), spec.get("na"), spec.get("nb"), spec.get("name"), spec.get("spin_dep", False))
        groups.setdefault(key, []).append(spec)
    out = []
    for key, specs in groups.items():
        big = key[4] == "lih"
        out.append(dict(specs=specs, seed=seed, tier=tier, modes=["u", "r"], sample=key[4] == "h4" or key[1:4] == (3, 2, 1), max_refs=6 if (thorough and not big) else 4, max_refs_ground=6 if big else None,
                        cap=40000 if thorough else 6000, cap_r=7000 if thorough else 4000))
    return out


def driver_configs(tier, seed):
    thorough = tier == "thorough"
    r3 = lambda na, nb: dict(sys="rand", n=3, na=na, nb=nb, nchol=2, hseed=seed, eig=0)
    cell = lambda wt, nbt, shape, neql, seeds, rank=0, dt=0.01, nw=4: dict(
        walker_type=wt, n_batch=nbt, shape=list(shape), n_eql=neql, seeds=list(seeds), ref_rank=rank, dt=dt, n_walkers=nw)
    out = []
    if not thorough:
        S = [1, 7]
        cells = [
            (r3(2, 1), cell("unrestricted", 1, (3, 2, 2, 3), 1, S)),
            (r3(2, 1), cell("restricted", 2, (2, 1, 1, 2), 0, S)),
            (r3(2, 2), cell("restricted", 1, (2, 2, 1, 2), 1, S, rank=1)),
            (r3(1, 1), cell("unrestricted", 2, (2, 1, 2, 3), 0, S, rank=1)),
            (dict(sys="mol", name="h2"), cell("restricted", 1, (3, 1, 1, 2), 1, S)),
            (dict(sys="mol", name="h2_631g"), cell("unrestricted", 2, (2, 1, 1, 2), 0, S)),
        ]
    else:
        S = [1, 7, 12345]
        systems = [r3(1, 1), r3(2, 1), r3(2, 2), dict(sys="rand", n=4, na=2, nb=2, nchol=2, hseed=seed, eig=0),
                   dict(sys="mol", name="h2"), dict(sys="mol", name="h2_631g"), dict(sys="mol", name="h4")]
        cells = []
        for sp in systems:
            for wt in ("restricted", "unrestricted"):
                for nbt in (1, 2):
                    for shape, neql in (((2, 1, 1, 2), 0), ((3, 2, 2, 3), 1)):
                        for rank in ((0, 1) if nbt == 1 else (0,)):
                            cells.append((sp, cell(wt, nbt, shape, neql, S, rank=rank)))
            cells.append((sp, cell("unrestricted", 4, (2, 2, 1, 4), 1, S, dt=0.05, nw=8)))
            cells.append((sp, cell("restricted", 1, (5, 1, 3, 2), 0, S, dt=0.002, nw=3)))
    for k, (sp, c) in enumerate(cells):
        out.append(dict(spec=sp, cell=c, seed=seed, tier=tier, sample=k in (0, len(cells) - 2)))
    return out


def job(cfg):
    """Dispatcher (one pool for all three parts, most expensive jobs first)."""
    return {"repr": job_repr, "zv": job_zv, "driver": job_driver}[cfg["part"]](cfg)


def run(ctx):
    ctx.rule = ("(1) orbital spaces 3 orbitals (all n_up>=n_dn>=1) and 4 orbitals (2,1),(2,2) x every determinant as reference x "
                "ordered lists {single; pair (0.8,0.6) and unit vector (0,1); every ordered triple; dense vector in every rotation and "
                "adjacent transposition of its tail, plus its leading half through the ndets argument} x source {dict, Dice file "
                "-> read_dets, pyscf FCI object -> get_fci_state} x max_excitation in needed+{0,1,3} x walker grid (full product grid or its degree-(n_up+n_dn) lower set), oracle "
                "sum_i c_i <A_i B_i|phi>; (2) exact eigenvectors (every eigenvector of generic Hamiltonians in the thorough tier, lowest "
                "and highest in quick; pyscf FCI ground states of H2/H4/LiH) x every non-negligible reference x {unrestricted, restricted} "
                "x walker grid, oracle E_L = E_k; (3) driver.afqmc option matrix (container x n_batch x sampler shape x n_eql x dt x "
                "seed list) on the exact trial, oracle every block energy and the returned mean = E_0.  A state is one (list, source, "
                "cut-off, walker) / (eigenvector, reference, container, walker) / (cell, seed, block); distinct & non-trivial = distinct "
                "(list, source, cut-off) cases with non-zero oracle overlap, distinct non-zero oracle overlaps, distinct block weights")
    ctx.assume("walker grids: full product grid (2 non-real letters per entry, 3 for restricted walkers) up to 4096 points, beyond that the "
               "lower set {digit sum <= n_up+n_dn} of the same product grid; overlap and <psi|H|phi> are homogeneous of total degree "
               "n_up+n_dn in the walker entries and interpolation on a lower set is unisolvent for that degree class, so either grid decides "
               "the identity for every complex walker for implementations in the class (dense exhaustive test otherwise); every "
               "unrestricted grid is additionally checked to span the (n_up,n_dn) sector")
    ctx.assume("pyscf.fci string addressing / sign convention equals the Fock model's alpha-string x beta-string convention up to a global "
               "sign per sector (the Hamiltonian matrices agree element-wise; verified in the design of this check)")
    ctx.assume("'every seed' of the driver is decided by (2): E_L = E_0 for every walker; the driver cells enumerate a fixed seed list")
    ctx.assume("finite-difference local energy (eps = 1e-4): tolerance 1e-5 relative to max(1,|E|); walkers with reference overlap below "
               "1e-2 of the grid maximum are judged by the residual of N - E O = 0 only")
    jobs = [dict(c, part="driver") for c in driver_configs(ctx.tier, ctx.seed)]
    jobs += [dict(c, part="zv") for c in zv_configs(ctx.tier, ctx.seed)]
    rj = [dict(c, part="repr") for c in repr_configs(ctx.tier, ctx.seed)]
    rj.sort(key=lambda c: -(len(trials.all_dets(c["n"], c["na"], c["nb"])) ** 2) * len(c["refs"]))
    if not ctx.thorough:
        ctx.cap("quick tier: 4-orbital spaces use 3 references, triples over a 5-determinant partner pool and cut-offs needed+{0,1} / needed only; "
                "cut-off needed+3 for the (2,1),(3,1),(3,2),(3,3) spaces of 3 orbitals only; "
                "driver matrix reduced to 6 cells; eigenvectors: lowest and highest only; at most 4 references per eigenvector")
    try:
        ctx.pmap(job, jobs + rj)
    finally:
        with contextlib.suppress(OSError):
            os.rmdir(TMP_ROOT)  # every cell removes its own directory; the root goes only when empty
    attribute(ctx.violations)
    ctx.require_guard("grids_spanning_the_sector", "lists_single", "lists_pair", "lists_triple", "lists_dense", "lists_src_dict",
                      "lists_src_file", "lists_src_fci", "lists_cutoff_above_needed", "public_calc_overlap_u", "public_calc_overlap_r",
                      "zv_points_u", "zv_points_r", "zv_references", "control_inexact_trial_deviates", "driver_runs",
                      "driver_runs_with_nontrivial_weights", "control_inexact_trial_deviates_in_driver")


def attribute(violations):
    """One defect, one signature.  Simplest case first; failures downstream of a failing layer carry that layer's
    signature (a wrong representation makes the full-vector overlap, the local energy and the driver's block energies
    wrong; a wrong local energy makes the block energies wrong).  Nothing is removed: every case stays in the list and
    is replayable; the attribution only decides under which signature it is reported."""
    rank = {"repr": 0, "repr-public": 1, "zv": 2, "driver": 3}
    violations.sort(key=lambda v: (rank.get(v["case"].get("part"), 9), len(v["case"].get("items", [])), v["case"].get("n", 9),
                                   v["case"].get("extra", 0)))
    layer = lambda v: rank.get(v["case"].get("part"), 9)
    roots = set(v["signature"] for v in violations if layer(v) == 0)
    fci_sig = "%s/list-overlap" % SITE["fci"]

    def upstream(v, zv):
        if layer(v) >= 1 and ROOT_SIG in roots:  # everything downstream builds its trial through the plain route
            return ROOT_SIG
        if layer(v) >= 2 and fci_sig in roots and v["case"].get("spec", {}).get("sys") == "mol":  # molecules: get_fci_state
            return fci_sig
        if layer(v) == 3 and zv:
            return zv[0]
        return None

    for lay in (1, 2, 3):
        zv = [v["signature"] for v in violations if layer(v) == 2]
        for v in violations:
            up = upstream(v, zv) if layer(v) == lay else None
            if up is not None and v["signature"] != up:
                v["detail"]["reported_as_consequence_of"] = up
                v["detail"]["own_signature"] = v["signature"]
                v["signature"] = up


def replay(case):
    part = case["part"]
    if part in ("repr", "repr-public"):
        return replay_repr(case)
    if part == "zv":
        return replay_zv(case)
    return replay_driver(case)
