"""C17 -- Cholesky factorisations reproduce their input and stay differentiable.

Routines (all called on the real library code):
  * ad_afqmc.pyscf_interface.modified_cholesky(mat, max_error)          (NumPy, threshold-terminated)
  * ad_afqmc.linalg_utils.modified_cholesky(mat, norb, n_chol)          (JAX lax.scan, fixed count)
  * ad_afqmc.pyscf_interface.chunked_cholesky(mol, max_error)           (shell-chunked, molecules)
  * the symmetrise + linalg_utils.modified_cholesky step of sampling.sampler.propagate_phaseless_ad_1

Alphabet (gridmc): every A = B B^T with B in {-1,0,1}^{n x r}, r <= n (generated as every multiset of
<= n rank-one terms v v^T, v in {-1,0,1}^n / +-, and de-duplicated), congruence-scaled by every
D in {1e-3,1,1e3}^n, x every threshold in {1e-2,1e-6,1e-10}.
"""

import functools
import itertools
import warnings

import numpy as np

from mc.core import Result

ID = "C17"
TECHNIQUE = ("exhaustive enumeration of all Gram matrices B B^T over {-1,0,1} (n<=3 quick, 4 thorough) x diagonal "
             "scalings x thresholds on the three modified-Cholesky routines; jvp vs central differences on every "
             "symmetric basis tangent; molecule catalogue x thresholds x buffer sizes (cmax 1..3 and default: 'raises, or "
             "returns a Gram matrix within the threshold') for the shell-chunked routine; integer / single-precision inputs")

THRESHOLDS = [1e-2, 1e-6, 1e-10]
SCALE_LETTERS = [1.0, 1e-3, 1e3]
REG_SLACK = 1e-10          # the NumPy routine divides by sqrt(delta + 1e-10): allowance per accepted vector
ROUND = 1e-12              # round-off allowance relative to sqrt(A_ii A_jj)
ROUND32 = 1e-6             # the same for a matrix handed over in single precision
EXACT_TOL = 1e-9           # "exact" for float64 algebra, relative to sqrt(A_ii A_jj)
FD_H = [1e-3, 5e-4, 2.5e-4]  # h-ladder; tangents are congruence-scaled like the matrix (entries of B B^T are O(1))
FD_TOL = 1e-7


# ----------------------------------------------------------------------------- alphabet
def rank_one_letters(n):
    """All v in {-1,0,1}^n \\ {0} up to overall sign, simplest first."""
    out = []
    for v in itertools.product((0, 1, -1), repeat=n):
        if not any(v):
            continue
        first = [x for x in v if x][0]
        if first < 0:
            continue
        out.append(np.array(v, dtype=np.int64))
    out.sort(key=lambda v: (int(np.abs(v).sum()), tuple((-v).tolist())))
    return out


@functools.lru_cache(maxsize=None)
def gram_catalogue(n):
    """Every distinct B B^T, B in {-1,0,1}^{n x r}, r <= n: list of (int matrix, number of columns, rank),
    ordered simplest first."""
    vs = rank_one_letters(n)
    outer = [np.outer(v, v) for v in vs]
    seen = {}
    for r in range(0, n + 1):
        for combo in itertools.combinations_with_replacement(range(len(vs)), r):
            A = np.zeros((n, n), dtype=np.int64)
            for k in combo:
                A = A + outer[k]
            key = A.tobytes()
            if key not in seen:
                seen[key] = (A, r)
    out = []
    for A, r in seen.values():
        rk = int(np.linalg.matrix_rank(A.astype(float))) if A.any() else 0
        out.append((A, r, rk))
    out.sort(key=lambda t: (t[1], int(np.abs(t[0]).sum()), t[0].tobytes()))
    return out


def scalings(n):
    return [np.array(d) for d in itertools.product(SCALE_LETTERS, repeat=n)]


def mild_scaling(n, seed):
    """A generic, well-conditioned diagonal scaling with pairwise different entries (breaks pivot ties);
    VERIF_SEED rotates the catalogue."""
    cat = [1.0, 1.37, 0.71, 1.93, 0.53, 1.19, 0.83]
    return np.array([cat[(i * 2 + seed) % len(cat)] for i in range(n)])


# ----------------------------------------------------------------------------- reference model
def ref_pivots(A, nsteps, classes=None):
    """Boring pivoted Cholesky on the residual matrix; returns (pivot list, min relative gap between the
    best and second-best |residual diagonal| over the steps).  With `classes` (index -> class id; rows of
    one class are identical by construction, e.g. (ij) and (ji) of an electron-repulsion matrix) pivots are
    reported as class ids and the runner-up is taken from the other classes only."""
    R = np.array(A, dtype=float)
    n = R.shape[0]
    cl = np.arange(n) if classes is None else np.asarray(classes)
    piv, gap = [], np.inf
    for _ in range(nsteps):
        d = np.abs(np.diag(R))
        p = int(np.argmax(d))
        if d[p] <= 0:
            return piv, 0.0
        others = d[cl != cl[p]]
        if others.size:
            gap = min(gap, (d[p] - others.max()) / d[p])
        piv.append(int(cl[p]))
        R = R - np.outer(R[:, p], R[p, :]) / R[p, p]
    return piv, gap


def needed_vectors(A, thr):
    """Number of pivoted-Cholesky vectors after which the largest residual diagonal is <= thr."""
    R = np.array(A, dtype=float)
    k = 0
    while k < R.shape[0]:
        d = np.abs(np.diag(R))
        p = int(np.argmax(d))
        if d[p] <= thr:
            break
        R = R - np.outer(R[:, p], R[p, :]) / R[p, p]
        k += 1
    return k


def elem_scale(A):
    d = np.sqrt(np.abs(np.diag(A)))
    return np.outer(d, d)


# ----------------------------------------------------------------------------- part 1: NumPy routine
def np_case(A, thr, dtype="float64"):
    """Run the real routine on one matrix, handed over in the given dtype (a symmetric PSD matrix may
    legitimately arrive as an integer array -- a Hubbard-U matrix, B @ B.T of an integer B -- or in single
    precision); returns (violates, signature, detail)."""
    from ad_afqmc import pyscf_interface as pi

    n = A.shape[0]
    name = "pyscf_interface.modified_cholesky" + ("" if dtype == "float64" else "[%s-input]" % dtype)
    Ain = np.array(A, dtype=dtype)
    A = np.array(Ain, dtype=float)          # what the caller actually passed, exactly
    try:
        with warnings.catch_warnings():
            warnings.simplefilter("ignore")
            L = np.asarray(pi.modified_cholesky(Ain, thr))
    except Exception as e:  # a routine that refuses a valid PSD input violates the property
        return True, name + ":raises", dict(exception=repr(e)[:300], matrix=A, threshold=thr, dtype=dtype)
    if L.ndim != 2 or L.shape[1] != n:
        return True, name + ":bad-shape", dict(shape=list(L.shape), dtype=dtype)
    L = np.asarray(L, dtype=float)
    rec = L.T @ L
    err = np.abs(A - rec)
    # the routine divides every accepted vector by sqrt(delta + 1e-10): each of the <= n vectors leaves a
    # positive semi-definite residue of at most 1e-10 per element that no later pivot is obliged to remove
    # single-precision input: the routine may work at the precision it was given (1e-6 relative ~ 8 float32 ulps)
    tol = thr + n * REG_SLACK + (ROUND32 if dtype == "float32" else ROUND) * elem_scale(A)
    ok = np.all(np.isfinite(rec)) and np.all(err <= tol)
    if ok:
        return False, "", dict(nvec=L.shape[0])
    need = needed_vectors(A, thr)
    if L.shape[0] == n - 1 and need == n:
        sig = name + ":last-vector-dropped-when-loop-ends-on-size-limit"
    elif L.shape[0] < need:
        sig = name + ":too-few-vectors"
    else:
        sig = name + ":reconstruction-error>threshold"
    return True, sig, dict(max_err=float(np.nanmax(err)), threshold=thr, n_vectors_returned=int(L.shape[0]),
                           n_vectors_needed=int(need), size=n, matrix=A, reconstructed=rec, input_dtype=dtype,
                           vectors=L)


def job_np(cfg):
    res = Result()
    n = cfg["n"]
    cat = gram_catalogue(n)
    sc = scalings(n)
    lo, hi = cfg["shard"]
    for idx in range(lo, min(hi, len(cat))):
        M, ncol, rk = cat[idx]
        for isc, d in enumerate(sc):
            A = (M * np.outer(d, d)).astype(float)
            for thr in THRESHOLDS:
                bad, sig, det = np_case(A, thr)
                res.add(states=1, transitions=1, evaluations=1, traces=1)
                res.guard("np_rank%d_of_%d" % (rk, n))
                if bad:
                    res.violation(sig, dict(part="np", n=n, index=idx, scaling=isc, threshold=thr), det)
                elif det["nvec"] == n:
                    res.guard("np_returned_full_size")
            if isc == 0:
                res.nontrivial(("np", n, idx))
                # the unscaled Gram matrix in its native integer dtype and as a single-precision copy
                for dt in ("int64", "float32"):
                    for thr in THRESHOLDS:
                        bad, sig, det = np_case(M, thr, dt)
                        res.add(states=1, transitions=1, evaluations=1, traces=1)
                        res.guard("np_%s_input_cases" % dt)
                        if bad:
                            res.violation(sig, dict(part="np", n=n, index=idx, scaling=isc, threshold=thr, dtype=dt), det)
        if idx in (lo, lo + 1) and M.any():
            res.sample(dict(routine="pyscf_interface.modified_cholesky", n=n, B_BT=M.tolist(), columns=ncol, rank=rk,
                            scalings=len(sc), thresholds=THRESHOLDS))
    return res


# ----------------------------------------------------------------------------- part 2: JAX routine
_JAXFUN = {}
_SPY = {}


def _jax_funs(n, r):
    """vmapped primal reconstruction and jvp of L^T L for static (size n, n_chol r) -- the real routine."""
    key = (n, r)
    if key not in _JAXFUN:
        import jax
        import jax.numpy as jnp
        from ad_afqmc import linalg_utils as lu

        modchol = _SPY.get("orig", lu.modified_cholesky)  # never the spy of part 4 (workers are reused)

        def recon(A):
            L = modchol(A, n, r)
            return L.T @ L

        prim = jax.jit(jax.vmap(recon))
        tang = jax.jit(jax.vmap(lambda A, T: jax.jvp(recon, (A,), (T,))[1]))
        _JAXFUN[key] = (prim, tang)
    return _JAXFUN[key]


def sym_tangents(n):
    out = []
    for p in range(n):
        for q in range(p, n):
            T = np.zeros((n, n))
            T[p, q] = 1.0
            T[q, p] = 1.0
            out.append(((p, q), T))
    return out


def fd_admissible(M, d, T, r, hmax):
    """Input-side pre-check: central differences of the fixed-count routine are meaningful only where it
    is differentiable, i.e. the pivot sequence (decided on the *unscaled* matrix, as the routine does) is the
    same, with a safe margin, at A and A +- hmax*T and the pivoted block stays safely positive definite.  For
    full rank (r == size) the reconstruction is the identity map for every pivot order, so only positive
    definiteness of A +- hmax*T is required.  M, T are in congruence-scaled coordinates, A = D M D."""
    n = M.shape[0]
    if r == 0:
        return False, "rank0"
    if r == n:
        lam = np.linalg.eigvalsh(M)[0]
        return (lam > 8 * hmax), "full-rank"
    DD = np.outer(d, d)
    seqs = []
    for s in (0.0, 1.0, -1.0):
        piv, gap = ref_pivots((M + s * hmax * T) * DD, r)
        if len(piv) < r or gap < 0.05:
            return False, "pivot-tie"
        seqs.append(tuple(piv))
    if not (seqs[0] == seqs[1] == seqs[2]):
        return False, "pivot-change"
    P = list(seqs[0])
    lam = np.linalg.eigvalsh(M[np.ix_(P, P)])[0]
    if lam < 0.1:
        return False, "pivot-block-ill-conditioned"
    return True, "rank-deficient"


def jax_group(n, r, mats, scal, deriv_labels, res, case_base):
    """mats: list of (index, int matrix M of rank r); scal: list of (label, d).  Checks exactness at
    n_chol = rank and the jvp against the h-ladder on every symmetric basis tangent."""
    import jax.numpy as jnp

    prim, tang = _jax_funs(n, r)
    tans = sym_tangents(n)
    As, Ms, meta = [], [], []
    for idx, M in mats:
        for lab, d in scal:
            DD = np.outer(d, d)
            As.append(M * DD)
            Ms.append((M.astype(float), d, DD))
            meta.append((idx, lab))
    As = np.array(As, dtype=float)
    rec = np.asarray(prim(jnp.asarray(As)))
    res.add(states=len(As), transitions=len(As), evaluations=len(As), traces=len(As))
    for k in range(len(As)):
        A = As[k]
        sc = elem_scale(A)
        err = np.abs(rec[k] - A)
        ok = np.all(np.isfinite(rec[k])) and np.all(err <= EXACT_TOL * sc + 1e-300)
        res.guard("jax_exact_rank%d_of_%d" % (r, n))
        if not ok:
            res.violation("linalg_utils.modified_cholesky:not-exact-at-n_chol=rank",
                          dict(case_base, n=n, rank=r, index=meta[k][0], scaling=meta[k][1], what="exact"),
                          dict(matrix=A, reconstructed=rec[k], max_err=float(np.nanmax(err))))
    # derivative: every symmetric basis tangent (congruence-scaled, still a basis), h-ladder
    At, Tt, info = [], [], []
    for k in range(len(As)):
        M, d, DD = Ms[k]
        if meta[k][1] not in deriv_labels:
            continue
        for (pq, T) in tans:
            okfd, why = fd_admissible(M, d, T, r, FD_H[0])
            At.append(As[k])
            Tt.append(T * DD)
            info.append((k, pq, okfd, why))
    At, Tt = np.array(At), np.array(Tt)
    jv = np.asarray(tang(jnp.asarray(At), jnp.asarray(Tt)))
    res.add(transitions=len(At), evaluations=len(At), traces=len(At))
    sel = [i for i, t in enumerate(info) if t[2]]
    fds = {}
    if sel:
        for h in FD_H[1:]:
            fp = np.asarray(prim(jnp.asarray(At[sel] + h * Tt[sel])))
            fm = np.asarray(prim(jnp.asarray(At[sel] - h * Tt[sel])))
            fds[h] = (fp - fm) / (2 * h)
            res.add(evaluations=2 * len(sel), traces=2 * len(sel))
    h1, h2 = FD_H[1], FD_H[2]
    for j, i in enumerate(sel):
        k, pq, _, why = info[i]
        DD = Ms[k][2]
        if not np.all(np.isfinite(jv[i])):
            continue  # reported below
        e1 = np.abs(jv[i] - fds[h1][j]) / DD
        e2 = np.abs(jv[i] - fds[h2][j]) / DD
        rich = (4 * fds[h2][j] - fds[h1][j]) / 3.0
        er = np.abs(jv[i] - rich) / DD
        res.guard("jvp_compared_" + why)
        if not np.all(er <= FD_TOL):
            res.violation("linalg_utils.modified_cholesky:jvp!=central-difference",
                          dict(case_base, n=n, rank=r, index=meta[k][0], scaling=meta[k][1], what="jvp", tangent=list(pq)),
                          dict(matrix=As[k], tangent=Tt[i], jvp=jv[i], fd_h=[h1, h2], fd=[fds[h1][j], fds[h2][j]],
                               err_h1=float(e1.max()), err_h2=float(e2.max()), err_richardson=float(er.max())))
        elif e2.max() < 1e-10:
            res.guard("jvp_fd_exact_low_degree")
    for i, t in enumerate(info):
        k, pq, okfd, why = t
        if not np.all(np.isfinite(jv[i])):
            res.violation("linalg_utils.modified_cholesky:jvp-not-finite",
                          dict(case_base, n=n, rank=r, index=meta[k][0], scaling=meta[k][1], what="jvp", tangent=list(pq)),
                          dict(matrix=As[k], tangent=Tt[i], jvp=jv[i]))
        elif not okfd:
            res.guard("jvp_finite_only_" + why)
    return len(As)


def job_jax(cfg):
    res = Result()
    n, seed = cfg["n"], cfg["seed"]
    cat = gram_catalogue(n)
    scal = _scal_list(n, seed)
    by_rank = {}
    for idx, (M, ncol, rk) in enumerate(cat):
        by_rank.setdefault(rk, []).append((idx, M))
    for rk in sorted(by_rank):
        if rk == 0:
            res.guard("jax_rank0_outside_statement", len(by_rank[rk]))
            continue
        if cfg.get("rank") is not None and rk != cfg["rank"]:
            continue
        mats = by_rank[rk]
        lo, hi = cfg.get("shard", (0, len(mats)))
        mats = mats[lo:hi]
        if not mats:
            continue
        if n <= 3:
            deriv = [s[0] for s in scal]
        else:  # identity, mild and one fully graded scaling
            graded = [lab for lab, d in scal if tuple(d) == (1e-3, 1.0, 1e3, 1.0)]
            deriv = ["s0", "mild"] + graded
        for a in range(0, len(mats), 2000):
            jax_group(n, rk, mats[a:a + 2000], scal, deriv, res, dict(part="jax", seed=seed))
        for idx, M in mats:
            res.nontrivial(("jax", n, idx))
        res.sample(dict(routine="linalg_utils.modified_cholesky", n=n, n_chol=rk, B_BT=mats[0][1].tolist(),
                        scalings=len(scal), tangents=len(sym_tangents(n)), h_ladder=FD_H))
    return res


# ----------------------------------------------------------------------------- part 3: chunked_cholesky
_GC_H = """
H    S
     13.0107010              0.19682158E-01   0.0
      1.9622572              0.13796524       0.0
      0.44453796             0.47831935       0.0
      0.12194962             0.0              1.0
H    P
      0.8000000              1.0000000
"""
BOND_SCALE = [1.0, 0.85, 1.25, 1.6]
CMAX_SMALL = [1, 2, 3]

# name -> (atoms as (symbol, xyz) at scale 1, basis, charge, spin); coordinates in Angstrom
MOLECULES = {
    "H2/sto-3g": ([("H", (0, 0, 0)), ("H", (0, 0, 0.74))], "sto-3g", 0, 0),
    "H2/6-31g": ([("H", (0, 0, 0)), ("H", (0, 0, 0.74))], "6-31g", 0, 0),
    "H2/general-contracted-sp": ([("H", (0, 0, 0)), ("H", (0, 0, 0.74))], "gc", 0, 0),
    "H4chain/sto-3g": ([("H", (0, 0, 0.9 * k)) for k in range(4)], "sto-3g", 0, 0),
    "H4chain/6-31g": ([("H", (0, 0, 0.9 * k)) for k in range(4)], "6-31g", 0, 0),
    "H4ring/sto-3g": ([("H", (1.0, 0, 0)), ("H", (0, 1.1, 0)), ("H", (-1.0, 0, 0)), ("H", (0, -1.1, 0))], "sto-3g", 0, 0),
    "LiH/sto-3g": ([("Li", (0, 0, 0)), ("H", (0, 0, 1.6))], "sto-3g", 0, 0),
    "LiH/6-31g": ([("Li", (0, 0, 0)), ("H", (0, 0, 1.6))], "6-31g", 0, 0),
    "H2O/sto-3g": ([("O", (0, 0, 0)), ("H", (0, 0.757, 0.587)), ("H", (0, -0.757, 0.587))], "sto-3g", 0, 0),
    "H2O/6-31g": ([("O", (0, 0, 0)), ("H", (0, 0.757, 0.587)), ("H", (0, -0.757, 0.587))], "6-31g", 0, 0),
    "LiH/cc-pvdz": ([("Li", (0, 0, 0)), ("H", (0, 0, 1.6))], "cc-pvdz", 0, 0),
}
MOL_QUICK = ["H2/sto-3g", "H2/6-31g", "H2/general-contracted-sp", "H4chain/sto-3g", "H4chain/6-31g", "LiH/sto-3g"]


def build_mol(name, scale):
    from pyscf import gto

    atoms, basis, charge, spin = MOLECULES[name]
    if basis == "gc":
        basis = {"H": gto.basis.parse(_GC_H)}
    atom = [(s, tuple(scale * np.array(x, dtype=float))) for s, x in atoms]
    return gto.M(atom=atom, basis=basis, charge=charge, spin=spin, verbose=0, unit="Angstrom")


def mol_case(name, scale, thr, cmax=10):
    """One call of the real chunked_cholesky.  cmax sets the routine's preallocated buffer (cmax*nao vectors).
    Contract: a call may raise when the buffer cannot hold the vectors the threshold needs, but whatever it
    RETURNS must reproduce the ERI matrix to the threshold; with a sufficient buffer it must not raise."""
    from ad_afqmc import pyscf_interface as pi

    mol = build_mol(name, scale)
    nao = mol.nao_nr()
    eri = mol.intor("int2e").reshape(nao * nao, nao * nao)
    shells = [(int(mol.bas_angular(i)), int(mol.bas_nctr(i))) for i in range(mol.nbas)]
    base = dict(molecule=name, bond_scale=scale, threshold=thr, cmax=cmax, buffer=cmax * nao, nao=nao, shells=shells)
    try:
        L = np.asarray(pi.chunked_cholesky(mol, max_error=thr, cmax=cmax))
    except Exception as e:
        need = needed_vectors(eri, thr)
        # the loop always prepares one candidate beyond the accepted vectors: need+1 rows; +-2 rows of round-off grey zone
        if need + 1 > cmax * nao - 2:
            return "", dict(base, n_vectors=0, raised=True, n_vectors_needed=need, exception=repr(e)[:120])
        return "raises-although-buffer-sufficient", dict(base, n_vectors=0, raised=True, n_vectors_needed=need, exception=repr(e)[:300])
    rec = L.T @ L
    err = np.abs(eri - rec)
    tol = thr + ROUND * elem_scale(eri)
    bad = not (L.ndim == 2 and L.shape[1] == nao * nao and np.all(np.isfinite(rec)) and np.all(err <= tol))
    worst = np.unravel_index(np.argmax(err), err.shape)
    det = dict(base, n_vectors=int(L.shape[0]), raised=False,
               max_err=float(err.max()), worst_element=[int(x) for x in worst], eri_max=float(np.abs(eri).max()))
    if bad and L.shape[0] >= cmax * nao - 1:
        return "truncated-factorisation-returned-when-buffer-too-small", dict(det, n_vectors_needed=needed_vectors(eri, thr))
    return ("reconstruction-error>threshold" if bad else ""), det


def job_mol(cfg):
    res = Result()
    for scale in cfg["scales"]:
        nvec = []
        # the buffer axis: cmax*nao preallocated vectors, from far too small to the default
        for cmax in cfg.get("cmaxs", CMAX_SMALL):
            for thr in THRESHOLDS:
                bad, det = mol_case(cfg["mol"], scale, thr, cmax)
                res.add(states=1, transitions=1, evaluations=det["nao"] ** 4, traces=1)
                res.guard("chunked_small_buffer_raised" if det["raised"] else "chunked_small_buffer_returned")
                if bad:
                    res.violation("pyscf_interface.chunked_cholesky:" + bad,
                                  dict(part="mol", mol=cfg["mol"], scale=scale, threshold=thr, cmax=cmax), det)
        for thr in THRESHOLDS:
            bad, det = mol_case(cfg["mol"], scale, thr)
            res.add(states=1, transitions=1, evaluations=det["nao"] ** 4, traces=1)
            nvec.append(det["n_vectors"])
            res.guard("chunked_cases")
            if any(l > 0 for l, _ in det["shells"]):
                res.guard("chunked_with_p_or_d_shells")
            if any(c > 1 for _, c in det["shells"]):
                res.guard("chunked_with_general_contraction")
            if bad:
                res.violation("pyscf_interface.chunked_cholesky:" + bad,
                              dict(part="mol", mol=cfg["mol"], scale=scale, threshold=thr), det)
        if nvec[0] < nvec[-1]:
            res.guard("chunked_threshold_changes_vector_count")
        res.nontrivial(("mol", cfg["mol"], scale))
    res.sample(dict(routine="pyscf_interface.chunked_cholesky", molecule=cfg["mol"], bond_scales=cfg["scales"],
                    thresholds=THRESHOLDS, n_vectors_last=nvec))
    return res


# ----------------------------------------------------------------------------- part 4: use inside the sampler


def _install_spy():
    """Rebind linalg_utils.modified_cholesky (from outside, no repository change) to a transparent spy that
    calls the real routine and reports primal/tangent input and output through jax.debug.callback."""
    if _SPY:
        return _SPY
    from ad_afqmc import config

    config.afqmc_config["use_mpi"] = False
    config.setup_jax()
    import jax
    import jax.numpy as jnp
    from ad_afqmc import linalg_utils as lu

    orig = lu.modified_cholesky
    rec, static = [], []

    def _rec(norb, nchol, mat, mat_t, out, out_t):
        rec.append((np.array(mat), np.array(mat_t), np.array(out), np.array(out_t)))
        static.append((norb, nchol, tuple(np.shape(mat))))

    def spy(mat, norb, nchol):
        from functools import partial

        _rec_s = partial(_rec, int(norb), int(nchol))  # the static arguments travel with every execution

        @jax.custom_jvp
        def inner(m):
            out = orig(m, norb, nchol)
            jax.debug.callback(_rec_s, m, jnp.zeros_like(m), out, jnp.zeros_like(out))
            return out

        @inner.defjvp
        def inner_jvp(p, t):
            out, out_t = jax.jvp(lambda m: orig(m, norb, nchol), p, t)
            jax.debug.callback(_rec_s, p[0], t[0], out, out_t)
            return out, out_t

        return inner(mat)

    lu.modified_cholesky = spy
    _SPY.update(rec=rec, static=static, orig=orig)
    return _SPY


def sym4(op):
    """The symmetrisation the property speaks about (pair exchange and simultaneous transposition)."""
    return (op + op.transpose(2, 3, 0, 1) + op.transpose(1, 0, 3, 2) + op.transpose(3, 2, 1, 0)) / 4.0


def sym8(op):
    s = sym4(op)
    return (s + s.transpose(1, 0, 2, 3)) / 2.0


def pair_classes(norb):
    cl = np.zeros((norb, norb), dtype=int)
    k = 0
    for i in range(norb):
        for j in range(i, norb):
            cl[i, j] = cl[j, i] = k
            k += 1
    return cl.reshape(-1), k


def eri_letters(norb, nchol, seed, thorough):
    """Sets of n_chol linearly independent symmetric matrices: every subset of the symmetric unit basis of
    that size (exhaustive) and generic dense sets (seed-rotated catalogue)."""
    from mc import alphabets as al

    basis = sym_tangents(norb)
    wts = [0.5, 0.37, 0.61, 0.29, 0.44, 0.7, 0.33, 0.56, 0.41, 0.65]  # pairwise different strengths: no accidental pivot ties
    out = []
    for combo in itertools.combinations(range(len(basis)), nchol):
        out.append(("units" + "".join("[%d%d]" % basis[k][0] for k in combo), np.array([wts[(k + seed) % len(wts)] * basis[k][1] for k in combo])))
    for k in range(3 if thorough else 2):
        Ls = np.array([al.dense_sym(norb, seed + 3 * k, 10 + g, 0.5) + (0.3 * np.eye(norb) if g == 0 else 0) for g in range(nchol)])
        out.append(("dense%d" % k, Ls))
    return out


def mol_eri_letter(name):
    """Molecular electron-repulsion tensor in the orthonormal (Loewdin) basis and its exact rank."""
    mol = build_mol(name, 1.0)
    nao = mol.nao_nr()
    S = mol.intor("int1e_ovlp")
    w, v = np.linalg.eigh(S)
    X = v @ np.diag(w ** -0.5) @ v.T
    eri = mol.intor("int2e")
    eri = np.einsum("pqrs,pi,qj,rk,sl->ijkl", eri, X, X, X, X)
    ev = np.linalg.eigvalsh(eri.reshape(nao * nao, nao * nao))
    rank = int((ev > 1e-9 * ev.max()).sum())
    return nao, rank, eri


class SamplerRig:
    """One static configuration (norb, n_chol) of the real sampler, UHF trial, unrestricted walkers."""

    def __init__(self, norb, nchol, seed):
        spy = _install_spy()
        import jax
        import jax.numpy as jnp
        from ad_afqmc import hamiltonian, propagation, sampling
        from ad_afqmc import wavefunctions as wf
        from mc import alphabets as al

        self.jnp, self.jax, self.spy = jnp, jax, spy
        self.norb, self.nchol = norb, nchol
        nelec = (1, 1)
        h0, h1, chol = al.small_ham(norb, nchol, seed)
        self.trial = wf.uhf(norb, nelec, n_opt_iter=3)
        C = np.eye(norb)
        self.wave_data = {"mo_coeff": [jnp.asarray(C[:, :1]), jnp.asarray(C[:, :1])]}
        self.wave_data["rdm1"] = self.trial.get_rdm1(self.wave_data)
        self.ham = hamiltonian.hamiltonian(norb)
        hd = {"h0": h0, "h1": jnp.asarray(h1), "chol": jnp.asarray(chol.reshape(nchol, -1)), "ene0": 0.0}
        self.prop = propagation.propagator_unrestricted(dt=0.01, n_walkers=2)
        hd = self.ham.build_measurement_intermediates(hd, self.trial, self.wave_data)
        self.hd = self.ham.build_propagation_intermediates(hd, self.prop, self.trial, self.wave_data)
        self.pd = self.prop.init_prop_data(self.trial, self.wave_data, self.hd, None)
        self.pd["key"] = jax.random.PRNGKey(seed + 1)
        self.smp = sampling.sampler(n_prop_steps=1, n_ene_blocks=1, n_sr_blocks=1, n_blocks=1)
        self.f = lambda op: self.smp.propagate_phaseless_ad_1(self.ham, dict(self.hd), 0.0, op, self.prop,
                                                              dict(self.pd), self.trial, self.wave_data)[0]

    def primal(self, op):
        del self.spy["rec"][:]
        e = self.f(self.jnp.asarray(op))
        self.jax.effects_barrier()
        assert len(self.spy["rec"]) == 1, "spy saw %d calls" % len(self.spy["rec"])
        m, _, L, _ = self.spy["rec"][0]
        return float(e), m, L

    def tangent(self, op, top):
        del self.spy["rec"][:]
        e, et = self.jax.jvp(self.f, (self.jnp.asarray(op),), (self.jnp.asarray(top),))
        self.jax.effects_barrier()
        assert len(self.spy["rec"]) == 1, "spy saw %d calls" % len(self.spy["rec"])
        m, mt, L, Lt = self.spy["rec"][0]
        return float(e), float(et), m, mt, L, Lt


def sampler_letter(rig, label, eri, seed, res, case_base, only_tangent=None):
    """One ERI letter through the real propagate_phaseless_ad_1."""
    norb, nchol = rig.norb, rig.nchol
    n2 = norb * norb
    cl, ncl = pair_classes(norb)
    from mc import alphabets as al

    rng_free = al.dense_sym(n2, seed, 77, 0.3).reshape(norb, norb, norb, norb)
    junk = rng_free - sym4(rng_free)                     # removed by the symmetrisation
    op = eri + junk
    M = sym4(op).reshape(n2, n2)
    scale = np.abs(M).max()
    case = dict(case_base, letter=label)
    viol = []
    e, m, L = rig.primal(op)
    res.add(states=1, transitions=1, evaluations=1, traces=1)
    st = rig.spy["static"][-1]
    if st[:2] != (norb, nchol) or st[2] != (n2, n2):
        res.violation("sampler.propagate_phaseless_ad_1:wrong-cholesky-arguments", dict(case, what="args"), dict(static=list(st)))
        viol.append("args")
    if not np.abs(m - M).max() <= 1e-12 * scale:
        res.violation("sampler.propagate_phaseless_ad_1:matrix-passed!=symmetrised-ERI", dict(case, what="sym"),
                      dict(err=float(np.abs(m - M).max())))
        viol.append("sym")
    rec = L.T @ L
    res.guard("sampler_energy_finite" if np.isfinite(e) else "sampler_energy_not_finite(not judged here)")
    if not (np.all(np.isfinite(rec)) and np.abs(rec - M).max() <= EXACT_TOL * scale):
        res.violation("sampler.propagate_phaseless_ad_1:cholesky-of-symmetrised-ERI-not-exact", dict(case, what="exact"),
                      dict(max_err=float(np.nanmax(np.abs(rec - M))), energy=e, n_chol=nchol))
        viol.append("exact")
    res.guard("sampler_cases")
    # derivative through the real sampler
    hmax, h1, h2 = FD_H
    tans = []
    for a in range(n2):
        for b in range(a, n2):
            i, j, k, l = a // norb, a % norb, b // norb, b % norb
            E = np.zeros((norb,) * 4)
            E[i, j, k, l] = 1.0
            if i <= j and k <= l and cl[a] <= cl[b]:
                T8 = sym8(E)
                tans.append(("sym8", (i, j, k, l), scale * T8 / T8.max()))
            tans.append(("unit", (i, j, k, l), scale * E))
    for kind, ijkl, T in tans:
        if only_tangent is not None and [kind, list(ijkl)] != only_tangent:
            continue
        e, et, m, mt, L, Lt = rig.tangent(op, T)
        res.add(transitions=1, evaluations=1, traces=1)
        tcase = dict(case, what="jvp", tangent=[kind, list(ijkl)])
        drec = Lt.T @ L + L.T @ Lt
        res.guard("sampler_energy_tangent_finite" if np.isfinite(et) else "sampler_energy_tangent_not_finite(not judged here)")
        if not (np.all(np.isfinite(drec)) and np.all(np.isfinite(Lt))):
            res.violation("sampler.propagate_phaseless_ad_1:jvp-not-finite", tcase, dict(energy_tangent=et, d_reconstructed=drec))
            viol.append(tcase["tangent"])
            continue
        if kind == "unit":
            res.guard("sampler_jvp_finite_unit_tangent")
            continue
        TM = sym4(T).reshape(n2, n2)
        if not np.abs(mt - TM).max() <= 1e-12 * scale:
            res.violation("sampler.propagate_phaseless_ad_1:tangent-passed!=symmetrised-tangent", tcase, dict(err=float(np.abs(mt - TM).max())))
            viol.append(tcase["tangent"])
            continue
        # admissibility on the inputs
        seqs, ok = [], True
        for s in (0.0, 1.0, -1.0):
            piv, gap = ref_pivots(M + s * hmax * TM, nchol, cl)
            if len(piv) < nchol or gap < 0.05:
                ok = False
                break
            seqs.append(tuple(piv))
        if ok and not (seqs[0] == seqs[1] == seqs[2]):
            ok = False
        if ok:
            rows = [int(np.where(cl == c)[0][0]) for c in seqs[0]]
            if np.linalg.eigvalsh(M[np.ix_(rows, rows)])[0] < 0.05 * scale:
                ok = False
        if not ok:
            res.guard("sampler_jvp_finite_only_pivot_tie_or_change")
            continue
        fds = []
        for h in (h1, h2):
            _, _, Lp = rig.primal(op + h * T)
            _, _, Lm = rig.primal(op - h * T)
            fds.append((Lp.T @ Lp - Lm.T @ Lm) / (2 * h))
            res.add(evaluations=2, traces=2)
        rich = (4 * fds[1] - fds[0]) / 3.0
        er = np.abs(drec - rich).max() / scale
        res.guard("sampler_jvp_compared")
        if np.abs(rich).max() > 1e-6 * scale:
            res.guard("sampler_jvp_compared_nonzero")
        if not er <= FD_TOL:
            res.violation("sampler.propagate_phaseless_ad_1:jvp!=central-difference-of-reconstructed-ERI", tcase,
                          dict(err_richardson=float(er), err_h1=float(np.abs(drec - fds[0]).max()), err_h2=float(np.abs(drec - fds[1]).max()),
                               jvp=drec, fd=fds[1]))
            viol.append(tcase["tangent"])
    return viol


def job_sampler(cfg):
    res = Result()
    seed, thorough = cfg["seed"], cfg["tier"] == "thorough"
    if cfg.get("mol"):
        norb, nchol, eri = mol_eri_letter(cfg["mol"])
        letters = [("mol:" + cfg["mol"], eri)]
    else:
        norb, nchol = cfg["norb"], cfg["nchol"]
        letters = [(lab, np.einsum("gij,gkl->ijkl", Ls, Ls)) for lab, Ls in eri_letters(norb, nchol, seed, thorough)]
        lo, hi = cfg.get("shard", (0, len(letters)))
        letters = letters[lo:hi]
    rig = SamplerRig(norb, nchol, seed)
    for lab, eri in letters:
        base = dict(part="sampler", norb=norb, nchol=nchol, seed=seed, tier=cfg["tier"], mol=cfg.get("mol"))
        try:
            sampler_letter(rig, lab, eri, seed, res, base)
        except Exception as e:
            import traceback

            tb = traceback.extract_tb(e.__traceback__)
            if not any("ad_afqmc" in f.filename for f in tb) or isinstance(e, AssertionError):
                raise  # a harness problem, not a verdict
            res.violation("sampler.propagate_phaseless_ad_1:raises", dict(base, letter=lab, what="raises"),
                          dict(exception=repr(e)[:300], where="%s:%d" % (tb[-1].filename, tb[-1].lineno)))
        res.nontrivial(("sampler", norb, nchol, lab))
    res.sample(dict(routine="sampling.sampler.propagate_phaseless_ad_1 (spy on linalg_utils.modified_cholesky)", norb=norb,
                    n_chol=nchol, eri_letters=[l for l, _ in letters][:8], n_letters=len(letters)))
    return res


# ----------------------------------------------------------------------------- run / replay
def _shards(total, k):
    step = max(1, -(-total // k))
    return [(a, min(a + step, total)) for a in range(0, total, step)]


def job(cfg):
    return {"np": job_np, "jax": job_jax, "mol": job_mol, "sampler": job_sampler}[cfg["part"]](cfg)


def run(ctx):
    ctx.rule = ("matrices = every distinct B B^T with B in {-1,0,1}^(n x r), r <= n (all multisets of <= n rank-one "
                "terms, de-duplicated) x every congruence scaling D in {1e-3,1,1e3}^n (+ one generic mild scaling for the "
                "JAX routine) x thresholds {1e-2,1e-6,1e-10} (NumPy routine; the unscaled matrices additionally as int64 and float32 arrays) / n_chol = rank (JAX routine) x every "
                "symmetric basis tangent (jvp vs central differences on an h-ladder, Richardson-extrapolated; at n = 4 the "
                "derivative is taken for the scalings {1, mild, graded} only); molecules x bond scalings x thresholds x buffer "
                "sizes cmax in {1,2,3,10} for chunked_cholesky against mol.intor('int2e') (it may raise iff the buffer cannot hold the "
                "needed vectors; whatever it returns must be within the threshold); the real propagate_phaseless_ad_1 (spy on the Cholesky call) for "
                "every n_chol-subset of the symmetric unit basis and dense sets as Cholesky vectors, every unit tensor tangent "
                "(finite) and every 8-fold symmetric basis tangent (vs central differences); a state is one (routine, matrix, "
                "scaling, threshold | tangent); non-trivial & distinct = distinct non-zero Gram matrices / molecules / ERI letters")
    ctx.assume("float64: 'within the threshold' is read as threshold + n*1e-10 (the NumPy routine's own regulariser, once per vector) + 1e-12*sqrt(A_ii A_jj) "
               "round-off; 'exact' as 1e-9*sqrt(A_ii A_jj)")
    ctx.assume("the derivative statement is checked where the fixed-count routine is differentiable: same pivot sequence (margin 5%) at A and "
               "A +- h T and a positive definite pivot block, decided on the inputs by a reference pivoted Cholesky; elsewhere only "
               "finiteness is demanded.  Rank 0 and n_chol != rank are outside the statement and not judged")
    ctx.assume("pyscf mol.intor('int2e') is the reference for chunked_cholesky; molecules with nao <= 19 so that the routine's buffer "
               "(10*nao vectors) cannot overflow")
    seed, tier = ctx.seed, ctx.tier
    nmax = 4 if ctx.thorough else 3
    jobs = []
    # sampler rigs first (compilation heavy), then JAX groups, then the NumPy shards
    cfgs = [(2, 1), (2, 2), (2, 3), (3, 1), (3, 2), (3, 3)] + ([(3, 4), (3, 6), (4, 2)] if ctx.thorough else [])
    for norb, nchol in cfgs:
        nl = len(eri_letters(norb, nchol, seed, ctx.thorough))
        for sh in _shards(nl, -(-nl // 6)):
            jobs.append(dict(part="sampler", norb=norb, nchol=nchol, shard=sh, seed=seed, tier=tier))
    for m in ["H2/sto-3g"] + (["H4chain/sto-3g"] if ctx.thorough else []):
        jobs.append(dict(part="sampler", mol=m, seed=seed, tier=tier))
    for n in range(nmax, 0, -1):
        if n <= 3:
            jobs.append(dict(part="jax", n=n, seed=seed))
        else:
            cat = gram_catalogue(n)
            for rk in range(n, 0, -1):
                cnt = sum(1 for c in cat if c[2] == rk)
                for sh in _shards(cnt, 1 if cnt < 3000 else 6):
                    jobs.append(dict(part="jax", n=n, rank=rk, shard=sh, seed=seed))
    names = list(MOLECULES) if ctx.thorough else MOL_QUICK
    for m in names:
        scales = BOND_SCALE if ctx.thorough else [BOND_SCALE[seed % len(BOND_SCALE)]]
        jobs.append(dict(part="mol", mol=m, scales=scales, seed=seed))
    for n in range(nmax, 2, -1):
        ncat = len(gram_catalogue(n))
        for sh in _shards(ncat, 4 if n == 3 else 32):
            jobs.append(dict(part="np", n=n, shard=sh, seed=seed))
    # simplest cases first and in-process, so that the first counterexample recorded is the smallest one
    ctx.pmap(job, [dict(part="np", n=n, shard=(0, len(gram_catalogue(n))), seed=seed) for n in (1, 2)], workers=1)
    ctx.pmap(job, jobs)
    ctx.require_guard("jvp_compared_rank-deficient", "jvp_compared_full-rank", "np_rank1_of_2", "np_int64_input_cases", "np_float32_input_cases", "chunked_cases",
                      "chunked_with_p_or_d_shells", "chunked_with_general_contraction", "chunked_threshold_changes_vector_count", "chunked_small_buffer_raised", "chunked_small_buffer_returned",
                      "np_returned_full_size",
                      "sampler_cases", "sampler_jvp_compared_nonzero")


def _scal_list(n, seed):
    return [("s%d" % i, d) for i, d in enumerate(scalings(n))] + [("mild", mild_scaling(n, seed))]


def replay(case):
    part = case["part"]
    if part == "np":
        n = case["n"]
        M = gram_catalogue(n)[case["index"]][0]
        d = scalings(n)[case["scaling"]]
        A = (M * np.outer(d, d)).astype(float)
        dt = case.get("dtype", "float64")
        bad, sig, det = np_case(M if dt != "float64" else A, case["threshold"], dt)
        return bad, dict(signature=sig, **det)
    if part == "jax":
        n, r = case["n"], case["rank"]
        M = gram_catalogue(n)[case["index"]][0]
        scal = [s for s in _scal_list(n, case["seed"]) if s[0] == case["scaling"]]
        res = Result()
        jax_group(n, r, [(case["index"], M)], scal, [s[0] for s in scal], res, dict(part="jax", seed=case["seed"]))
        v = [x for x in res.violations if x["case"].get("what") == case["what"]
             and (case["what"] == "exact" or x["case"].get("tangent") == list(case["tangent"]))]
        return (len(v) > 0, v[0]["detail"] if v else {})
    if part == "mol":
        bad, det = mol_case(case["mol"], case["scale"], case["threshold"], case.get("cmax", 10))
        return bool(bad), det
    if part == "sampler":
        if case.get("mol"):
            norb, nchol, eri = mol_eri_letter(case["mol"])
        else:
            norb, nchol = case["norb"], case["nchol"]
            Ls = [L for lab, L in eri_letters(norb, nchol, case["seed"], case["tier"] == "thorough") if lab == case["letter"]][0]
            eri = np.einsum("gij,gkl->ijkl", Ls, Ls)
        rig = SamplerRig(norb, nchol, case["seed"])
        res = Result()
        base = dict(part="sampler", norb=norb, nchol=nchol, seed=case["seed"], tier=case["tier"], mol=case.get("mol"))
        try:
            sampler_letter(rig, case["letter"], eri, case["seed"], res, base,
                           only_tangent=case.get("tangent") if case["what"] == "jvp" else ["none", []])
        except Exception as e:
            return (case["what"] == "raises", dict(exception=repr(e)[:300]))
        v = [x for x in res.violations if x["case"].get("what") == case["what"]]
        return (len(v) > 0, v[0]["detail"] if v else {})
    raise ValueError(part)
