"""C07 -- stochastic reconfiguration is an unbiased, weight-conserving comb; the jitted, NumPy and
MPI gather/scatter implementations agree; R ranks perform the serial comb on the rank-ordered
concatenation under every interleaving.

Engines: mc.combmc (exact comb-offset intervals: the whole count function c_i(zeta) on (0,1), exact
mean), mc.schedmc + mc.vcomm (every schedule of R rank threads over a virtual MPI communicator).

Parts (worker jobs):
  comb     every weight word x every interval between breakpoints (lo+delta, midpoint, hi-delta, robust
           exact ties) x {stochastic_reconfiguration, _uhf, _np, _mpi, _mpi_uhf} (MPI ones with
           not_a_comm and with the R=1 virtual world)
  mpi      every weight word of length R*n x every interval x {_mpi, _mpi_uhf} on R rank threads, one
           canonical schedule, rank 0's offset real and decoy offsets on the other ranks
  sched    ALL schedules (eager / rendezvous / per-send mixed; unpruned, visited-state pruned or
           preemption bounded) of the R rank bodies for representative inputs; one outcome demanded
  wrap     propagator.stochastic_reconfiguration_local/global with the real jax.random (offset =
           uniform(split(key)[1]), key advanced once), on not_a_comm, the R=1 world and R=2 threads;
           not_a_comm vs the R=1 virtual world operation by operation
  hist     operation sequences: every word of length <= 2 (3 thorough) over a menu of populations {real / complex
           walkers, another walker count, another orbital shape, rhf / uhf container} run call after call in ONE
           freshly started interpreter on one communicator object (not_a_comm, R=1 world, R=2 rank threads);
           every kernel's every output compared BY VALUE with input[serial comb selection] -- the result of a
           call must not depend on the calls that preceded it (state kept between calls)
  driver   (thorough) driver.afqmc itself on R=2 rank threads under all schedules with <=1 preemption

The wrapper layer is driven with the propagate()-like words AND with words holding entries far outside
[1e-3, 100] (250, 1e4, 1e-6, huge/tiny letters), for both containers and local/global, and is compared by value
with the NumPy kernel at the same offset.
"""

from __future__ import annotations

import inspect
import itertools
from fractions import Fraction

import numpy as np

from mc import combmc, schedmc, vcomm
from mc.core import HarnessError, Result

ID = "C07"
TECHNIQUE = ("exact enumeration of every comb-offset interval between breakpoints (count functions and their "
             "integral in rational arithmetic) x weight words; all-schedule exploration of rank threads over a "
             "virtual MPI communicator; bounded operation sequences over a population menu in one fresh process "
             "(call results must not depend on the preceding calls); wrappers on weight words far outside [1e-3,100]")
WORKERS = 8
TOL = 1e-9

# letter catalogues: classes (one, zero, fraction, integer > 1, negative, tiny, huge), simple letters first
ALPHABETS = [
    [1.0, 0.0, 0.5, 3.0, -2.0, 1e-12, 1e6],
    [1.0, 0.0, 0.25, 5.0, -3.0, 1e-12, 1e6],
    [2.0, 0.0, 0.5, 3.0, -1.0, 1e-10, 1e7],
    [1.0, 0.0, 0.75, 2.0, -4.0, 1e-12, 1e5],
    [1.0, 0.0, 0.5, 6.0, -0.5, 1e-13, 1e6],
]
FN = {"jit": "sr.stochastic_reconfiguration", "jit_uhf": "sr.stochastic_reconfiguration_uhf",
      "np": "sr.stochastic_reconfiguration_np", "mpi": "sr.stochastic_reconfiguration_mpi",
      "mpi_uhf": "sr.stochastic_reconfiguration_mpi_uhf"}
SERIAL_IMPLS = ["jit", "jit_uhf", "np", "mpi/nac", "mpi/v1", "mpi_uhf/nac", "mpi_uhf/v1"]


def letters(seed, nlet=7):
    return ALPHABETS[seed % len(ALPHABETS)][:nlet]


# ----------------------------------------------------------------------------- library access
_LIB = {}


def lib():
    if not _LIB:
        from ad_afqmc import config

        config.afqmc_config["use_mpi"] = False
        import jax
        import jax.numpy as jnp
        from ad_afqmc import sr

        if not jax.config.jax_enable_x64:
            raise HarnessError("JAX x64 is off; run through ./check")
        _LIB.update(jax=jax, jnp=jnp, sr=sr, config=config)
    return _LIB


class Tagged:
    """Index-tagged walkers: walker i is a tiny matrix whose every entry carries i (real part i+1 for the
    restricted / up block, -(i+1) for the down block, generic imaginary parts scaled by i+1), so an output
    walker identifies the input walker it was copied from, and a mixture of two is not a walker."""

    def __init__(self, N, seed):
        jnp = lib()["jnp"]
        rng = np.random.default_rng(700 + seed)  # picks generic matrices only
        gu = rng.uniform(0.1, 0.9, (3, 2))
        gd = rng.uniform(0.1, 0.9, (3, 1))
        t = np.arange(1, N + 1, dtype=np.float64)[:, None, None]
        self.N = N
        self.up = (t + 1j * t * gu[None]).astype(np.complex128)
        self.dn = (-t + 1j * t * gd[None]).astype(np.complex128)
        self.up_j = jnp.asarray(self.up)
        self.dn_j = jnp.asarray(self.dn)

    def decode(self, block, down=False):
        """tags of an output block, or None if some output walker is not an exact copy of an input one."""
        ref = self.dn if down else self.up
        block = np.asarray(block)
        if block.shape != ref.shape or block.dtype != ref.dtype:
            return None
        r = block[:, 0, 0].real
        if not np.all(np.isfinite(r)):
            return None
        t = np.rint(-r if down else r).astype(np.int64) - 1
        if t.min() < 0 or t.max() >= self.N or not np.array_equal(block, ref[t]):
            return None
        return t.tolist()


def call_serial(impl, T, w_j, zeta):
    """One call of a single-process implementation; returns ([blocks], weights) as NumPy."""
    L = lib()
    sr = L["sr"]
    name, _, commkind = impl.partition("/")
    if name == "jit":
        a, b = sr.stochastic_reconfiguration(T.up_j, w_j, zeta)
        return [np.asarray(a)], np.asarray(b)
    if name == "jit_uhf":
        a, b = sr.stochastic_reconfiguration_uhf([T.up_j, T.dn_j], w_j, zeta)
        return [np.asarray(a[0]), np.asarray(a[1])], np.asarray(b)
    if name == "np":
        a, b = sr.stochastic_reconfiguration_np(T.up_j, w_j, zeta)
        return [np.asarray(a)], np.asarray(b)
    comm = L["config"].not_a_comm() if commkind == "nac" else vcomm.World(1).comm(0)
    try:
        if name == "mpi":
            a, b = sr.stochastic_reconfiguration_mpi(T.up_j, w_j, zeta, comm)
            out = [np.asarray(a)], np.asarray(b)
        elif name == "mpi_uhf":
            a, b = sr.stochastic_reconfiguration_mpi_uhf([T.up_j, T.dn_j], w_j, zeta, comm)
            out = [np.asarray(a[0]), np.asarray(a[1])], np.asarray(b)
        else:
            raise ValueError(impl)
    except vcomm.Abort:  # the virtual world refused the call (mismatched buffers ...): a failure, not a crash
        raise RuntimeError("virtual world: %r" % (comm.world.violation,)) from None
    if commkind == "v1" and comm.world.violation is not None:
        raise RuntimeError("virtual world: %r" % (comm.world.violation,))
    return out


# ----------------------------------------------------------------------------- the oracle
def judge(blocks, weights, T, A, expect_sel):
    """Evaluate every statement of the property on one output population.
    Returns (tags or None, [failure classes], detail)."""
    fails, detail = [], {}
    N = A.N
    tags = T.decode(blocks[0]) if len(blocks) >= 1 else None
    if tags is None:
        fails.append("not-copies-of-existing-walkers")
        detail["block0"] = np.asarray(blocks[0])
    elif len(blocks) == 2:
        tdn = T.decode(blocks[1], down=True)
        if tdn is None:
            fails.append("not-copies-of-existing-walkers")
            detail["block1"] = np.asarray(blocks[1])
            tags = None
        elif tdn != tags:
            fails.append("up-down-copied-from-different-walkers")
            detail.update(tags_up=tags, tags_dn=tdn)
            tags = None
    if tags is not None:
        cnt = [0] * N
        for t in tags:
            cnt[t] += 1
        detail.update(selected=tags, counts=cnt)
        zero_sel = [i for i in range(N) if A.a[i] == 0 and cnt[i] > 0]
        out_fc = [i for i in range(N) if not (A.lo[i] <= cnt[i] <= A.hi[i])]
        if zero_sel:
            fails.append("zero-weight-walker-selected")
            detail["zero_weight_selected"] = zero_sel
        elif out_fc:
            fails.append("count-outside-floor-ceil")
            detail.update(walker=out_fc[0], floor=A.lo[out_fc[0]], ceil=A.hi[out_fc[0]], target=float(A.target[out_fc[0]]))
        elif expect_sel is not None and tags != expect_sel:
            fails.append("differs-from-serial-comb")
        if expect_sel is not None:
            detail["expected"] = expect_sel
    wts = np.asarray(weights)
    Wf = float(A.W)
    if wts.shape != (N,) or wts.dtype.kind != "f" or not np.all(np.isfinite(wts)):
        fails.append("weights-malformed")
        detail["weights"] = wts
    else:
        if not (wts.max() - wts.min()) <= 1e-12 * Wf / N:
            fails.append("survivor-weights-unequal")
            detail["weights"] = wts
        elif not abs(float(np.sum(np.abs(wts))) - Wf) <= TOL * Wf:
            fails.append("total-absolute-weight-not-conserved")
            detail.update(total_out=float(np.sum(np.abs(wts))), total_in=Wf)
    return tags, fails, detail


def _exc_class(e):
    return "exception:%s" % type(e).__name__


def probe_serial(res, impl, T, A, w_j, zeta, expect_sel, case):
    """Run + judge one serial implementation at one offset; records violations; returns tags."""
    try:
        blocks, wts = call_serial(impl, T, w_j, zeta)
    except Exception as e:  # noqa: BLE001 - an exception on a legal input is a failure class
        res.violation("%s:%s" % (FN[impl.split("/")[0]], _exc_class(e)), case, dict(error=str(e)[:300]))
        return None
    tags, fails, detail = judge(blocks, wts, T, A, expect_sel)
    for f in fails:
        res.violation("%s:%s" % (FN[impl.split("/")[0]], f), case, detail)
    return tags


def case_key(v):
    c = v["case"]
    order = {"nac-ops": 0, "comb": 1, "mean": 2, "hist": 3, "wrap": 3, "mpi": 4, "driver": 5}
    L = c.get("letters")
    n = len(L["__a__"]) if isinstance(L, dict) else (len(L) if L is not None else 0)
    return (order.get(c.get("part"), 9), c.get("R", 1), n, c.get("rank", 0))


# ----------------------------------------------------------------------------- part: comb
def job_comb(cfg):
    res = Result()
    L = lib()
    jnp = L["jnp"]
    seed, N = cfg["seed"], cfg["N"]
    let = letters(seed, cfg["nlet"])
    T = Tagged(N, seed)
    impls = cfg["impls"]
    # every implementation runs at the midpoint of every interval; the +-delta end probes (float robustness
    # of the comparison next to a breakpoint) may be restricted to some implementations for the largest N
    ends = [i for i in impls if i not in cfg.get("mid_only", ())]
    rank = 0
    for wd in combmc.words(let, N, cfg["first"]):
        rank += 1
        w = [let[i] for i in wd]
        if not any(w):
            continue
        A = combmc.Analysis(w)
        if A.mean_exact != A.target:
            raise HarnessError("reference comb is biased for %r" % (w,))
        w_j = jnp.asarray(np.asarray(w, dtype=np.float64))
        base = dict(part="comb", letters=w, seed=seed, rank=rank)
        deviating = {}  # impl -> {interval index: observed counts at the midpoint}
        undecodable = set()
        for ii, I in enumerate(A.intervals):
            if not I["probes"]:
                res.guard("intervals_too_short_to_probe")
                continue
            for ip, z in enumerate(I["probes"]):
                if combmc.comb_float(w, z) != I["sel"]:
                    raise HarnessError("float and exact reference combs differ away from a breakpoint: %r zeta=%r" % (w, z))
                use = impls if ip == 1 else ends
                for impl in use:
                    tags = probe_serial(res, impl, T, A, w_j, z, I["sel"], dict(base, impl=impl, zeta=z))
                    if ip == 1:
                        if tags is None:
                            undecodable.add(impl)
                        elif tags != I["sel"]:
                            c = [0] * N
                            for t in tags:
                                c[t] += 1
                            deviating.setdefault(impl, {})[ii] = c
                res.add(states=1, transitions=len(use), evaluations=len(use), traces=len(use))
            if I["counts"] != [1] * N:
                res.nontrivial(("comb", N, wd, ii))
                res.guard("comb_events_that_duplicated_a_walker", len(impls) + 2 * len(ends))
            if max(I["counts"]) >= 2 and any(c == 0 and a > 0 for c, a in zip(I["counts"], A.a)):
                res.guard("intervals_killing_a_positive_weight_walker")
        # robust exact ties: no rounding anywhere, so all implementations must take the same decision
        for z in A.ties:
            sels = {}
            for impl in impls:
                sels[impl] = probe_serial(res, impl, T, A, w_j, z, None, dict(base, impl=impl, zeta=z, tie=True))
            res.add(states=1, transitions=len(impls), evaluations=len(impls), traces=len(impls))
            res.guard("robust_exact_ties_probed")
            vals = [tuple(s) for s in sels.values() if s is not None]
            if len(set(vals)) > 1:
                res.violation("sr.stochastic_reconfiguration*:implementations-disagree-at-exact-tie",
                              dict(base, impl="*", impls=impls, zeta=z, tie=True), dict(selections=sels))
        # exact mean over the offset: sum over ALL intervals of length x observed count
        for impl in impls:
            res.add(evaluations=N)
            if impl in undecodable:
                continue
            dev = deviating.get(impl)
            if not dev:
                continue  # observed count function == exact one on every probed interval; its integral is exact
            mean = [Fraction(0)] * N
            for ii, I in enumerate(A.intervals):
                c = dev.get(ii, I["counts"])
                for i in range(N):
                    mean[i] += I["len"] * c[i]
            bad = [i for i in range(N) if mean[i] != A.target[i]]
            if bad:
                res.violation("%s:mean-count-biased" % FN[impl.split("/")[0]], dict(part="mean", impl=impl, letters=w, seed=seed, rank=rank),
                              dict(walker=bad[0], mean=float(mean[bad[0]]), target=float(A.target[bad[0]])))
        res.guard("weight_vectors")
        if any(x == 0 for x in w):
            res.guard("vectors_with_zero_weight_walkers")
        if any(x < 0 for x in w):
            res.guard("vectors_with_negative_weights")
        if max(abs(x) for x in w) >= 1e15 * min(abs(x) for x in w if x):
            res.guard("vectors_with_magnitudes_spread_over_1e15")
        if A.unprobed_len:
            res.guard("vectors_with_unprobed_intervals")
        if not res.samples and len(A.breakpoints) >= 2 and min(w) <= 0:
            res.sample(dict(part="comb", weights=w, breakpoints=[float(b) for b in A.breakpoints],
                            counts_per_interval=[I["counts"] for I in A.intervals], robust_ties=A.ties))
    return res


def replay_comb(case):
    seed = case["seed"]
    w = [float(x) for x in np.asarray(case["letters"]).tolist()]
    L = lib()
    T = Tagged(len(w), seed)
    A = combmc.Analysis(w)
    w_j = L["jnp"].asarray(np.asarray(w, dtype=np.float64))
    res = Result()
    if case["part"] == "mean":
        impl = case["impl"]
        mean = [Fraction(0)] * A.N
        for I in A.intervals:
            c = I["counts"]
            if I["probes"]:
                tags = probe_serial(Result(), impl, T, A, w_j, I["probes"][1], I["sel"], {})
                if tags is not None:
                    c = [tags.count(i) for i in range(A.N)]
            for i in range(A.N):
                mean[i] += I["len"] * c[i]
        bad = [i for i in range(A.N) if mean[i] != A.target[i]]
        return bool(bad), dict(mean=[float(m) for m in mean], target=[float(t) for t in A.target])
    z = float(case["zeta"])
    if case.get("tie"):
        impls = case.get("impls") or [case["impl"]]
        sels = {i: probe_serial(res, i, T, A, w_j, z, None, {}) for i in impls}
        vals = [tuple(s) for s in sels.values() if s is not None]
        return bool(res.violations) or len(set(vals)) > 1, dict(selections=sels, failures=[v["signature"] for v in res.violations])
    sel, _ = A.counts_at(z)
    tags = probe_serial(res, case["impl"], T, A, w_j, z, sel, {})
    return bool(res.violations), dict(selected=tags, expected=sel, failures=[v["signature"] for v in res.violations])


# ----------------------------------------------------------------------------- part: mpi (R rank threads)
def rank_inputs(T, w, R, n):
    """Per-rank slices prepared on the main thread (immutable jax arrays; lists are rebuilt per call)."""
    jnp = lib()["jnp"]
    wa = np.asarray(w, dtype=np.float64)
    return [(T.up_j[r * n:(r + 1) * n], T.dn_j[r * n:(r + 1) * n], jnp.asarray(wa[r * n:(r + 1) * n])) for r in range(R)]


def make_body(impl, inputs, zetas):
    sr = lib()["sr"]

    def body(r, comm):
        up, dn, wj = inputs[r]
        if impl == "mpi":
            a, b = sr.stochastic_reconfiguration_mpi(up, wj, zetas[r], comm)
            return [np.asarray(a), np.asarray(b)]
        a, b = sr.stochastic_reconfiguration_mpi_uhf([up, dn], wj, zetas[r], comm)
        return [np.asarray(a[0]), np.asarray(a[1]), np.asarray(b)]

    return body


def concat(results):
    """Rank-ordered concatenation of the per-rank outputs -> ([blocks], weights)."""
    nb = len(results[0]) - 1
    return [np.concatenate([r[i] for r in results], axis=0) for i in range(nb)], np.concatenate([r[-1] for r in results])


def judge_ranks(results, T, A, sel):
    """judge() on the rank-ordered concatenation; per-rank outputs that cannot even be concatenated are a failure."""
    try:
        blocks, wts = concat(results)
    except Exception as e:  # noqa: BLE001
        return None, ["rank-outputs-malformed"], dict(error="%s: %s" % (type(e).__name__, str(e)[:200]))
    return judge(blocks, wts, T, A, sel)


def decoys(z, R):
    """Offsets handed to ranks > 0 (must be ignored by the algorithm): far from rank 0's."""
    out = [z]
    for r in range(1, R):
        d = (z + r / (R + 0.5)) % 1.0
        out.append(min(max(d, 1e-3), 1 - 1e-3))
    return out


def job_mpi(cfg):
    res = Result()
    seed, R, n = cfg["seed"], cfg["R"], cfg["n"]
    N = R * n
    let = letters(seed, cfg["nlet"])
    T = Tagged(N, seed)
    skeletons = {}
    rank = 0
    for wd in combmc.words(let, N, cfg["first"]):
        rank += 1
        w = [let[i] for i in wd]
        if not any(w):
            continue
        A = combmc.Analysis(w, ties=False)
        inputs = rank_inputs(T, w, R, n)
        for ii, I in enumerate(A.intervals):
            if not I["probes"]:
                continue
            zs = I["probes"] if cfg["probes"] == "all" else [I["probes"][1]]
            for z in zs:
                zetas = decoys(z, R)
                if A.counts_at(zetas[1])[0] != I["sel"]:
                    res.guard("runs_where_a_decoy_offset_would_change_the_comb")
                for impl in cfg["impls"]:
                    mode = vcomm.SEND_MODES[(rank + ii) % 2]
                    case = dict(part="mpi", impl=impl, R=R, n=n, letters=w, zetas=zetas, seed=seed, send_mode=mode, rank=rank)
                    ex = schedmc.run_default(R, make_body(impl, inputs, zetas), mode)
                    res.add(states=1, transitions=1, evaluations=1, traces=1)
                    if ex.status != "complete":
                        res.violation("%s:%s" % (FN[impl], ex.violation["kind"]), case, dict(ex.violation, trace=ex.trace))
                        continue
                    tags, fails, detail = judge_ranks(ex.results, T, A, I["sel"])
                    for f in fails:
                        res.violation("%s:%s[R>1]" % (FN[impl], f), case, detail)
                    skeletons.setdefault(impl, set()).add(repr(ex.world.skeleton))
            if I["counts"] != [1] * N:
                res.nontrivial(("mpi", R, n, wd, ii))
                res.guard("multi_rank_comb_events_that_duplicated_a_walker")
            if any(I["sel"][k] // n != k // n for k in range(N)):
                res.guard("multi_rank_comb_events_moving_a_walker_to_another_rank")
    import hashlib

    for impl, s in skeletons.items():
        for sk in s:  # one guard key per distinct skeleton; run() demands exactly one per (R, n, impl)
            res.guard("skeleton:R%d:n%d:%s:%s" % (R, n, impl, hashlib.sha1(sk.encode()).hexdigest()[:8]))
    return res


# ----------------------------------------------------------------------------- part: sched (all schedules)
def rep_inputs(seed, N, k):
    """Representative weight words for schedule exploration (schedules do not depend on the data: the
    skeleton guard of the mpi part measures that), zeros / negative / disparate letters included."""
    let = letters(seed)
    one, zero, frac, big, neg, tiny, huge = let
    base = [big, zero, neg, frac, huge, one, tiny, one]
    pats = [base[:N], [one] * (N - 1) + [big], (base[4:] + base[:4])[:N], list(reversed(base))[:N]]
    out = []
    for p in pats:
        if any(p) and p not in out:
            out.append(p)
    return out[:k]


def explore_one(res, impl, R, n, w, z, T, modes, prune, bound, seed, max_exec=None, free=True):
    N = R * n
    A = combmc.Analysis(w, ties=False)
    sel, _ = A.counts_at(z)
    zetas = decoys(z, R)
    inputs = rank_inputs(T, w, R, n)
    body = make_body(impl, inputs, zetas)
    exp = schedmc.Explorer(R, body, send_modes=modes, prune=prune, preemption_bound=bound, max_executions=max_exec)
    rep = exp.explore()
    nexec = rep.schedules + rep.pruned + rep.violating
    res.add(states=nexec, transitions=rep.transitions, traces=nexec, evaluations=len(rep.outcomes))
    tag = "R%d" % R
    res.guard("schedules_completed_" + tag, rep.schedules)
    res.guard("executions_pruned_at_visited_state_" + tag, rep.pruned)
    res.guard("distinct_arrival_orders_" + tag, len(rep.arrival_orders))
    if prune:
        res.guard("scheduler_states_visited_" + tag, rep.states)
    base = dict(part="mpi", impl=impl, R=R, n=n, letters=w, zetas=zetas, seed=seed, send_modes=list(modes))
    if not rep.exhaustive and not rep.violations:
        res.cap("%s R=%d modes=%s prune=%s bound=%s: stopped after %d executions" % (FN[impl], R, modes, prune, bound, nexec))
    if bound is not None:
        res.note("%s R=%d modes=%s: this configuration is bounded to <= %d preemptions (the unbounded space is covered by the "
                 "pruned configurations)" % (FN[impl], R, "/".join(modes), bound))
    for v in rep.violations[:1]:
        res.violation("%s:%s" % (FN[impl], v["kind"]), dict(base, choices=v["choices"]), dict(kind=v["kind"], detail=v.get("detail"), trace=v["trace"]))
    outs = list(rep.outcomes.items())
    for d, o in outs:
        tags, fails, detail = judge_ranks(o["results"], T, A, sel)
        for f in fails:
            res.violation("%s:%s[R>1]" % (FN[impl], f), dict(base, choices=o["choices"]), detail)
    if len(outs) > 1:
        res.violation("%s:outcome-depends-on-schedule" % FN[impl], dict(base, choices=outs[0][1]["choices"], choices2=outs[1][1]["choices"]),
                      dict(outcomes=len(outs), counts=[o["count"] for _, o in outs]))
    if free and outs and not rep.violations:
        for mode in modes:
            r, viol, _ = vcomm.free_run(R, body, mode)
            res.add(states=1, traces=1, evaluations=1)
            if viol is not None:
                res.violation("%s:%s[free-running]" % (FN[impl], viol["kind"]), dict(base, free=mode), viol)
            elif schedmc.outcome_digest(r) != outs[0][0]:
                res.violation("%s:free-running-threads-differ-from-controlled-run" % FN[impl], dict(base, free=mode), {})
            res.guard("free_running_cross_checks")
    res.nontrivial([("sched", impl, R, n, tuple(w), z, tuple(modes), prune, bound, i) for i in range(min(nexec, 100000))])
    return rep


def job_sched(cfg):
    res = Result()
    seed, R, n, impl = cfg["seed"], cfg["R"], cfg["n"], cfg["impl"]
    T = Tagged(R * n, seed)
    done = 0
    for w in rep_inputs(seed, R * n, cfg["nvec"]):
        A = combmc.Analysis(w, ties=False)
        ivs = [I for I in A.intervals if I["probes"]]
        for I in ivs[: cfg["nzeta"]]:
            rep = explore_one(res, impl, R, n, w, I["probes"][1], T, tuple(cfg["modes"]), cfg["prune"], cfg["bound"], seed,
                              max_exec=cfg.get("max_exec"))
            done += 1
            if done == 1:
                res.sample(dict(part="sched", impl=impl, R=R, n=n, weights=w, zeta=I["probes"][1], modes=cfg["modes"],
                                prune=cfg["prune"], preemption_bound=cfg["bound"], **rep.summary()))
    return res


def replay_mpi(case):
    seed, R, n, impl = case["seed"], int(case["R"]), int(case["n"]), case["impl"]
    w = [float(x) for x in np.asarray(case["letters"]).tolist()]
    zetas = [float(x) for x in np.asarray(case["zetas"]).tolist()]
    T = Tagged(R * n, seed)
    A = combmc.Analysis(w, ties=False)
    sel, _ = A.counts_at(zetas[0])
    body = make_body(impl, rank_inputs(T, w, R, n), zetas)
    if case.get("free"):
        r, viol, _ = vcomm.free_run(R, body, case["free"])
        if viol is not None:
            return True, viol
        ex = schedmc.run_default(R, body, case["free"])
        return schedmc.outcome_digest(r) != schedmc.outcome_digest(ex.results), {}
    if case.get("choices") is None:
        ex = schedmc.run_default(R, body, case["send_mode"])
    else:
        exp = schedmc.Explorer(R, body, send_modes=tuple(case["send_modes"]))
        ex = exp.run_recorded([int(c) for c in np.asarray(case["choices"]).tolist()])
        if case.get("choices2") is not None:
            ex2 = exp.run_recorded([int(c) for c in np.asarray(case["choices2"]).tolist()])
            if ex.status == ex2.status == "complete":
                d1, d2 = schedmc.outcome_digest(ex.results), schedmc.outcome_digest(ex2.results)
                return d1 != d2, dict(outcome1=d1, outcome2=d2)
    if ex.status != "complete":
        return True, dict(ex.violation, trace=ex.trace)
    tags, fails, detail = judge_ranks(ex.results, T, A, sel)
    return bool(fails), dict(detail, failures=fails)


# ----------------------------------------------------------------------------- part: wrappers + not_a_comm
def prop_classes():
    from ad_afqmc import propagation

    out = []
    for name, c in sorted(vars(propagation).items()):
        if inspect.isclass(c) and issubclass(c, propagation.propagator) and not inspect.isabstract(c):
            out.append(name)
    return out


def make_prop(name, N):
    from ad_afqmc import propagation

    c = getattr(propagation, name)
    try:
        return c(n_walkers=N)
    except TypeError:
        return c(n_walkers=N, neighbors=((0, 1), (1, 2)))


def is_restricted(name):
    from ad_afqmc import propagation

    c = getattr(propagation, name)
    return c.stochastic_reconfiguration_local is propagation.propagator_restricted.stochastic_reconfiguration_local


def wrap_prop_data(T, w, key, restricted, sl=slice(None)):
    jnp = lib()["jnp"]
    n = len(w)
    return {"key": key, "walkers": T.up_j[sl] if restricted else [T.up_j[sl], T.dn_j[sl]],
            "weights": jnp.asarray(np.asarray(w, dtype=np.float64)),
            "overlaps": jnp.asarray(np.arange(1, n + 1) * (0.5 - 0.25j)), "e_estimate": jnp.asarray(-1.25)}


def wrap_words(seed, N):
    let = letters(seed)
    one, zero, frac, big, neg, tiny, huge = let
    if N == 4:
        return [[big, frac, one, neg], [one, zero, frac, big], [frac, frac, neg, one]]
    return [[big, frac, one, neg, frac, zero][:N] + [one] * max(0, N - 6), ([frac, one, neg, big, one, frac] * 2)[:N]]


def rogue_words(seed, N):
    """Weight words with entries far outside what propagate() itself can produce (its weights are capped at 100):
    one or two entries >> 100, entries << 1, and both at once.  The property quantifies over every weight vector."""
    one, zero, frac, big, neg, tiny, huge = letters(seed)
    hi1, hi2, lo = 250.0 + 10 * (seed % 3), 1.0e4, 1.0e-6
    base = [[hi1, frac, one, neg], [one, hi2, hi1, frac], [lo, one, hi1, lo], [huge, tiny, hi2, big],
            [lo, 3 * lo, lo, 2 * lo], [-hi1, zero, one, frac]]
    return [(b + [one, frac, neg, one])[:N] for b in base]


def check_wrapper_call(res, sig, case, out, pd_in, key, T, A, restricted, guard=True):
    """Oracle for one wrapper call: key advanced once, offset = uniform(split(key)[1]), comb as the serial one."""
    jax = lib()["jax"]
    k_exp, sub = jax.random.split(key)
    z = float(jax.random.uniform(sub))
    if not np.array_equal(np.asarray(out["key"]), np.asarray(k_exp)):
        res.violation(sig + ":key-not-advanced-exactly-once", case, dict(key_out=np.asarray(out["key"]), expected=np.asarray(k_exp)))
    fz = Fraction(z)
    if not 0 < z < 1 or any(abs(fz - b) < combmc.DELTA for b in A.breakpoints):
        res.guard("wrapper_offsets_within_delta_of_a_breakpoint_skipped")
        return z
    sel, _ = A.counts_at(z)
    blocks = [np.asarray(out["walkers"])] if restricted else [np.asarray(out["walkers"][0]), np.asarray(out["walkers"][1])]
    tags, fails, detail = judge(blocks, np.asarray(out["weights"]), T, A, sel)
    for f in fails:
        res.violation(sig + ":" + ("offset-is-not-uniform(split(key)[1])" if f == "differs-from-serial-comb" else f), case, dict(detail, zeta=z))
    # agreement, by value, with the NumPy kernel run on the same population at the same offset
    sr_ = lib()["sr"]
    for ib, (blk, src) in enumerate(zip(blocks, (T.up_j, T.dn_j))):
        kw, kwt = sr_.stochastic_reconfiguration_np(src, pd_in["weights"], z)
        if not (np.asarray(kw).shape == blk.shape and np.array_equal(np.asarray(kw), blk)):
            res.violation(sig + ":differs-from-NumPy-kernel-at-same-offset", case, dict(block=ib, zeta=z, wrapper=blk, kernel=np.asarray(kw)))
        elif ib == 0 and not np.allclose(np.asarray(kwt), np.asarray(out["weights"]), rtol=1e-12, atol=0):
            res.violation(sig + ":weights-differ-from-NumPy-kernel-at-same-offset", case,
                          dict(zeta=z, wrapper=np.asarray(out["weights"]), kernel=np.asarray(kwt)))
    for k in ("overlaps", "e_estimate"):
        if not np.array_equal(np.asarray(out[k]), np.asarray(pd_in[k])):
            res.violation(sig + ":unrelated-entry-modified", case, dict(entry=k))
    if guard:
        alts = [float(jax.random.uniform(key)), float(jax.random.uniform(k_exp)), float(jax.random.uniform(jax.random.split(sub)[1]))]
        if all(A.counts_at(a)[0] != sel for a in alts):
            res.guard("wrapper_calls_where_any_other_subkey_would_change_the_comb")
    return z


def job_wrap(cfg):
    res = Result()
    L = lib()
    jax = L["jax"]
    seed = cfg["seed"]
    names = prop_classes()
    res.note("propagator classes with SR wrappers: " + ", ".join(names))
    for name in names:
        restricted = is_restricted(name)
        for N in cfg["sizes"]:
            prop = make_prop(name, N)
            T = Tagged(N, seed)
            base_words = wrap_words(seed, N)
            for iw, w in enumerate(base_words + rogue_words(seed, N)):
                rogue = iw >= len(base_words)
                A = combmc.Analysis(w, ties=False)
                for ik in range(cfg["nkeys_rogue"] if rogue else cfg["nkeys"]):
                    ks = 1000 * seed + 17 * ik + iw
                    key = jax.random.PRNGKey(ks)
                    for which in ("local", "global/nac", "global/v1"):
                        if which != "local" and ik >= (cfg["nkeys_rogue_global"] if rogue else cfg["nkeys_global"]):
                            continue
                        case = dict(part="wrap", cls=name, N=N, letters=w, key=ks, which=which, seed=seed)
                        sig = "propagation.%s.stochastic_reconfiguration_%s" % (
                            "propagator_restricted" if restricted else "propagator_unrestricted", which.split("/")[0])
                        pd = wrap_prop_data(T, w, key, restricted)
                        try:
                            out, out2 = call_wrapper(prop, which, pd, restricted)
                        except Exception as e:  # noqa: BLE001
                            res.violation(sig + ":" + _exc_class(e), case, dict(error=str(e)[:300]))
                            continue
                        check_wrapper_call(res, sig, case, out, pd, key, T, A, restricted)
                        k2 = jax.random.split(jax.random.split(key)[0])[0]
                        if not np.array_equal(np.asarray(out2["key"]), np.asarray(k2)):
                            res.violation(sig + ":key-not-advanced-exactly-once", dict(case, second_call=True), {})
                        res.add(states=1, transitions=2, evaluations=2, traces=2)
                        res.nontrivial(("wrap", name, N, iw, ks, which))
                        res.guard("wrapper_calls")
                        if rogue:
                            res.guard("wrapper_calls_with_weights_far_outside_[1e-3,100]")
    # the global wrapper on R = 2 rank threads, keys as the driver makes them (PRNGKey(seed + rank)), all schedules
    for name in ("propagator_restricted", "propagator_unrestricted"):
        restricted = is_restricted(name)
        R, n = 2, 2
        T = Tagged(R * n, seed)
        prop = make_prop(name, n)
        r2_words = wrap_words(seed, R * n)[: cfg["nvec_r2"]] + rogue_words(seed, R * n)[: cfg["nvec_r2"]]
        for iw, w in enumerate(r2_words):
            A = combmc.Analysis(w, ties=False)
            for ik in range(cfg["nkeys_r2"] if iw < cfg["nvec_r2"] else 1):
                ks = 1000 * seed + 5 * ik + iw
                case = dict(part="wrap", cls=name, N=R * n, R=R, letters=w, key=ks, which="global/threads", seed=seed)
                sig = "propagation.%s.stochastic_reconfiguration_global" % name
                body = wrapper_body(prop, T, w, ks, restricted, n)
                exp = schedmc.Explorer(R, body, send_modes=vcomm.SEND_MODES)
                rep = exp.explore()
                nexec = rep.schedules + rep.violating
                res.add(states=nexec, transitions=rep.transitions, traces=nexec, evaluations=len(rep.outcomes))
                res.guard("wrapper_schedules_completed_R2", rep.schedules)
                for v in rep.violations[:1]:
                    res.violation(sig + ":" + v["kind"], dict(case, choices=v["choices"]), dict(detail=v.get("detail"), trace=v["trace"]))
                if len(rep.outcomes) > 1:
                    res.violation(sig + ":outcome-depends-on-schedule", case, dict(outcomes=len(rep.outcomes)))
                for d, o in list(rep.outcomes.items())[:1]:
                    judge_wrapper_threads(res, sig, case, o["results"], T, A, w, ks, restricted, R, n)
    nac_ops(res, seed)
    explorer_selftest(res)
    return res


def explorer_selftest(res):
    """The explorer must find planted defects (vacuity guard of the schedmc part): a rank skipping a
    collective (deadlock), ranks calling different collectives (mismatch), swapped buffers (buffer mismatch) and
    a result that depends on the interleaving through hidden shared state (more than one outcome)."""
    def skip(r, comm):
        if r == 0:
            comm.Barrier()
        return r

    def mism(r, comm):
        buf = np.zeros(2)
        if r == 0:
            comm.Bcast(buf, root=0)
        else:
            comm.Scatter(None, buf, root=0)
        return r

    def swapped(r, comm):
        a, b = np.zeros(1), np.zeros(3)
        comm.Scatter(np.zeros(2) if r == 0 else None, a if r == 0 else b, root=0)
        return r

    def race(r, comm):
        shared = comm.world.__dict__.setdefault("shared", [])
        comm.Barrier()
        shared.append(r)
        comm.Barrier()
        return list(shared)

    for name, body, want in (("deadlock", skip, "deadlock"), ("mismatch", mism, "collective-mismatch"),
                             ("buffer", swapped, "buffer-mismatch")):
        rep = schedmc.Explorer(2, body).explore()
        if not rep.violations or rep.violations[0]["kind"] != want:
            raise HarnessError("explorer self-test: planted %s not reported (%r)" % (name, rep.violations[:1]))
        res.guard("explorer_selftest_planted_%s_found" % name)
    rep = schedmc.Explorer(2, race).explore()
    if len(rep.outcomes) < 2:
        raise HarnessError("explorer self-test: planted interleaving-dependent outcome not seen")
    res.guard("explorer_selftest_planted_race_outcomes", len(rep.outcomes))
    rp = schedmc.Explorer(3, race).explore()
    if len(rp.outcomes) != 6:
        raise HarnessError("explorer self-test: %d of 6 arrival orders of 3 ranks seen" % len(rp.outcomes))
    res.add(states=rep.schedules + rp.schedules, traces=rep.schedules + rp.schedules)
    # visited-state pruning must reach exactly the states the unpruned search reaches (on the real rank bodies)
    T = Tagged(2, 0)
    w = rep_inputs(0, 2, 1)[0]
    body = make_body("mpi_uhf", rank_inputs(T, w, 2, 1), decoys(0.5, 2))
    full = schedmc.Explorer(2, body, track_states=True)
    full.explore(verify=False)
    cut = schedmc.Explorer(2, body, prune=True)
    rc = cut.explore(verify=False)
    if full.state_set != cut.state_set or not rc.pruned:
        raise HarnessError("explorer self-test: pruned search visits %d states, unpruned %d" % (len(cut.state_set), len(full.state_set)))
    res.guard("explorer_selftest_pruned_equals_unpruned_state_set", len(cut.state_set))


def call_wrapper(prop, which, pd, restricted):
    L = lib()

    def fresh(d):
        d = dict(d)
        if not restricted:
            d["walkers"] = list(d["walkers"])
        return d

    if which == "local":
        out = prop.stochastic_reconfiguration_local(fresh(pd))
        out2 = prop.stochastic_reconfiguration_local(fresh(out))
        return out, out2
    mk = (lambda: L["config"].not_a_comm()) if which.endswith("nac") else (lambda: vcomm.World(1).comm(0))
    c1, c2 = mk(), mk()
    try:
        out = prop.stochastic_reconfiguration_global(fresh(pd), c1)
        out2 = prop.stochastic_reconfiguration_global(fresh(out), c2)
    except vcomm.Abort:
        raise RuntimeError("virtual world: %r" % ([getattr(getattr(c, "world", None), "violation", None) for c in (c1, c2)],)) from None
    return out, out2


def wrapper_body(prop, T, w, ks, restricted, n):
    jax = lib()["jax"]
    wa = np.asarray(w, dtype=np.float64)

    def body(r, comm):
        sl = slice(r * n, (r + 1) * n)
        pd = wrap_prop_data(T, wa[sl], jax.random.PRNGKey(ks + r), restricted, sl)
        out = prop.stochastic_reconfiguration_global(pd, comm)
        wk = [np.asarray(out["walkers"])] if restricted else [np.asarray(out["walkers"][0]), np.asarray(out["walkers"][1])]
        return wk + [np.asarray(out["weights"]), np.asarray(out["key"])]

    return body


def judge_wrapper_threads(res, sig, case, results, T, A, w, ks, restricted, R, n):
    jax = lib()["jax"]
    for r in range(R):
        k_exp = jax.random.split(jax.random.PRNGKey(ks + r))[0]
        if not np.array_equal(results[r][-1], np.asarray(k_exp)):
            res.violation(sig + ":key-not-advanced-exactly-once", case, dict(rank=r))
    z = float(jax.random.uniform(jax.random.split(jax.random.PRNGKey(ks))[1]))
    if any(abs(Fraction(z) - b) < combmc.DELTA for b in A.breakpoints):
        return
    sel, _ = A.counts_at(z)
    tags, fails, detail = judge_ranks([r[:-1] for r in results], T, A, sel)
    for f in fails:
        res.violation(sig + ":" + ("not-the-serial-comb-with-rank-0-offset" if f == "differs-from-serial-comb" else f) + "[R>1]", case, dict(detail, zeta=z))
    zo = float(jax.random.uniform(jax.random.split(jax.random.PRNGKey(ks + 1))[1]))
    if A.counts_at(zo)[0] != sel:
        res.guard("wrapper_thread_runs_where_rank_1_offset_would_change_the_comb")


NAC_SHAPES = [(1,), (3,), (2, 2, 1)]
NAC_DTYPES = ["float32", "float64", "complex128"]
NAC_OPS = ["Get_size", "Get_rank", "Barrier", "Reduce", "Bcast", "bcast", "Gather", "Scatter"]


def nac_run(op, shape, dtype, comm, mpi):
    """The library's call forms (driver.py, sr.py) on one communicator; returns what the caller can observe."""
    src = (np.arange(int(np.prod(shape))).reshape(shape) + 1.5).astype(dtype)
    if np.dtype(dtype).kind == "c":
        src = src * (1 - 0.5j)
    dst = np.full(shape, -7, dtype=dtype)
    if op == "Get_size":
        return [comm.Get_size()]
    if op == "Get_rank":
        return [comm.Get_rank()]
    if op == "Barrier":
        return [comm.Barrier()]
    if op == "Reduce":
        ret = comm.Reduce([src, mpi.FLOAT], [dst, mpi.FLOAT], op=mpi.SUM, root=0)
        return [ret, src, dst]
    if op == "Bcast":
        keep = src.copy()
        ret = comm.Bcast(src, root=0)
        return [ret, src, keep]
    if op == "bcast":
        obj = float(src.ravel()[0].real) if shape == (1,) else src
        return [comm.bcast(obj, root=0)]
    if op == "Gather":
        ret = comm.Gather(src, dst, root=0)
        return [ret, src, dst]
    if op == "Scatter":
        ret = comm.Scatter(src, dst, root=0)
        return [ret, src, dst]
    raise ValueError(op)


def nac_case(op, shape, dtype):
    cfgm = lib()["config"]
    a = nac_run(op, shape, dtype, cfgm.not_a_comm(), cfgm.not_MPI())
    c = vcomm.World(1).comm(0)
    b = nac_run(op, shape, dtype, c, vcomm.VMPI(c))
    same = len(a) == len(b) and all(
        (x is None and y is None) or (x is not None and y is not None and np.asarray(x).dtype == np.asarray(y).dtype and np.array_equal(np.asarray(x), np.asarray(y)))
        for x, y in zip(a, b))
    return same, a, b, c.world.violation


def nac_ops(res, seed):
    """not_a_comm must behave as the R = 1 virtual world, operation by operation, in the library's call forms."""
    for op in NAC_OPS:
        for shape in (NAC_SHAPES if op not in ("Get_size", "Get_rank", "Barrier") else [(1,)]):
            for dtype in (NAC_DTYPES if op not in ("Get_size", "Get_rank", "Barrier") else ["float64"]):
                same, a, b, viol = nac_case(op, shape, dtype)
                res.add(states=1, transitions=2, evaluations=1, traces=2)
                res.guard("not_a_comm_operations_compared")
                if viol is not None or not same:
                    res.violation("config.not_a_comm.%s:differs-from-single-rank-world" % op,
                                  dict(part="nac-ops", op=op, shape=list(shape), dtype=dtype), dict(not_a_comm=a, world=b, violation=viol))


def replay_wrap(case):
    L = lib()
    jax = L["jax"]
    seed, name, N = case["seed"], case["cls"], int(case["N"])
    w = [float(x) for x in np.asarray(case["letters"]).tolist()]
    restricted = is_restricted(name)
    T = Tagged(N, seed)
    A = combmc.Analysis(w, ties=False)
    res = Result()
    ks = int(case["key"])
    if case["which"] == "global/threads":
        R = int(case["R"])
        n = N // R
        prop = make_prop(name, n)
        body = wrapper_body(prop, T, w, ks, restricted, n)
        exp = schedmc.Explorer(R, body, send_modes=vcomm.SEND_MODES)
        if case.get("choices") is not None:
            ex = exp.run_recorded([int(c) for c in np.asarray(case["choices"]).tolist()])
        else:
            ex = schedmc.run_default(R, body, "eager")
        if ex.status != "complete":
            return True, dict(ex.violation, trace=ex.trace)
        judge_wrapper_threads(res, "w", case, ex.results, T, A, w, ks, restricted, R, n)
        return bool(res.violations), dict(failures=[v["signature"] for v in res.violations])
    prop = make_prop(name, N)
    key = jax.random.PRNGKey(ks)
    pd = wrap_prop_data(T, w, key, restricted)
    try:
        out, out2 = call_wrapper(prop, case["which"], pd, restricted)
    except Exception as e:  # noqa: BLE001
        return True, dict(error="%s: %s" % (type(e).__name__, str(e)[:300]))
    check_wrapper_call(res, "w", case, out, pd, key, T, A, restricted, guard=False)
    k2 = jax.random.split(jax.random.split(key)[0])[0]
    if not np.array_equal(np.asarray(out2["key"]), np.asarray(k2)):
        res.violation("w:key-not-advanced-exactly-once", case, {})
    return bool(res.violations), dict(failures=[v["signature"] for v in res.violations],
                                      key_out=np.asarray(out["key"]), weights_out=np.asarray(out["weights"]))


# ----------------------------------------------------------------------------- part: hist (call sequences)
# The result of a call must not depend on which calls preceded it in the same process / on the same
# communicator.  Operation alphabet = a menu of populations; every word of length 2 (3 thorough) over it is
# run call after call in ONE freshly started interpreter (so the complete history of the process is the
# recorded word list), every kernel applicable to the population is called, and every output is compared
# BY VALUE (walker matrices, not only tags) with input[serial comb selection] and W/N.
HIST_MENU = {  # letter: (container, dtype, N, (norb, nocc_up)) -- shapes used nowhere else in the check
    "a": ("rhf", "real", 4, (4, 2)),
    "b": ("rhf", "complex", 4, (4, 2)),
    "c": ("rhf", "complex", 2, (4, 2)),
    "d": ("rhf", "real", 4, (5, 1)),
    "e": ("uhf", "complex", 4, (4, 2)),
    "f": ("uhf", "real", 4, (4, 2)),
}


def hist_pop(letter, seed):
    """One menu population: generic (not tagged-integer) walker matrices, so stale or truncated data shows by value."""
    cont, dt, N, (norb, nup) = HIST_MENU[letter]
    one, zero, frac, big, neg, tiny, huge = letters(seed)
    wts = {"a": [big, frac, zero, one], "b": [frac, neg, one, big], "c": [big, one], "d": [one, zero, big, frac],
           "e": [neg, big, frac, one], "f": [frac, one, big, zero]}[letter]
    rng = np.random.default_rng(900 + 7 * seed + ord(letter))  # picks generic matrices only
    t = np.arange(1, N + 1, dtype=np.float64)[:, None, None]

    def block(ncol, sign):
        g = rng.uniform(0.1, 0.9, (norb, ncol))
        h = rng.uniform(0.1, 0.9, (norb, ncol))
        return (sign * t * g[None] + 1j * t * h[None]).astype(np.complex128) if dt == "complex" else sign * t * g[None]

    blocks = [block(nup, 1.0)] + ([block(max(1, nup - 1), -1.0)] if cont == "uhf" else [])
    return dict(letter=letter, container=cont, N=N, blocks=blocks, weights=[float(x) for x in wts])


def hist_words(tier):
    L = 3 if tier == "thorough" else 2
    out = []
    for n in range(1, L + 1):
        out += ["".join(w) for w in itertools.product(sorted(HIST_MENU), repeat=n)]
    return out


def hist_compare(out_blocks, out_w, P, sel):
    """By-value comparison with the serial comb; returns a failure class or None, and detail."""
    W = float(np.sum(np.abs(P["weights"])))
    for ib, (o, src) in enumerate(zip(out_blocks, P["blocks"])):
        o = np.asarray(o)
        want = src[sel]
        if o.shape != want.shape or not np.array_equal(o, want):
            return "walkers-differ-by-value-from-input[serial-comb-selection]", dict(block=ib, got=o, expected=want)
    ow = np.asarray(out_w)
    if len(out_blocks) != len(P["blocks"]) or ow.shape != (P["N"],) or not np.all(np.abs(ow - W / P["N"]) <= 1e-12 * W):
        return "weights-differ-from-W/N", dict(got=ow, expected=W / P["N"])
    return None, {}


def hist_child(spec):
    """Runs in a freshly started interpreter: the words of spec, in order, call after call."""
    import warnings

    warnings.simplefilter("ignore")
    L = lib()
    jnp, sr, cfgm = L["jnp"], L["sr"], L["config"]
    seed = spec["seed"]
    pops = {k: hist_pop(k, seed) for k in HIST_MENU}
    ana = {k: combmc.Analysis(P["weights"], ties=False) for k, P in pops.items()}
    jpop = {k: ([jnp.asarray(b) for b in P["blocks"]], jnp.asarray(np.asarray(P["weights"]))) for k, P in pops.items()}
    fails, ncalls, nafter = [], 0, 0

    def zeta_for(k, pos):
        ivs = [I for I in ana[k].intervals if I["probes"]]
        I = ivs[(pos + ord(k)) % len(ivs)]
        return I["probes"][1], I["sel"]

    def record(wi, word, pos, kernel, lane, cls, detail):
        if len(fails) < 40:
            fails.append(dict(wi=wi, word=word, pos=pos, kernel=kernel, lane=lane, cls=cls, detail=core_enc(detail)))

    for wi, word in enumerate(spec["words"]):
        nac, v1 = cfgm.not_a_comm(), vcomm.World(1).comm(0)  # one communicator object for the whole word
        for pos, k in enumerate(word):
            P, (jb, jw) = pops[k], jpop[k]
            z, sel = zeta_for(k, pos)
            if pos and any(HIST_MENU[q][1] != HIST_MENU[k][1] and HIST_MENU[q][2:] == HIST_MENU[k][2:] for q in word[:pos]):
                nafter += 1
            if P["container"] == "rhf":
                calls = [("jit", "-", lambda: sr.stochastic_reconfiguration(jb[0], jw, z)),
                         ("np", "-", lambda: sr.stochastic_reconfiguration_np(jb[0], jw, z)),
                         ("mpi", "nac", lambda: sr.stochastic_reconfiguration_mpi(jb[0], jw, z, nac)),
                         ("mpi", "v1", lambda: sr.stochastic_reconfiguration_mpi(jb[0], jw, z, v1))]
            else:
                calls = [("jit_uhf", "-", lambda: sr.stochastic_reconfiguration_uhf(list(jb), jw, z)),
                         ("mpi_uhf", "nac", lambda: sr.stochastic_reconfiguration_mpi_uhf(list(jb), jw, z, nac)),
                         ("mpi_uhf", "v1", lambda: sr.stochastic_reconfiguration_mpi_uhf(list(jb), jw, z, v1))]
            for kernel, lane, fn in calls:
                ncalls += 1
                try:
                    a, b = fn()
                    ob = [np.asarray(x) for x in a] if isinstance(a, (list, tuple)) else [np.asarray(a)]
                    cls, detail = hist_compare(ob, np.asarray(b), P, sel)
                    if lane == "v1" and v1.world.violation is not None:
                        cls, detail = v1.world.violation["kind"], v1.world.violation
                except vcomm.Abort:  # the virtual world refused the call (e.g. send/receive dtype mismatch)
                    cls, detail = (v1.world.violation or {}).get("kind", "aborted"), dict(v1.world.violation or {})
                    v1 = vcomm.World(1).comm(0)
                except Exception as e:  # noqa: BLE001
                    cls, detail = _exc_class(e), dict(error=str(e)[:300])
                if cls:
                    record(wi, word, pos, kernel, lane, cls, detail)
        # the same word on R = 2 rank threads sharing one virtual communicator (canonical schedule)
        R = 2
        plan = [(k,) + zeta_for(k, pos) for pos, k in enumerate(word)]

        def body(r, comm):
            outs = []
            for k, z, _ in plan:
                jb, jw = jpop[k]
                n = pops[k]["N"] // R
                sl = slice(r * n, (r + 1) * n)
                zr = decoys(z, R)[r]
                if pops[k]["container"] == "rhf":
                    a, b = sr.stochastic_reconfiguration_mpi(jb[0][sl], jw[sl], zr, comm)
                    outs.append([np.asarray(a), np.asarray(b)])
                else:
                    a, b = sr.stochastic_reconfiguration_mpi_uhf([x[sl] for x in jb], jw[sl], zr, comm)
                    outs.append([np.asarray(a[0]), np.asarray(a[1]), np.asarray(b)])
            return outs

        ex = schedmc.run_default(R, body, vcomm.SEND_MODES[wi % 2])
        for pos, (k, z, sel) in enumerate(plan):
            kernel = "mpi" if pops[k]["container"] == "rhf" else "mpi_uhf"
            ncalls += 1
            if ex.status != "complete":
                record(wi, word, pos, kernel, "threads2", ex.violation["kind"], dict(ex.violation, trace=ex.trace[-8:]))
                break
            try:
                blocks, wts = concat([res_r[pos] for res_r in ex.results])
                cls, detail = hist_compare(blocks, wts, pops[k], sel)
            except Exception as e:  # noqa: BLE001
                cls, detail = "rank-outputs-malformed", dict(error=str(e)[:200])
            if cls:
                record(wi, word, pos, kernel, "threads2", cls, detail)
    return dict(calls=ncalls, words=len(spec["words"]), after_other_dtype=nafter, fails=fails)


def core_enc(x):
    from mc.core import enc

    return enc(x)


def hist_spawn(seed, words):
    """Start a fresh interpreter, run the words there, return its report."""
    import json
    import os
    import subprocess
    import sys

    p = subprocess.run([sys.executable, "-m", "mc.checks.c07", "hist-child"], input=json.dumps(dict(seed=seed, words=words)),
                       capture_output=True, text=True, env=dict(os.environ), timeout=3600)
    lines = [l for l in p.stdout.splitlines() if l.startswith("HIST-RESULT ")]
    if p.returncode != 0 or not lines:
        raise HarnessError("history child failed (rc=%s): %s" % (p.returncode, (p.stderr or p.stdout)[-1500:]))
    return json.loads(lines[-1][len("HIST-RESULT "):])


def hist_sig(f):
    return "%s:call-sequence:%s" % (FN[f["kernel"]], f["cls"])


def job_hist(cfg):
    res = Result()
    seed, words = cfg["seed"], cfg["words"]
    rep = hist_spawn(seed, words)
    res.add(states=rep["words"], transitions=rep["calls"], evaluations=rep["calls"], traces=rep["calls"] + 1)
    res.guard("history_words_run_in_one_fresh_process", rep["words"])
    res.guard("history_calls_compared", rep["calls"])
    res.guard("history_calls_after_a_population_of_other_dtype_same_shape", rep["after_other_dtype"])
    res.nontrivial([("hist", w) for w in words if len(set(w)) > 1])
    res.sample(dict(part="hist", menu={k: list(v[:3]) + [list(v[3])] for k, v in HIST_MENU.items()}, words=words[:12], calls=rep["calls"]))
    seen = set()
    for f in rep["fails"]:
        sig = hist_sig(f)
        if sig in seen:
            continue
        seen.add(sig)
        # minimise: does the word alone (fresh process) already fail?  else keep the whole process history up to it
        alone = hist_spawn(seed, [f["word"]])
        same = [g for g in alone["fails"] if hist_sig(g) == sig]
        hist = [f["word"]] if same else words[: f["wi"] + 1]
        res.violation(sig, dict(part="hist", seed=seed, words=hist, kernel=f["kernel"], cls=f["cls"], letters=list(f["word"])),
                      dict(word=f["word"], position=f["pos"], lane=f["lane"], menu=HIST_MENU[f["word"][f["pos"]]][:3],
                           preceded_by=[HIST_MENU[q][:3] for q in f["word"][: f["pos"]]], process_history=hist, detail=f["detail"]))
    return res


def replay_hist(case):
    words = [str(w) for w in case["words"]]
    rep = hist_spawn(int(case["seed"]), words)
    hits = [f for f in rep["fails"] if f["wi"] == len(words) - 1 and f["kernel"] == case["kernel"] and f["cls"] == case["cls"]]
    return bool(hits), dict(words=words, failures=[dict(word=f["word"], pos=f["pos"], kernel=f["kernel"], lane=f["lane"], cls=f["cls"]) for f in hits][:6])


# ----------------------------------------------------------------------------- run / replay
def comb_jobs(tier, seed):
    jobs = []
    thorough = tier == "thorough"
    nmax = 6 if thorough else 5
    for N in range(1, nmax + 1):
        # both communicators (not_a_comm, R=1 virtual world) for both MPI variants up to N=4; beyond, one each,
        # and for N >= 5 the +-delta end probes run on the two formula variants only (jitted: total*(k+zeta)/N,
        # NumPy: ((k+zeta)/N)*total); _uhf shares the jitted formula, the MPI variants the NumPy one
        impls = SERIAL_IMPLS if N <= 4 else ["jit", "jit_uhf", "np", "mpi/v1", "mpi_uhf/nac"]
        mid_only = ["jit_uhf", "mpi/v1", "mpi_uhf/nac"] if N >= 5 else []
        for first in itertools.product(range(7), repeat=max(0, N - 3)):
            jobs.append(dict(part="comb", N=N, first=list(first), nlet=7, seed=seed, impls=impls, mid_only=mid_only))
    if thorough:
        for N in (7, 8):
            impls = ["jit", "jit_uhf", "np", "mpi/nac", "mpi_uhf/v1"]
            for first in itertools.product(range(5), repeat=N - 4):
                jobs.append(dict(part="comb", N=N, first=list(first), nlet=5, seed=seed, impls=impls,
                                 mid_only=impls[3:] if N == 7 else impls[1:]))
    return jobs


def mpi_jobs(tier, seed):
    jobs = []
    thorough = tier == "thorough"
    plan = [(2, 1, 7), (2, 2, 7), (3, 1, 7), (4, 1, 7)]
    if thorough:  # larger equal partitions on the 5-letter / 3-letter sub-alphabets
        plan += [(2, 3, 5), (3, 2, 5), (4, 2, 3)]
    for R, n, nlet in plan:
        N = R * n
        split = {7: max(0, N - 3), 5: max(0, N - 4), 3: max(0, N - 6)}[nlet]
        for first in itertools.product(range(nlet), repeat=split):
            jobs.append(dict(part="mpi", R=R, n=n, nlet=nlet, first=list(first), seed=seed, impls=["mpi", "mpi_uhf"],
                             probes="all" if (thorough and N <= 4) else "mid"))
    return jobs


def sched_jobs(tier, seed):
    E, Z, M = ["eager"], ["rendezvous"], list(vcomm.SEND_MODES)
    J = []

    def add(R, n, impl, modes, prune, bound, nvec, nzeta, max_exec=None):
        J.append(dict(part="sched", R=R, n=n, impl=impl, modes=modes, prune=prune, bound=bound, nvec=nvec, nzeta=nzeta,
                      seed=seed, max_exec=max_exec))

    for n in (1, 2):
        add(2, n, "mpi", M, False, None, 3, 3)
        add(2, n, "mpi_uhf", M, False, None, 2, 2)
    add(3, 1, "mpi", E, False, None, 2, 2)
    add(3, 1, "mpi", Z, False, None, 2, 2)
    add(3, 1, "mpi", M, True, None, 2, 2)
    add(3, 1, "mpi_uhf", Z, False, None, 1, 1)
    add(3, 1, "mpi_uhf", E, True, None, 2, 2)
    add(3, 1, "mpi_uhf", M, True, None, 1, 2)
    for impl in ("mpi", "mpi_uhf"):
        add(4, 1, impl, E, True, None, 2, 2)
        add(4, 1, impl, Z, True, None, 2, 2)
    add(4, 1, "mpi", M, True, None, 1, 1)
    if tier == "thorough":
        add(2, 3, "mpi", M, False, None, 2, 2)
        add(2, 3, "mpi_uhf", M, False, None, 1, 2)
        add(3, 1, "mpi", M, False, None, 1, 2)
        add(3, 1, "mpi_uhf", E, False, None, 1, 1)
        add(3, 2, "mpi", E, False, None, 1, 2)
        add(3, 2, "mpi", Z, False, None, 1, 2)
        add(3, 2, "mpi_uhf", M, True, None, 1, 2)
        add(4, 1, "mpi_uhf", M, True, None, 1, 1)
        add(4, 2, "mpi", M, True, None, 1, 1)
        add(4, 1, "mpi", E, False, 2, 1, 1)
        add(4, 1, "mpi", Z, False, 1, 1, 1)
    return J


def job_priority(j):
    """Simplest first (the pool hands jobs out in this order and the first violations of a signature are the
    ones kept), except that the few long single jobs start before the bulk so they do not form a tail."""
    part = j["part"]
    if part == "comb":
        return (0 if j["N"] <= 3 else 4 + j["N"], j["N"], j["first"])
    if part == "wrap":
        return (1, 0, [])
    if part == "hist":
        return (1, 1, [])
    if part == "sched":
        return (1 if j["R"] == 2 else 3, j["R"] * j["n"], [])
    if part == "mpi":
        N = j["R"] * j["n"]
        return (2 if N <= 3 else 4 + N, N, j["first"])
    return (3, 9, [])  # driver


JOBS = {}


def job(cfg):
    return JOBS[cfg["part"]](cfg)


def run(ctx):
    ctx.rule = (
        "comb: every word over the 7-letter weight alphabet {1, 0, fraction, integer>1, negative, tiny, huge} of length "
        "N<=5 (quick) / N<=6 and 5 letters to N=8 (thorough), all-zero excluded; for each word the exact breakpoints "
        "zeta = N cum_j/W - k in (0,1) and EVERY open interval between them probed at lo+2^-30, midpoint, hi-2^-30 (+ exact "
        "ties where no float operation rounds), for every implementation; a state is one (word, offset); non-trivial = "
        "the interval's count vector is not all ones (a walker was duplicated/killed).  mpi: the same words of length R*n "
        "on R rank threads.  sched: every schedule (choice sequence of the controller: which enabled rank fires, eager or "
        "rendezvous for each send) of the rank bodies; a state is one explored execution prefix.  hist: every word of "
        "length <= 2 (quick) / 3 (thorough) over the population menu {rhf real, rhf complex, rhf complex other count, rhf "
        "real other shape, uhf complex, uhf real}, all words run in order in one fresh interpreter, all applicable kernels "
        "per letter, outputs compared by value; a state is one word.  wrap: 3 propagate()-like words + 6 words with "
        "entries >> 100 / << 1e-3 per class, container, local/global.")
    ctx.assume("weights are float64 letters taken as exact rationals; offsets closer than 2^-30 to a breakpoint (other than "
               "rounding-free exact ties) are outside the probed set: the float comparison there is decided by rounding")
    ctx.assume("intervals shorter than 4*2^-30 cannot be probed; in the exact mean they enter with the reference count "
               "(vectors having such intervals are counted by the guard vectors_with_unprobed_intervals; their total length per "
               "vector is below N*4*2^-30)")
    ctx.assume("virtual MPI: collectives matched by per-rank sequence number; a send's deposit is a left-mover (only enables "
               "others); eager and rendezvous completion are the two send behaviours explored; data copied at deposit")
    ctx.assume("hist: process-level state is observed through call sequences of length <= 2 (3) started from a fresh "
               "interpreter; mixed-dtype (real up / complex down) containers are outside the menu")
    seed, tier = ctx.seed, ctx.tier
    jobs = sched_jobs(tier, seed) + comb_jobs(tier, seed) + mpi_jobs(tier, seed)
    jobs.append(dict(part="wrap", seed=seed, sizes=[4] if tier == "quick" else [4, 7],
                     nkeys=12 if tier == "quick" else 48, nkeys_global=4 if tier == "quick" else 16,
                     nkeys_rogue=3 if tier == "quick" else 12, nkeys_rogue_global=2 if tier == "quick" else 6,
                     nvec_r2=1 if tier == "quick" else 2, nkeys_r2=2 if tier == "quick" else 6))
    jobs.append(dict(part="hist", seed=seed, words=hist_words(tier)))
    if tier == "thorough":
        jobs += driver_jobs(seed)
    jobs.sort(key=job_priority)
    import os

    only = [x for x in os.environ.get("VERIF_C07_PARTS", "").split(",") if x]  # developer aid: run some parts only
    if only:
        jobs = [j for j in jobs if j["part"] in only]
        ctx.cap("partial run (VERIF_C07_PARTS=%s): not the registered check" % ",".join(only))
    ctx.pmap(job, jobs, workers=min(ctx.workers, WORKERS))
    ctx.violations.sort(key=case_key)
    # the sequence of collectives (kinds, roots, buffer shapes) must not depend on the data: that is what lets the
    # schedule exploration on representative inputs speak for all inputs of the same (R, n, implementation)
    groups = {}
    for k in [k for k in ctx.guards if k.startswith("skeleton:")]:
        groups.setdefault(k.rsplit(":", 1)[0], []).append(k)
        del ctx.guards[k]
    for g, ks in sorted(groups.items()):
        ctx.guards["data_independent_collective_sequences"] = ctx.guards.get("data_independent_collective_sequences", 0) + (len(ks) == 1)
        if len(ks) > 1:
            ctx.cap("%s: the sequence of collectives depends on the data (%d different sequences observed); schedules were "
                    "explored on representative inputs only" % (g, len(ks)))
    if only:
        return
    ctx.require_guard("comb_events_that_duplicated_a_walker", "robust_exact_ties_probed", "vectors_with_zero_weight_walkers",
                      "vectors_with_negative_weights", "vectors_with_magnitudes_spread_over_1e15",
                      "multi_rank_comb_events_moving_a_walker_to_another_rank", "runs_where_a_decoy_offset_would_change_the_comb",
                      "schedules_completed_R2", "schedules_completed_R3", "schedules_completed_R4",
                      "data_independent_collective_sequences",
                      "distinct_arrival_orders_R3", "free_running_cross_checks", "wrapper_calls",
                      "wrapper_calls_where_any_other_subkey_would_change_the_comb", "wrapper_schedules_completed_R2",
                      "wrapper_calls_with_weights_far_outside_[1e-3,100]", "history_calls_compared",
                      "history_calls_after_a_population_of_other_dtype_same_shape",
                      "not_a_comm_operations_compared", "explorer_selftest_planted_deadlock_found",
                      "explorer_selftest_planted_mismatch_found", "explorer_selftest_planted_buffer_found",
                      "explorer_selftest_planted_race_outcomes")


# ----------------------------------------------------------------------------- part: driver (thorough)
def driver_setup(seed, uhf, nw):
    """A tiny generic system (3 orbitals, (1,1) electrons, 2 Cholesky vectors) and a one-block run."""
    L = lib()
    jnp = L["jnp"]
    from ad_afqmc import hamiltonian, propagation, sampling, wavefunctions
    from mc import alphabets as al

    n, nelec, nchol = 3, (1, 1), 2
    h0, h1, chol = al.small_ham(n, nchol, seed, scale=1.0)
    ham = hamiltonian.hamiltonian(n)
    ham_data = {"h0": h0, "h1": jnp.array([h1[0], h1[0]]), "chol": jnp.array(chol.reshape(nchol, -1)), "ene0": 0.0}
    ham_data["mask"] = jnp.ones(ham_data["h1"].shape)
    _, v = np.linalg.eigh(h1[0])
    wave_data = {"rdm1": jnp.array([v[:, :1] @ v[:, :1].T, v[:, :1] @ v[:, :1].T])}
    base = propagation.propagator_unrestricted if uhf else propagation.propagator_restricted

    def spy(self, prop_data, comm):
        blocks = lambda wk: [np.asarray(wk)] if not isinstance(wk, (list, tuple)) else [np.asarray(b) for b in wk]
        rec = dict(key_in=np.asarray(prop_data["key"]), w_in=np.asarray(prop_data["weights"]), b_in=blocks(prop_data["walkers"]))
        out = base.stochastic_reconfiguration_global(self, prop_data, comm)
        rec.update(key_out=np.asarray(out["key"]), w_out=np.asarray(out["weights"]), b_out=blocks(out["walkers"]))
        comm.world.__dict__.setdefault("sr_log", {}).setdefault(comm.rank, []).append(rec)
        return out

    cls = type("spy_" + base.__name__, (base,), {"stochastic_reconfiguration_global": spy})
    prop = cls(0.05, nw)
    if uhf:
        trial = wavefunctions.uhf(n, nelec)
        wave_data["mo_coeff"] = [jnp.array(v[:, :1]), jnp.array(v[:, :1])]
    else:
        trial = wavefunctions.rhf(n, nelec)
        wave_data["mo_coeff"] = jnp.array(v[:, :1])
    sampler = sampling.sampler(2, 1, 1, 1)
    options = dict(seed=7 + seed, n_eql=1, n_ene_blocks_eql=1, n_sr_blocks_eql=1, ad_mode=None, orbital_rotation=True,
                   do_sr=True, save_walkers=False)
    return ham_data, ham, prop, trial, wave_data, sampler, options


def driver_body(S):
    from ad_afqmc import driver

    def body(r, comm):
        ham_data, ham, prop, trial, wave_data, sampler, options = S
        e, err = driver.afqmc(dict(ham_data), ham, prop, trial, dict(wave_data), sampler, None, dict(options), vcomm.VMPI(comm))
        log = comm.world.__dict__.get("sr_log", {}).get(r, [])
        return [float(e), float(err), [[c["key_in"], c["w_in"], c["b_in"], c["key_out"], c["w_out"], c["b_out"]] for c in log]]

    return body


def judge_driver(res, case, results, R):
    """Every global comb the driver performed = the serial comb of the rank-ordered concatenation with the
    offset rank 0 drew; every rank's key advanced exactly once."""
    jax = lib()["jax"]
    sig = "driver.afqmc/stochastic_reconfiguration_global"
    nev = {len(r[2]) for r in results}
    if len(nev) != 1 or 0 in nev:
        res.violation(sig + ":ranks-performed-different-numbers-of-combs", case, dict(counts=sorted(nev)))
        return
    if len({(r[0], r[1]) for r in results}) != 1:
        res.violation("driver.afqmc:ranks-return-different-energies", case, dict(values=[r[:2] for r in results]))
    for e in range(nev.pop()):
        ev = [r[2][e] for r in results]
        for r in range(R):
            if not np.array_equal(ev[r][3], np.asarray(jax.random.split(ev[r][0])[0])):
                res.violation(sig + ":key-not-advanced-exactly-once", case, dict(event=e, rank=r))
        z = float(jax.random.uniform(jax.random.split(ev[0][0])[1]))
        w = np.concatenate([x[1] for x in ev])
        res.add(evaluations=1)
        if not np.any(w):
            continue
        A = combmc.Analysis(w.tolist(), ties=False)
        if any(abs(Fraction(z) - b) < combmc.DELTA for b in A.breakpoints):
            res.guard("driver_combs_within_delta_of_a_breakpoint_skipped")
            continue
        sel, cnt = A.counts_at(z)
        nb = len(ev[0][2])
        b_in = [np.concatenate([x[2][i] for x in ev]) for i in range(nb)]
        b_out = [np.concatenate([x[5][i] for x in ev]) for i in range(nb)]
        w_out = np.concatenate([x[4] for x in ev])
        ok = all(np.array_equal(b_out[i], b_in[i][sel]) for i in range(nb))
        Wf = float(A.W)
        okw = w_out.shape == w.shape and np.all(np.abs(w_out - Wf / len(w)) <= 1e-12 * Wf)
        res.guard("driver_global_combs_compared")
        if cnt != [1] * len(w):
            res.guard("driver_global_combs_that_duplicated_a_walker")
        if not ok:
            res.violation(sig + ":not-the-serial-comb-of-the-concatenation", case, dict(event=e, expected=sel, zeta=z, weights=w))
        if not okw:
            res.violation(sig + ":weights-not-average", case, dict(event=e, weights_out=w_out, total=Wf))


def job_driver(cfg):
    import contextlib
    import io
    import os
    import shutil
    import tempfile

    res = Result()
    R, uhf, nw, seed, mode = cfg["R"], cfg["uhf"], cfg["nw"], cfg["seed"], cfg["mode"]
    S = driver_setup(seed, uhf, nw)
    body = driver_body(S)
    case = dict(part="driver", R=R, uhf=uhf, nw=nw, seed=seed, mode=mode, bound=cfg["bound"])
    cwd = os.getcwd()
    d = tempfile.mkdtemp(prefix="c07drv")
    os.chdir(d)
    try:
        with contextlib.redirect_stdout(io.StringIO()):
            exp = schedmc.Explorer(R, body, send_modes=(mode,), preemption_bound=cfg["bound"], step_timeout=900.0,
                                   max_executions=cfg.get("max_exec"))
            rep = exp.explore()
    finally:
        os.chdir(cwd)
        shutil.rmtree(d, ignore_errors=True)
    nexec = rep.schedules + rep.violating
    res.add(states=nexec, transitions=rep.transitions, traces=nexec)
    res.guard("driver_schedules_completed", rep.schedules)
    res.guard("driver_distinct_arrival_orders", len(rep.arrival_orders))
    res.note("driver.afqmc on R=%d rank threads: bound = all schedules with <= %d preemption(s), eager-only and rendezvous-only sends" % (R, cfg["bound"]))
    if not rep.exhaustive and not rep.violations:
        res.cap("driver.afqmc R=%d %s sends: stopped after %d executions" % (R, mode, nexec))
    for v in rep.violations[:1]:
        res.violation("driver.afqmc:%s" % v["kind"], dict(case, choices=v["choices"]), dict(detail=v.get("detail"), trace=v["trace"][-12:]))
    outs = list(rep.outcomes.items())
    if len(outs) > 1:
        res.violation("driver.afqmc:outcome-depends-on-schedule", dict(case, choices=outs[0][1]["choices"], choices2=outs[1][1]["choices"]),
                      dict(outcomes=len(outs)))
    for d_, o in outs:
        judge_driver(res, dict(case, choices=o["choices"]), o["results"], R)
    res.nontrivial([("driver", R, uhf, mode, i) for i in range(nexec)])
    res.sample(dict(part="driver", R=R, unrestricted=uhf, walkers_per_rank=nw, send_mode=mode, **rep.summary()))
    return res


def replay_driver(case):
    import contextlib
    import io
    import os
    import shutil
    import tempfile

    R = int(case["R"])
    S = driver_setup(case["seed"], bool(case["uhf"]), int(case["nw"]))
    body = driver_body(S)
    exp = schedmc.Explorer(R, body, send_modes=(case["mode"],), preemption_bound=None, step_timeout=900.0)
    cwd = os.getcwd()
    d = tempfile.mkdtemp(prefix="c07drv")
    os.chdir(d)
    try:
        with contextlib.redirect_stdout(io.StringIO()):
            ex = exp.run_recorded([int(c) for c in np.asarray(case["choices"]).tolist()])
            ex2 = None
            if case.get("choices2") is not None:
                ex2 = exp.run_recorded([int(c) for c in np.asarray(case["choices2"]).tolist()])
    finally:
        os.chdir(cwd)
        shutil.rmtree(d, ignore_errors=True)
    if ex.status != "complete":
        return True, dict(ex.violation, trace=ex.trace[-12:])
    if ex2 is not None and ex2.status == "complete":
        d1, d2 = schedmc.outcome_digest(ex.results), schedmc.outcome_digest(ex2.results)
        if d1 != d2:
            return True, dict(outcome1=d1, outcome2=d2)
    res = Result()
    judge_driver(res, case, ex.results, R)
    return bool(res.violations), dict(failures=[v["signature"] for v in res.violations], energy=ex.results[0][:2])


def driver_jobs(seed):
    return [dict(part="driver", R=2, uhf=uhf, nw=2, seed=seed, mode=mode, bound=1)
            for uhf in (True, False) for mode in vcomm.SEND_MODES]


def replay(case):
    part = case["part"]
    if part in ("comb", "mean"):
        return replay_comb(case)
    if part == "mpi":
        return replay_mpi(case)
    if part == "wrap":
        return replay_wrap(case)
    if part == "driver":
        return replay_driver(case)
    if part == "hist":
        return replay_hist(case)
    if part == "nac-ops":
        same, a, b, viol = nac_case(case["op"], tuple(int(x) for x in np.asarray(case["shape"]).tolist()), case["dtype"])
        return (not same) or viol is not None, dict(not_a_comm=a, world=b, violation=viol)
    raise ValueError(part)


JOBS.update(comb=job_comb, mpi=job_mpi, sched=job_sched, wrap=job_wrap, driver=job_driver, hist=job_hist)


if __name__ == "__main__":
    import json
    import sys

    if len(sys.argv) == 2 and sys.argv[1] == "hist-child":
        # imported as __main__: make the package module resolve to the same objects
        from mc.checks import c07 as _self

        print("HIST-RESULT " + json.dumps(_self.hist_child(json.loads(sys.stdin.read()))))
