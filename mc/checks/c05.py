"""C05 -- free-projection step averages to exp(-dt(H-ene0)) with exact norm bookkeeping.

Engine: probmc + seqmc.  k consecutive propagate_free steps are run on ONE population that contains every
history of tensor Gauss-Hermite nodes (m^(k*n_chol) walkers); per history the accumulated norm times the
orthonormal walker must equal the un-normalised product of explicit propagator matrices, the stored overlap
the overlap of that un-normalised state; the weighted sum over all histories is compared with
exp(-dt(H-ene0))^k on a dt ladder.  The truncated exponential is compared with scipy expm within its Taylor
remainder for every node, and the sampler's free-projection block energy is recomputed from its trajectory
for every stream of the virtual random source."""

import itertools
import math

import numpy as np
from scipy.linalg import expm

from mc import alphabets as al
from mc import fock, gridmc, probmc, samplers, trials, vrng
from mc.core import Result

ID = "C05"
TECHNIQUE = "exact field average over all histories of tensor Gauss-Hermite nodes through real propagate_free() calls, per-history explicit-matrix bookkeeping oracle, dt-ladder ratio test against expm in Fock space"

LADDER = [0.08, 0.04, 0.02, 0.01, 0.005, 0.0025]
FLOOR = 2e-9


def configs(tier, seed):
    thorough = tier == "thorough"
    out = []
    base = [("uhf", 3, 2, 1), ("ghf", 3, 1, 1), ("noci", 3, 2, 1), ("ucisd", 3, 2, 1), ("rhf", 3, 1, 1)]
    if thorough:
        base += [("uhf", 4, 2, 2), ("multislater", 3, 2, 1), ("uhf", 3, 2, 2), ("ucisd", 4, 2, 1), ("uhf", 4, 3, 1)]
    for i, (kind, n, na, nb) in enumerate(base):
        variant = {"multislater": "ref:1"}.get(kind, "")
        for (nchol, k) in ([(1, 1), (2, 1), (1, 2), (2, 2), (1, 3)] if (thorough or i == 0) else [(2, 1), (1, 2)]):
            for rd in (["trial", "zero", "arbitrary"] if (thorough or i == 0) else [["arbitrary", "trial", "zero"][i % 3]]):
                for nexp in ([4, 6, 10, 14] if (thorough or (i == 0 and nchol == 2 and k == 1)) else ([14] if (i == 1 and k == 2) else [6])):
                    out.append(dict(kind=kind, n=n, na=na, nb=nb, variant=variant, nchol=nchol, k=k, rdm1=rd, nexp=nexp,
                                    ene0=[0.0, -0.7][(i + k) % 2], seed=seed, tier=tier))
    out.sort(key=lambda c: -(c["nchol"] * c["k"]))
    return out


def nodes_for(nf):
    return {1: 14, 2: 10, 3: 7, 4: 6}[nf]


def job(cfg):
    from mc.checks.c04 import lib_prop, setup

    res = Result()
    jnp, hamiltonian, propagation = lib_prop()
    c4 = dict(cfg, prop="u", walker="generic")
    S = setup(c4)
    n, na, nb, nchol, k, nexp = cfg["n"], cfg["na"], cfg["nb"], cfg["nchol"], cfg["k"], cfg["nexp"]
    ene0 = cfg["ene0"]
    sec, ket = S["sec"], S["p"].ket
    nf = nchol * k
    m = nodes_for(nf)
    F, w = probmc.gh_rule(m, nf)  # histories: (M, k*nchol)
    M = len(w)
    sig0 = "%s/propagate_free" % cfg["kind"]
    resid = []
    ham = hamiltonian.hamiltonian(n)
    phi0 = sec.walker_vectors(S["wa"][None], S["wb"][None])[:, 0]
    H = sec.hamiltonian(S["h0"], S["h1"], S["chol"])
    mvec, hmod, const = probmc.mf_quantities(S["h0"], S["h1"], S["chol"], S["rdm1"], 0.0)
    for dt in LADDER:
        # n_batch alternates with the configuration: a batch count > 1 must change nothing
        nbatch = 2 if (M % 2 == 0 and (cfg["nchol"] + cfg["k"]) % 2 == 1) else 1
        prop = propagation.propagator_unrestricted(dt=dt, n_walkers=M, n_exp_terms=nexp, n_batch=nbatch)
        # Intermediates are rebuilt on the dictionary returned by the previous build (first on a decoy Hamiltonian with
        # other Cholesky vectors, another time step and another ene0), the way the drivers and AD samplers re-prepare
        # a ham_data: anything cached instead of rebuilt goes stale and shows up in the oracles below.
        if "_carry" not in S:
            dh0, dh1, dchol = al.small_ham(n, nchol, cfg["seed"] + 23, spin_dependent=True, scale=0.7)
            dprop = propagation.propagator_unrestricted(dt=0.033, n_walkers=M, n_exp_terms=nexp, n_batch=nbatch)
            d = {"h0": dh0, "h1": jnp.asarray(dh1), "chol": jnp.asarray(dchol.reshape(nchol, n * n)), "ene0": 0.31}
            d = ham.build_measurement_intermediates(d, S["trial"], S["wd"])
            S["_carry"] = dict(ham.build_propagation_intermediates(d, dprop, S["trial"], S["wd"]))
            res.guard("carried_dictionary_rebuilds", 1)
        hd = dict(S["_carry"])
        hd.update({"h0": S["h0"], "h1": jnp.asarray(S["h1"]), "chol": jnp.asarray(S["chol"].reshape(nchol, n * n)), "ene0": ene0})
        hd = ham.build_measurement_intermediates(hd, S["trial"], S["wd"])
        hd = ham.build_propagation_intermediates(hd, prop, S["trial"], S["wd"])
        S["_carry"] = dict(hd)
        walkers = [jnp.asarray(np.repeat(S["wa"][None], M, 0)), jnp.asarray(np.repeat(S["wb"][None], M, 0))]
        ov = gridmc.jitted(S["trial"], "calc_overlap")(walkers, S["wd"])
        pd = {"weights": jnp.ones(M), "walkers": walkers, "overlaps": ov, "normed_overlaps": ov, "norms": jnp.ones(M) + 0j,
              "e_estimate": jnp.asarray(0.0), "pop_control_ene_shift": jnp.asarray(0.0)}
        # explicit-matrix reference of the un-normalised product, history by history
        Ra, Rb = np.repeat(S["wa"][None], M, 0), np.repeat(S["wb"][None], M, 0)
        for t in range(k):
            x = F[:, t * nchol:(t + 1) * nchol]
            pd = prop.propagate_free(S["trial"], hd, pd, jnp.asarray(x), S["wd"])
            Ra, Rb = probmc.ref_step_unrestricted(Ra, Rb, x.astype(complex), hmod, S["chol"], dt, nexp)
            # constant: exp(-i sqrt(dt) x.m) exp(dt(ene0 - const)); put on the alpha block of the reference
            cfac = np.exp(-1j * np.sqrt(dt) * (x @ mvec)) * np.exp(dt * (ene0 - const))
            Ra = Ra * (cfac ** (1.0 / na))[:, None, None]
            res.add(states=M, transitions=M, evaluations=M, traces=1)
            Qa, Qb = np.asarray(pd["walkers"][0]), np.asarray(pd["walkers"][1])
            norms = np.asarray(pd["norms"])
            PhiQ = sec.walker_vectors(Qa, Qb)
            PhiR = sec.walker_vectors(Ra, Rb)
            scale = np.abs(PhiR).max()
            e1 = np.abs(PhiQ * norms[None] - PhiR).max() / scale
            # orthonormal columns
            e2 = max(np.abs(np.einsum("wpk,wpl->wkl", Qa.conj(), Qa) - np.eye(na)).max(),
                     np.abs(np.einsum("wpk,wpl->wkl", Qb.conj(), Qb) - np.eye(nb)).max() if nb else 0.0)
            e3 = np.abs(np.asarray(pd["overlaps"]) - np.conj(ket) @ PhiR).max() / max(1e-300, np.abs(np.conj(ket) @ PhiR).max())
            e4 = np.abs(np.asarray(pd["normed_overlaps"]) - np.conj(ket) @ PhiQ).max() / np.abs(np.conj(ket) @ PhiQ).max()
            case = dict(cfg, dt=dt, step=t)
            if not e1 <= 1e-9:
                res.violation(sig0 + "/norm-times-walker-is-not-the-propagated-state", dict(case, what="state"), dict(err=float(e1)))
            if not e2 <= 1e-9:
                res.violation(sig0 + "/walkers-not-orthonormal", dict(case, what="orth"), dict(err=float(e2)))
            if not e3 <= 1e-9:
                res.violation(sig0 + "/stored-overlap", dict(case, what="overlap"), dict(err=float(e3)))
            if not e4 <= 1e-9:
                res.violation(sig0 + "/normed-overlap", dict(case, what="normed"), dict(err=float(e4)))
        V = (PhiQ * (w * norms)[None]).sum(axis=1)
        target = np.linalg.matrix_power(expm(-dt * (H - ene0 * np.eye(sec.dim))), k) @ phi0
        resid.append(np.linalg.norm(V - target) / np.linalg.norm(target))
    ratios = [resid[i] / resid[i + 1] for i in range(len(resid) - 1)]
    liveidx = [i for i in range(len(ratios)) if resid[i + 1] >= FLOOR and resid[i] >= 10 * FLOOR]
    tail = liveidx[-2:]
    res.guard("ladder_ratios_live", len(liveidx))
    # with a short Taylor expansion the truncation (order dt^(nexp/2)) competes; the statement is about the HS error
    if nexp >= 6 and (any(not ratios[i] >= 3.0 for i in tail) or any(not ratios[i] >= 1.5 for i in liveidx)):
        res.violation(sig0 + "/field-average-not-second-order", dict(cfg, what="ladder"), dict(residuals=resid, ratios=ratios, dt=LADDER))
    if resid[0] > 0.1:
        res.violation(sig0 + "/field-average-far-off", dict(cfg, what="ladder"), dict(residuals=resid))
    res.nontrivial_values(("resid",) + tuple(sorted((k_, str(v)) for k_, v in cfg.items())), resid, 14)
    res.sample(dict(cfg=cfg, histories=M, residuals=["%.3e" % x for x in resid], ratios=["%.2f" % x for x in ratios]))
    # truncated exponential vs exact exponential within the Taylor remainder, node by node
    dt = 0.05
    prop = propagation.propagator_unrestricted(dt=dt, n_walkers=M, n_exp_terms=nexp)
    x = F[:, :nchol]
    worst = 0.0
    for wi in range(0, M, max(1, M // 200)):
        vhs = 1j * np.sqrt(dt) * np.einsum("g,gpq->pq", x[wi], S["chol"])
        got = np.asarray(prop._apply_trotprop_det(jnp.eye(n) + 0j, jnp.asarray(vhs), jnp.asarray(S["wa"])))
        ref = expm(vhs) @ S["wa"]
        nv = np.linalg.norm(vhs, 2)
        bound = nv ** nexp / math.factorial(nexp) * np.exp(nv) * np.linalg.norm(S["wa"], 2) + 1e-13
        err = np.linalg.norm(got - ref, 2)
        res.add(transitions=1, evaluations=1)
        res.guard("taylor_remainder_checked", 1)
        worst = max(worst, err / bound)
        if not err <= bound:
            res.violation(sig0 + "/truncated-exponential-outside-taylor-remainder", dict(cfg, what="taylor", node=wi), dict(err=float(err), bound=float(bound)))
    return res


def job_sampler(cfg):
    """sampler.propagate_free: block energy/weight recomputed from the returned trajectory, every stream."""
    from mc.checks.c12 import filler

    res = Result()
    n, na, nb = 3, 2, 1
    sysd = samplers.system(n, na, nb, 1, cfg["seed"], "unrestricted", scale=0.5)
    nw, ns, nblocks = 3, 2, 2
    shape = (ns, nw, 1)
    W = vrng.words([0.0, 1.5, -1.5], 4)
    nwords = np.repeat(np.concatenate([0.6 * filler(shape, 3 * b).ravel() for b in range(nblocks)])[None], len(W), axis=0)
    nwords[:, [0, 1, 6, 7]] = W
    tn, tu = vrng.stream_tables(nblocks, shape, nwords, [], list(range(nblocks)), [])
    vr = vrng.install(tn, tu)
    L = samplers.lib()
    jnp = L["jnp"]
    B = samplers.build(sysd, "unrestricted", nw, dt=0.05)
    samp = L["sampling"].sampler(ns, 1, 1, nblocks)
    J = samplers._jit_prop(B)
    for s in range(len(W)):
        pd = samplers.fresh_prop_data(B, vrng.key(s))
        tr, be, bw, key = samp.propagate_free(B["ham"], B["ham_data"], B["prop"], pd, B["trial"], B["wave_data"])
        be, bw = np.asarray(be), np.asarray(bw)
        res.add(states=1, transitions=nblocks, evaluations=1, traces=1)
        for b in range(nblocks):
            wk = [tr["walkers"][0][b], tr["walkers"][1][b]]
            el = np.asarray(J["en"](wk, B["ham_data"], B["wave_data"]))
            ov = np.asarray(tr["overlaps"][b])
            ref_e, ref_w = np.sum(el * ov) / np.sum(ov), np.sum(ov)
            ovr = np.asarray(J["ov"](wk, B["wave_data"])) * np.asarray(tr["norms"][b])
            res.guard("fp_blocks_recomputed", 1)
            if not (abs(be[b] - ref_e) <= 1e-9 * max(1, abs(ref_e)) and abs(bw[b] - ref_w) <= 1e-9 * max(1, abs(ref_w))):
                res.violation("sampler.propagate_free/block-energy", dict(cfg, what="fp-sampler", stream=s, block=b), dict(impl=[be[b], bw[b]], ref=[ref_e, ref_w]))
            if not np.abs(ov - ovr).max() <= 1e-9 * np.abs(ovr).max():
                res.violation("sampler.propagate_free/trajectory-overlap", dict(cfg, what="fp-sampler", stream=s, block=b), dict(err=float(np.abs(ov - ovr).max())))
        res.nontrivial((s, complex(np.round(be[-1], 10))))
    if vr.calls["normal"] == 0:
        raise RuntimeError("virtual RNG never traced")
    vrng.uninstall()
    return res


def run(ctx):
    ctx.rule = ("configurations = trial kind x size (both spins present) x n_chol x k consecutive steps x rdm1 {trial, zero, arbitrary} x "
                "ene0 x n_exp_terms {4,6,10,14} x n_batch {1,2} x dt ladder; inside each: EVERY history of tensor Gauss-Hermite nodes over all k*n_chol "
                "fields is one walker of one population pushed through k real propagate_free calls; state = (configuration, dt, step, "
                "history); plus the free-projection sampler over every virtual-RNG stream (3 letters on 4 positions)")
    ctx.assume("quadrature/round-off floor 2e-9; the second-order ratio is required in the small-dt tail and only for n_exp_terms >= 6")
    ctx.pmap(job, configs(ctx.tier, ctx.seed), tasks_per_child=2)
    ctx.pmap(job_sampler, [dict(seed=ctx.seed, tier=ctx.tier, kind="sampler")], tasks_per_child=2)
    ctx.require_guard("ladder_ratios_live", "taylor_remainder_checked", "fp_blocks_recomputed", "carried_dictionary_rebuilds")


def replay(case):
    if case.get("what") == "fp-sampler":
        r = job_sampler({k: case[k] for k in ("seed", "tier", "kind")})
    else:
        r = job({k: v for k, v in case.items() if k not in ("dt", "step", "what", "node")})
    return (len(r.violations) > 0, {"violations": [(v["signature"], v["detail"]) for v in r.violations][:2]})
