"""Shared harness for the sampler / driver level checks (C05 C06 C08 C09 C12 C14).

Small systems with a *converged* mean-field trial (NumPy SCF written here, independent of the library's
optimize), library object construction, and the draw schedule of every sampler entry point."""

import numpy as np

from mc import alphabets as al


def lib():
    from ad_afqmc import config

    config.afqmc_config["use_mpi"] = False
    config.setup_jax()
    import jax
    import jax.numpy as jnp
    from ad_afqmc import driver, hamiltonian, propagation, sampling, wavefunctions

    return dict(jax=jax, jnp=jnp, driver=driver, hamiltonian=hamiltonian, propagation=propagation,
                sampling=sampling, wf=wavefunctions, config=config)


# ----------------------------------------------------------------------------- small systems
def scf(h1, chol, na, nb, restricted, iters=4000, tol=1e-13):
    """Plain Roothaan iterations with damping on F = h + J - K built from Cholesky matrices (symmetric)."""
    n = h1.shape[-1]

    def fock(da, db):
        J = sum(np.sum(L * (da + db)) * L for L in chol)
        Ka = sum(L @ da @ L for L in chol)
        Kb = sum(L @ db @ L for L in chol)
        return h1[0] + J - Ka, h1[1] + J - Kb

    ea, ca = np.linalg.eigh(h1[0])
    eb, cb = np.linalg.eigh(h1[1])
    da, db = ca[:, :na] @ ca[:, :na].T, cb[:, :nb] @ cb[:, :nb].T
    for it in range(iters):
        fa, fb = fock(da, db)
        if restricted:
            fa = fb = 0.5 * (fa + fb)
        ea, ca = np.linalg.eigh(fa)
        eb, cb = np.linalg.eigh(fb)
        da2, db2 = ca[:, :na] @ ca[:, :na].T, cb[:, :nb] @ cb[:, :nb].T
        err = max(np.abs(da2 - da).max(), np.abs(db2 - db).max())
        da, db = 0.5 * (da + da2), 0.5 * (db + db2)
        if err < tol:
            break
    # the library's optimize() runs *undamped* Roothaan steps: demand that the solution is a stable fixed
    # point of those too (30 undamped steps from a 1e-9 perturbation must not amplify it), otherwise "converged trial" is ill-posed
    rng = np.random.default_rng(1)
    pa = da + 1e-9 * (lambda m: m + m.T)(rng.normal(size=da.shape))
    pb = db + 1e-9 * (lambda m: m + m.T)(rng.normal(size=db.shape))
    for _ in range(30):
        fa, fb = fock(pa, pb)
        if restricted:
            fa = fb = 0.5 * (fa + fb)
        _, xa = np.linalg.eigh(fa)
        _, xb = np.linalg.eigh(fb)
        pa, pb = xa[:, :na] @ xa[:, :na].T, xb[:, :nb] @ xb[:, :nb].T
    stable = max(np.abs(pa - da).max(), np.abs(pb - db).max())
    fa, fb = fock(da, db)
    if restricted:
        fa = fb = 0.5 * (fa + fb)
    ea, ca = np.linalg.eigh(fa)
    eb, cb = np.linalg.eigh(fb)
    gap = min(ea[na] - ea[na - 1] if na < n else 9.0, (eb[nb] - eb[nb - 1]) if 0 < nb < n else 9.0)
    return ca, cb, dict(err=err, gap=gap, iters=it, stable=stable)


def system(n, na, nb, nchol, seed, walker_type, scale=0.35, spin_dep=False):
    """Hamiltonian + converged HF orbitals.  walker_type 'restricted' -> rhf trial (na == nb), else uhf.
    spin_dep: the down-spin one-body matrix carries an extra symmetric (Zeeman / pinning-field like) term."""
    assert walker_type in ("restricted", "unrestricted")
    rng = np.random.default_rng(8800 + seed)
    for attempt in range(60):
        h0 = 0.2 + 0.01 * seed
        ha = np.diag(np.arange(n) * 0.9) + 0.25 * al.dense_sym(n, seed, 50 + attempt)
        chol = np.array([al.dense_sym(n, seed, 60 + 7 * attempt + g, scale) for g in range(nchol)])
        hb = ha + 0.3 * al.dense_sym(n, seed, 90 + attempt) if spin_dep else ha
        h1 = np.array([ha, hb])
        ca, cb, info = scf(h1, chol, na, nb, walker_type == "restricted")
        if info["err"] < 1e-12 and info["gap"] > 0.3 and info["stable"] < 3e-9:
            return dict(n=n, na=na, nb=nb, h0=h0, h1=h1, chol=chol, ca=ca, cb=cb, info=info)
    raise RuntimeError("no well-gapped converged SCF system found")


def symmetric_system(n=4, u=2.0):
    """A closed-shell ring with on-site repulsion: spatial symmetry gives exactly degenerate one-body levels
    (ring of 4: -2, 0, 0, 2), the situation in which eigen-decomposition based derivatives lose components."""
    K = np.zeros((n, n))
    for i in range(n):
        K[i, (i + 1) % n] = K[(i + 1) % n, i] = -1.0
    chol = np.array([np.sqrt(u) * np.diag(np.eye(n)[i]) for i in range(n)])
    h1 = np.array([K, K])
    ca, cb, info = scf(h1, chol, 1, 1, True)
    if not (info["err"] < 1e-12 and info["stable"] < 3e-9):
        raise RuntimeError("symmetric system did not converge to a stable SCF solution: %r" % (info,))
    return dict(n=n, na=1, nb=1, h0=0.1, h1=h1, chol=chol, ca=ca, cb=cb, info=info)


def near_degenerate_system(u=2.0, split=1.0e-8):
    """Closed-shell 3-ring with positive hopping: one-body levels (-1, -1, 2), so (2,2) electrons fill a DEGENERATE
    occupied pair; a tiny on-site term splits the pair by ~split (never bitwise equal, far inside the library's
    degeneracy threshold 1e-5).  Rotations inside the occupied pair leave the determinant unchanged, so AD through the
    SCF must still equal finite differences; a derivative rule that mixes near-degenerate eigenvectors does not."""
    n = 3
    K = np.zeros((n, n))
    for i in range(n):
        K[i, (i + 1) % n] = K[(i + 1) % n, i] = 1.0
    K[0, 0] += split
    chol = np.array([np.sqrt(u) * np.diag(np.eye(n)[i]) for i in range(n)])
    h1 = np.array([K, K])
    ca, cb, info = scf(h1, chol, 2, 2, True)
    if not (info["err"] < 1e-12 and info["stable"] < 3e-9):
        raise RuntimeError("near-degenerate system did not converge to a stable SCF solution: %r" % (info,))
    return dict(n=n, na=2, nb=2, h0=0.1, h1=h1, chol=chol, ca=ca, cb=cb, info=info)


def build(sysd, walker_type, n_walkers, dt=0.01, n_batch=1, trial_kind=None, n_opt_iter=30, mo_scale=1.0):
    """Library objects for a system: ham handler, ham_data (with both intermediates), prop, trial, wave_data."""
    L = lib()
    jnp = L["jnp"]
    n, na, nb = sysd["n"], sysd["na"], sysd["nb"]
    wf, P = L["wf"], L["propagation"]
    if trial_kind is None:
        trial_kind = "rhf" if walker_type == "restricted" else "uhf"
    if trial_kind == "rhf":
        trial = wf.rhf(n, (na, nb), n_opt_iter=n_opt_iter, n_batch=n_batch)
        # mo_scale != 1: an unnormalised trial (same state, overlaps scaled by mo_scale**(n_up+n_dn)); the supplied rdm1 stays
        wd = {"mo_coeff": jnp.asarray(mo_scale * sysd["ca"][:, :na])}
        rdm = np.array([sysd["ca"][:, :na] @ sysd["ca"][:, :na].T] * 2)
    else:
        trial = wf.uhf(n, (na, nb), n_opt_iter=n_opt_iter, n_batch=n_batch)
        wd = {"mo_coeff": [jnp.asarray(mo_scale * sysd["ca"][:, :na]), jnp.asarray(mo_scale * sysd["cb"][:, :nb])]}
        rdm = np.array([sysd["ca"][:, :na] @ sysd["ca"][:, :na].T, sysd["cb"][:, :nb] @ sysd["cb"][:, :nb].T])
    wd["rdm1"] = jnp.asarray(rdm)
    prop = (P.propagator_restricted if walker_type == "restricted" else P.propagator_unrestricted)(
        dt=dt, n_walkers=n_walkers, n_batch=n_batch)
    ham = L["hamiltonian"].hamiltonian(n)
    hd = {"h0": sysd["h0"], "h1": jnp.asarray(sysd["h1"]), "chol": jnp.asarray(sysd["chol"].reshape(len(sysd["chol"]), n * n)),
          "ene0": 0.0}
    hd = ham.build_measurement_intermediates(hd, trial, wd)
    hd = ham.build_propagation_intermediates(hd, prop, trial, wd)
    return dict(L=L, ham=ham, ham_data=hd, prop=prop, trial=trial, wave_data=wd, walker_type=walker_type)


def with_rdm1(B, rdm1):
    """The same objects with a caller-supplied density for the mean-field shift that is NOT the trial's own (allowed by
    the wave_function docstring); both sets of intermediates rebuilt through the public builders."""
    jnp = B["L"]["jnp"]
    wd = dict(B["wave_data"])
    wd["rdm1"] = jnp.asarray(rdm1)
    hd = {k: v for k, v in B["ham_data"].items() if k in ("h0", "h1", "chol", "ene0")}
    hd = B["ham"].build_measurement_intermediates(hd, B["trial"], wd)
    hd = B["ham"].build_propagation_intermediates(hd, B["prop"], B["trial"], wd)
    return dict(B, wave_data=wd, ham_data=hd)


def fresh_prop_data(B, key):
    """prop_data as driver.afqmc builds it (init_prop_data + key)."""
    pd = B["prop"].init_prop_data(B["trial"], B["wave_data"], B["ham_data"], None)
    pd["key"] = key
    return pd


# ----------------------------------------------------------------------------- draw schedules
def schedule(entry, n_sr, n_ene):
    """Draw counters at which an entry point consumes normal / uniform numbers (one split per draw)."""
    normal, uniform = [], []
    c = 0
    if entry in ("plain", "ad", "ad_norot", "ad_1"):
        for b in range(n_sr):
            for e in range(n_ene):
                normal.append(c)
                c += 1
            uniform.append(c)
            c += 1
    elif entry in ("ad_nosr", "ad_nosr_norot"):
        for e in range(n_ene):
            normal.append(c)
            c += 1
    else:
        raise ValueError(entry)
    return normal, uniform, c


ENTRY_METHOD = {"plain": "propagate_phaseless", "ad": "propagate_phaseless_ad", "ad_nosr": "propagate_phaseless_ad_nosr",
                "ad_norot": "propagate_phaseless_ad_norot", "ad_nosr_norot": "propagate_phaseless_ad_nosr_norot",
                "ad_1": "propagate_phaseless_ad_1"}


def call_entry(B, samp, entry, prop_data, coupling=0.0, observable=None):
    """Call one sampler entry point exactly with the argument order driver.afqmc uses."""
    jnp = B["L"]["jnp"]
    if entry == "plain":
        return samp.propagate_phaseless(B["ham"], B["ham_data"], B["prop"], prop_data, B["trial"], B["wave_data"])
    if observable is None:
        observable = 0.0 * B["ham_data"]["h1"]
    m = getattr(samp, ENTRY_METHOD[entry])
    return m(B["ham"], B["ham_data"], coupling, observable, B["prop"], prop_data, B["trial"], B["wave_data"])


def eri_from_chol(chol, n):
    c = np.asarray(chol).reshape(len(chol), -1)
    return (c.T @ c).reshape(n, n, n, n)


def copy_pd(pd):
    """Shallow functional copy of a prop_data dict (lists duplicated) so calls never alias inputs."""
    out = {}
    for k, v in pd.items():
        out[k] = list(v) if isinstance(v, list) else v
    return out


# ----------------------------------------------------------------------------- explicit single-step executor (reference)
_JP = {}


def _jit_prop(B):
    key = (B["prop"], B["trial"])
    if key not in _JP:
        jax = B["L"]["jax"]
        prop, trial = B["prop"], B["trial"]
        _JP[key] = dict(
            ov=jax.jit(lambda w, wd: trial.calc_overlap(w, wd)),
            en=jax.jit(lambda w, hd, wd: trial.calc_energy(w, hd, wd)),
        )
    return _JP[key]


def explicit_call(B, entry, n_steps, n_ene, n_sr, pd, table_n, table_u, stream):
    """The sampler entry point spelled out with single public steps: prop.propagate for every step with the
    same virtual-RNG letters, QR and comb by hand, and an explicit overlap refresh after EVERY modification
    of the walkers.  Returns (energy, prop_data, trace of per-block (energy, weight))."""
    from ad_afqmc import sr as srmod

    jnp = B["L"]["jnp"]
    prop, trial, hd, wd = B["prop"], B["trial"], B["ham_data"], B["wave_data"]
    J = _jit_prop(B)
    pd = copy_pd(pd)
    restricted = B["walker_type"] == "restricted"
    c = int(np.asarray(pd["key"])[1])
    s = int(stream)
    pd["overlaps"] = J["ov"](pd["walkers"], wd)  # refresh at entry
    pd["n_killed_walkers"] = 0
    pd["pop_control_ene_shift"] = pd["e_estimate"]
    has_sr = entry in ("plain", "ad", "ad_norot", "ad_1")
    outer = n_sr if has_sr else 1
    be, bw = [], []
    for b in range(outer):
        for e in range(n_ene):
            fields = np.asarray(table_n[s, c])
            c += 1
            for t in range(n_steps):
                pd = prop.propagate(trial, hd, pd, jnp.asarray(fields[t]), wd)
            w = np.asarray(pd["weights"])
            pd["n_killed_walkers"] = pd["n_killed_walkers"] + (w.size - np.count_nonzero(w))
            pd = prop.orthonormalize_walkers(pd)
            pd["overlaps"] = J["ov"](pd["walkers"], wd)
            el = np.real(np.asarray(J["en"](pd["walkers"], hd, wd)))
            est = float(pd["e_estimate"])
            el = np.where(np.abs(el - est) <= np.sqrt(2.0 / prop.dt), el, est)  # NaN counts as a large deviation
            wsum = float(np.sum(w))
            ene = float(np.sum(el * w) / wsum)
            pd["pop_control_ene_shift"] = 0.9 * pd["pop_control_ene_shift"] + 0.1 * ene
            be.append(ene)
            bw.append(wsum)
        if has_sr:
            zeta = float(table_u[s, c])
            c += 1
            if restricted:
                pd["walkers"], pd["weights"] = srmod.stochastic_reconfiguration(pd["walkers"], pd["weights"], zeta)
            else:
                pd["walkers"], pd["weights"] = srmod.stochastic_reconfiguration_uhf(list(pd["walkers"]), pd["weights"], zeta)
            pd["overlaps"] = J["ov"](pd["walkers"], wd)
    pd["n_killed_walkers"] = pd["n_killed_walkers"] / (n_sr * n_ene * prop.n_walkers)
    pd["key"] = jnp.array([s, c], dtype=jnp.uint32)
    be, bw = np.array(be), np.array(bw)
    return float(np.sum(be * bw) / np.sum(bw)), pd, list(zip(be.tolist(), bw.tolist()))


def explicit_glue(B, pd, energy, table_u, stream):
    """driver.afqmc's glue between sampler calls: QR, global comb (single process), e_estimate update; the
    overlaps are refreshed here too (the library relies on the refresh at the next sampler entry)."""
    from ad_afqmc import sr as srmod

    jnp = B["L"]["jnp"]
    J = _jit_prop(B)
    pd = copy_pd(pd)
    c = int(np.asarray(pd["key"])[1])
    pd = B["prop"].orthonormalize_walkers(pd)
    zeta = float(table_u[int(stream), c])
    c += 1
    if B["walker_type"] == "restricted":
        pd["walkers"], pd["weights"] = srmod.stochastic_reconfiguration(pd["walkers"], pd["weights"], zeta)
    else:
        pd["walkers"], pd["weights"] = srmod.stochastic_reconfiguration_uhf(list(pd["walkers"]), pd["weights"], zeta)
    pd["overlaps"] = J["ov"](pd["walkers"], B["wave_data"])
    pd["e_estimate"] = 0.9 * pd["e_estimate"] + 0.1 * energy
    pd["key"] = jnp.array([int(stream), c], dtype=jnp.uint32)
    return pd


def library_glue(B, pd, energy):
    """The same glue executed with the library's own methods, exactly as driver.afqmc does (no refresh)."""
    comm = B["L"]["config"].not_a_comm()
    pd = B["prop"].orthonormalize_walkers(pd)
    pd = B["prop"].stochastic_reconfiguration_global(pd, comm)
    pd["e_estimate"] = 0.9 * pd["e_estimate"] + 0.1 * energy
    return pd
