"""CLI:  python -m mc.run <ID> [--tier quick|thorough] [--replay file]

exit 0: property held on everything explored (KNOWN-FINDING lines allowed)
exit 1: VIOLATION property=<id> replay=<path>
exit 2: harness error (never a verdict about the repository)
"""

import argparse
import importlib
import json
import os
import sys
import traceback


def main():
    ap = argparse.ArgumentParser()
    ap.add_argument("pid")
    ap.add_argument("--tier", default=os.environ.get("VERIF_TIER", "quick"), choices=["quick", "thorough"])
    ap.add_argument("--replay", default=None)
    args = ap.parse_args()
    seed = int(os.environ.get("VERIF_SEED", "0"))

    if args.pid == "selftest":
        from mc import selftest

        sys.exit(selftest.main())

    from mc import core

    mod = importlib.import_module("mc.checks.%s" % args.pid.lower())
    if args.replay:
        with open(args.replay) as f:
            rec = json.load(f)
        violates, detail = mod.replay(core.dec(rec["case"]))
        print(json.dumps(core.enc(detail))[:2000])
        if violates:
            known = [e for e in core.load_known() if e["property"] == args.pid
                     and e["signature"] == rec.get("signature") and e["status"] == "known"]
            if known:
                print("KNOWN-FINDING: property=%s %s -- %s" % (args.pid, rec["signature"], known[0].get("what", "")))
                sys.exit(0)
            print("VIOLATION property=%s replay=%s" % (args.pid, args.replay))
            sys.exit(1)
        print("replay: property holds on this case")
        sys.exit(0)

    ctx = core.Ctx(args.pid, args.tier, seed, mod)
    try:
        mod.run(ctx)
        rc = ctx.finish()
    except core.HarnessError as e:
        print("HARNESS-ERROR %s: %s" % (args.pid, e))
        sys.exit(2)
    except Exception:
        traceback.print_exc()
        print("HARNESS-ERROR %s: unexpected exception" % args.pid)
        sys.exit(2)
    sys.exit(rc)


if __name__ == "__main__":
    main()
