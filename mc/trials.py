"""Builders that produce, for each trial kind, the library object + wave_data and the reference ket
(sector vector of the explicit second-quantised state), over a finite basis of trial parameters."""

import itertools
from dataclasses import dataclass, field

import numpy as np

from mc import alphabets as al
from mc import fock

KINDS_SD = ["rhf", "uhf", "ghf"]
KINDS_ALL = ["rhf", "uhf", "ghf", "noci", "multislater", "CISD", "UCISD", "GCISD", "CISD_THC",
             "cisd", "cisd_faster", "ucisd", "uhf_cpmc", "ghf_cpmc"]
RESTRICTED_ONLY = {"CISD", "CISD_THC", "cisd", "cisd_faster"}
CLOSED_ONLY = {"rhf", "CISD", "CISD_THC", "cisd", "cisd_faster"}
# kinds documented to refuse an empty spin channel (property C01 quantifier)
NEED_BOTH_SPINS = {"multislater", "CISD", "UCISD", "GCISD", "CISD_THC"}
AUTO_KINDS = {"multislater", "CISD", "UCISD", "GCISD", "CISD_THC"}


def lib():
    from ad_afqmc import config

    config.afqmc_config["use_mpi"] = False
    config.setup_jax()
    import jax.numpy as jnp
    from ad_afqmc import wavefunctions

    return jnp, wavefunctions


@dataclass
class ParamSet:
    label: str
    wave_data: dict
    ket: np.ndarray  # sector vector
    extra: dict = field(default_factory=dict)


@dataclass
class TrialCase:
    kind: str
    n: int
    na: int
    nb: int
    trial: object
    Qa: np.ndarray
    Qb: np.ndarray
    params: list
    restricted_ok: bool
    unrestricted_ok: bool
    variant: str = ""


def admitted(kind, n, na, nb):
    if kind in CLOSED_ONLY and na != nb:
        return False
    if kind in ("CISD", "CISD_THC", "cisd", "cisd_faster") and (na >= n):
        return False  # needs at least one virtual
    if kind in ("UCISD", "ucisd") and (na >= n or nb >= n):
        return False
    if kind == "GCISD" and na + nb >= 2 * n:
        return False
    return True


def _tmat(k, seed, salt):
    """A well conditioned non-orthogonal k x k mixing (for non-orthonormal trial orbitals)."""
    rng = np.random.default_rng(900 + seed * 13 + salt)
    return np.eye(k) + 0.3 * rng.normal(size=(k, k))


def _cmat(k, seed, salt):
    """A well conditioned COMPLEX k x k mixing: rhf/uhf conjugate their orbitals (mo.T.conj()), so complex
    coefficients are admissible for them and make a lost conj() visible."""
    rng = np.random.default_rng(1900 + seed * 7 + salt)
    return np.eye(k) + 0.3 * rng.normal(size=(k, k)) + 0.4j * rng.normal(size=(k, k))


def _sym_units_ci2(no, nv):
    """units of the symmetric restricted ci2: c[i,a,j,b] = c[j,b,i,a]"""
    pairs = [(i, a) for i in range(no) for a in range(nv)]
    out = []
    for x, (i, a) in enumerate(pairs):
        for (j, b) in pairs[x:]:
            c = np.zeros((no, nv, no, nv))
            c[i, a, j, b] = 1.0
            c[j, b, i, a] = 1.0
            out.append(("ci2[%d%d%d%d]" % (i, a, j, b), c))
    return out


def _antisym_units_ci2(no, nv):
    """units of the same-spin ci2 amplitude tensor c[i,a,j,b] antisymmetric in (i,j) and in (a,b)."""
    out = []
    for i in range(no):
        for j in range(i + 1, no):
            for a in range(nv):
                for b in range(a + 1, nv):
                    c = np.zeros((no, nv, no, nv))
                    c[i, a, j, b] = 1.0
                    c[j, a, i, b] = -1.0
                    c[i, b, j, a] = -1.0
                    c[j, b, i, a] = 1.0
                    out.append(("ci2aa[%d%d%d%d]" % (i, a, j, b), c))
    return out


def _dense_antisym_ci2(no, nv, rng):
    c = np.zeros((no, nv, no, nv))
    for _, u in _antisym_units_ci2(no, nv):
        c += rng.normal() * u
    return c


def _dense_sym_ci2(no, nv, rng):
    c = rng.normal(size=(no, nv, no, nv))
    return 0.5 * (c + c.transpose(2, 3, 0, 1))


def build(kind, n, na, nb, seed=0, variant="", n_batch=1, eps=None, full_basis=True):
    """Return a TrialCase.  variant: '' | 'nonorth' (single determinants / NOCI with non-orthonormal
    orbitals) | 'ref:<k>' (multislater reference determinant index) ..."""
    jnp, wf = lib()
    rng = np.random.default_rng(31 * seed + 5 * n + 3 * na + nb + sum(map(ord, kind)))
    I = np.eye(n)
    kw = {}
    if eps is not None:
        kw["eps"] = eps

    if kind == "rhf":
        Q = al.frame(n, seed, 1)
        T = _tmat(na, seed, 1) if variant == "nonorth" else _cmat(na, seed, 1) if variant == "complex" else np.eye(na)
        mo = Q[:, :na] @ T
        if variant == "complex_orth":  # genuinely complex occupied space, orthonormal columns (density-matrix clause)
            mo = np.linalg.qr(Q @ _cmat(n, seed, 11))[0][:, :na]
        trial = wf.rhf(n, (na, nb), n_batch=n_batch)
        wd = {"mo_coeff": jnp.asarray(mo)}
        ket = fock.ket_uhf(n, na, nb, mo, mo)
        return TrialCase(kind, n, na, nb, trial, Q, Q, [ParamSet("mo", wd, ket)], True, True, variant)

    if kind in ("uhf", "uhf_cpmc"):
        Qa = al.frame(n, seed, 2)
        Qb = Qa if variant in ("same", "nonorth_same", "complex_same") else al.frame(n, seed, 3)
        Ta = _tmat(na, seed, 2) if variant.startswith("nonorth") else _cmat(na, seed, 2) if variant.startswith("complex") else np.eye(na)
        Tb = _tmat(nb, seed, 3) if variant.startswith("nonorth") else _cmat(nb, seed, 3) if variant.startswith("complex") else np.eye(nb)
        moa, mob = Qa[:, :na] @ Ta, Qb[:, :nb] @ Tb
        if variant == "complex_orth":
            moa, mob = np.linalg.qr(Qa @ _cmat(n, seed, 12))[0][:, :na], np.linalg.qr(Qb @ _cmat(n, seed, 13))[0][:, :nb]
        cls = wf.uhf if kind == "uhf" else wf.uhf_cpmc
        trial = cls(n, (na, nb), n_batch=n_batch)
        wd = {"mo_coeff": [jnp.asarray(moa), jnp.asarray(mob)]}
        ket = fock.ket_uhf(n, na, nb, moa, mob)
        return TrialCase(kind, n, na, nb, trial, Qa, Qb, [ParamSet("mo", wd, ket)],
                         variant in ("same", "nonorth_same", "complex_same"), True, variant)

    if kind in ("ghf", "ghf_cpmc", "GCISD"):
        Qa, Qb = al.frame(n, seed, 4), al.frame(n, seed, 5)
        N = na + nb
        # columns: first na alpha frame vectors, first nb beta frame vectors, then the rest; then a small
        # spin-mixing rotation so the state is genuinely generalised
        cols = []
        for k in range(na):
            cols.append(np.concatenate([Qa[:, k], np.zeros(n)]))
        for k in range(nb):
            cols.append(np.concatenate([np.zeros(n), Qb[:, k]]))
        for k in range(na, n):
            cols.append(np.concatenate([Qa[:, k], np.zeros(n)]))
        for k in range(nb, n):
            cols.append(np.concatenate([np.zeros(n), Qb[:, k]]))
        C0 = np.array(cols).T  # 2n x 2n orthogonal
        K = rng.normal(size=(2 * n, 2 * n))
        K = 0.12 * (K - K.T)
        from scipy.linalg import expm

        C = C0 @ expm(K)
        if kind in ("ghf", "ghf_cpmc"):
            T = (np.eye(N) + 0.3 * rng.normal(size=(N, N))) if variant == "nonorth" else _cmat(N, seed, 4) if variant == "complex" else np.eye(N)
            mo = C[:, :N] @ T
            if variant == "complex_orth":
                mo = np.linalg.qr(C @ _cmat(2 * n, seed, 14))[0][:, :N]
            cls = wf.ghf if kind == "ghf" else wf.ghf_cpmc
            trial = cls(n, (na, nb), n_batch=n_batch)
            wd = {"mo_coeff": jnp.asarray(mo)}
            ket = fock.ket_ghf(n, na, nb, mo)
            return TrialCase(kind, n, na, nb, trial, Qa, Qb, [ParamSet("mo", wd, ket)], False, True, variant)
        # GCISD
        no, nv = N, 2 * n - N
        trial = wf.GCISD(n, (na, nb), n_batch=n_batch, **kw)
        ps = []

        def mk(label, c1, c2):
            wd = {"ci1": jnp.asarray(c1), "ci2": jnp.asarray(c2), "mo_coeff": jnp.asarray(C)}
            return ParamSet(label, wd, fock.ket_gcisd(n, na, nb, c1, c2, C))

        z1, z2 = np.zeros((no, nv)), np.zeros((no, nv, no, nv))
        ps.append(mk("zero", z1, z2))
        if full_basis:
            for i in range(no):
                for a in range(nv):
                    c = z1.copy()
                    c[i, a] = 1.0
                    ps.append(mk("ci1[%d%d]" % (i, a), c, z2))
            for lab, u in _antisym_units_ci2(no, nv):
                ps.append(mk(lab, z1, u))
        ps.append(mk("dense", 0.4 * rng.normal(size=(no, nv)), 0.3 * _dense_antisym_ci2(no, nv, rng)))
        return TrialCase(kind, n, na, nb, trial, Qa, Qb, ps, False, True, variant)

    if kind == "noci":
        nd = 3 if variant == "3det" else 2
        Qa, Qb = al.frame(n, seed, 6), al.frame(n, seed, 7)
        from scipy.linalg import expm

        dets_up, dets_dn = [], []
        for d in range(nd):
            Ka = rng.normal(size=(n, n))
            Kb = rng.normal(size=(n, n))
            Ra = expm(0.15 * d * (Ka - Ka.T))
            Rb = expm(0.15 * d * (Kb - Kb.T))
            Ta = _tmat(na, seed, 20 + d) if variant == "nonorth" else _cmat(na, seed, 20 + d) if variant == "complex" else np.eye(na)
            Tb = _tmat(nb, seed, 30 + d) if variant == "nonorth" else _cmat(nb, seed, 30 + d) if variant == "complex" else np.eye(nb)
            if variant == "complex_orth":  # genuinely complex, orthonormal columns in every determinant
                dets_up.append(np.linalg.qr(Qa @ Ra @ _cmat(n, seed, 40 + d))[0][:, :na])
                dets_dn.append(np.linalg.qr(Qb @ Rb @ _cmat(n, seed, 50 + d))[0][:, :nb])
                continue
            dets_up.append((Qa @ Ra)[:, :na] @ Ta)
            dets_dn.append((Qb @ Rb)[:, :nb] @ Tb)
        dets_up, dets_dn = np.array(dets_up), np.array(dets_dn)
        trial = wf.noci(n, (na, nb), nd, n_batch=n_batch)
        ps = []
        sets = [("unit%d" % d, np.eye(nd)[d]) for d in range(nd)] if full_basis else []
        sets.append(("dense", 0.5 + rng.random(nd)))
        for lab, c in sets:
            wd = {"ci_coeffs_dets": [jnp.asarray(c), [jnp.asarray(dets_up), jnp.asarray(dets_dn)]]}
            ps.append(ParamSet(lab, wd, fock.ket_noci(n, na, nb, c, dets_up, dets_dn),
                               extra=dict(coeffs=c, dets_up=dets_up, dets_dn=dets_dn)))
        return TrialCase(kind, n, na, nb, trial, Qa, Qb, ps, False, True, variant)

    if kind in ("CISD", "cisd", "cisd_faster", "CISD_THC"):
        no, nv = na, n - na
        cls = {"CISD": wf.CISD, "cisd": wf.cisd, "cisd_faster": wf.cisd_faster, "CISD_THC": wf.CISD_THC}[kind]
        trial = cls(n, (na, nb), n_batch=n_batch, **(kw if kind in ("CISD", "CISD_THC") else {}))
        ps = []
        z1, z2 = np.zeros((no, nv)), np.zeros((no, nv, no, nv))
        if kind == "CISD_THC":
            nP = 3

            def mk(label, c1, Xo, Xv, V):
                wd = {"ci1": jnp.asarray(c1), "Xocc": jnp.asarray(Xo), "Xvirt": jnp.asarray(Xv), "VKL": jnp.asarray(V)}
                return ParamSet(label, wd, fock.ket_cisd_restricted(n, no, c1, fock.thc_ci2(Xo, Xv, V)))

            Xo, Xv = rng.normal(size=(nP, no)), rng.normal(size=(nP, nv))
            V = rng.normal(size=(nP, nP))
            V = 0.5 * (V + V.T)
            ps.append(mk("zeroV", z1, Xo, Xv, 0 * V))
            if full_basis:
                for P in range(nP):
                    for Qx in range(P, nP):
                        U = np.zeros((nP, nP))
                        U[P, Qx] = U[Qx, P] = 1.0
                        ps.append(mk("V[%d%d]" % (P, Qx), z1, Xo, Xv, U))
            ps.append(mk("dense", 0.4 * rng.normal(size=(no, nv)), Xo, Xv, 0.4 * V))
            return TrialCase(kind, n, na, nb, trial, I, I, ps, True, False, variant)

        def mk(label, c1, c2):
            wd = {"ci1": jnp.asarray(c1), "ci2": jnp.asarray(c2)}
            return ParamSet(label, wd, fock.ket_cisd_restricted(n, no, c1, c2), extra=dict(ci1=c1, ci2=c2))

        ps.append(mk("zero", z1, z2))
        if full_basis:
            for i in range(no):
                for a in range(nv):
                    c = z1.copy()
                    c[i, a] = 1.0
                    ps.append(mk("ci1[%d%d]" % (i, a), c, z2))
            for lab, u in _sym_units_ci2(no, nv):
                ps.append(mk(lab, z1, u))
        ps.append(mk("dense", 0.4 * rng.normal(size=(no, nv)), 0.3 * _dense_sym_ci2(no, nv, rng)))
        return TrialCase(kind, n, na, nb, trial, I, I, ps, True, False, variant)

    if kind in ("UCISD", "ucisd"):
        moB = al.frame(n, seed, 8)
        if variant == "nonorth":  # overlap statement only: the beta determinants are built from NON-orthonormal columns
            moB = moB @ _tmat(n, seed, 61)
        noa, nva, nob, nvb = na, n - na, nb, n - nb
        cls = wf.UCISD if kind == "UCISD" else wf.ucisd
        trial = cls(n, (na, nb), n_batch=n_batch, **(kw if kind == "UCISD" else {}))
        ps = []
        zA, zB = np.zeros((noa, nva)), np.zeros((nob, nvb))
        zAA, zBB = np.zeros((noa, nva, noa, nva)), np.zeros((nob, nvb, nob, nvb))
        zAB = np.zeros((noa, nva, nob, nvb))

        def mk(label, cA, cB, cAA, cAB, cBB):
            wd = {"ci1A": jnp.asarray(cA), "ci1B": jnp.asarray(cB), "ci2AA": jnp.asarray(cAA),
                  "ci2AB": jnp.asarray(cAB), "ci2BB": jnp.asarray(cBB),
                  "mo_coeff": [jnp.asarray(I), jnp.asarray(moB)]}
            return ParamSet(label, wd, fock.ket_ucisd(n, na, nb, cA, cB, cAA, cAB, cBB, moB),
                            extra=dict(ci1A=cA, ci1B=cB, ci2AA=cAA, ci2AB=cAB, ci2BB=cBB, moB=moB))

        ps.append(mk("zero", zA, zB, zAA, zAB, zBB))
        if full_basis:
            for i in range(noa):
                for a in range(nva):
                    c = zA.copy()
                    c[i, a] = 1.0
                    ps.append(mk("ci1A[%d%d]" % (i, a), c, zB, zAA, zAB, zBB))
            for i in range(nob):
                for a in range(nvb):
                    c = zB.copy()
                    c[i, a] = 1.0
                    ps.append(mk("ci1B[%d%d]" % (i, a), zA, c, zAA, zAB, zBB))
            for lab, u in _antisym_units_ci2(noa, nva):
                ps.append(mk("AA" + lab, zA, zB, u, zAB, zBB))
            for lab, u in _antisym_units_ci2(nob, nvb):
                ps.append(mk("BB" + lab, zA, zB, zAA, zAB, u))
            for i in range(noa):
                for a in range(nva):
                    for j in range(nob):
                        for b in range(nvb):
                            c = zAB.copy()
                            c[i, a, j, b] = 1.0
                            ps.append(mk("ci2AB[%d%d%d%d]" % (i, a, j, b), zA, zB, zAA, c, zBB))
        ps.append(mk("dense", 0.4 * rng.normal(size=zA.shape), 0.4 * rng.normal(size=zB.shape),
                     0.3 * _dense_antisym_ci2(noa, nva, rng), 0.3 * rng.normal(size=zAB.shape),
                     0.3 * _dense_antisym_ci2(nob, nvb, rng)))
        return TrialCase(kind, n, na, nb, trial, I, moB, ps, False, True, variant)

    if kind == "multislater":
        return build_multislater(n, na, nb, seed, variant, n_batch, eps, full_basis)

    raise ValueError(kind)


# ----------------------------------------------------------------------------- multi-Slater
def all_dets(n, na, nb):
    out = []
    for a in itertools.combinations(range(n), na):
        for b in itertools.combinations(range(n), nb):
            oa = tuple(1 if i in a else 0 for i in range(n))
            ob = tuple(1 if i in b else 0 for i in range(n))
            out.append((oa, ob))
    return out


def multislater_from_state(n, na, nb, state, max_excitation, n_batch=1, eps=None):
    """state: ordered dict {(occ_a, occ_b): coeff}; first key is the reference.  Uses the library's own
    get_excitations to build wave_data, exactly as examples/hchain.msd.py does."""
    jnp, wf = lib()
    from ad_afqmc import pyscf_interface

    Acre, Ades, Bcre, Bdes, coeff, ref_det = pyscf_interface.get_excitations(
        state=state, max_excitation=max_excitation, ndets=len(state))
    wd = {"Acre": Acre, "Ades": Ades, "Bcre": Bcre, "Bdes": Bdes, "coeff": coeff, "ref_det": ref_det}
    kw = {} if eps is None else {"eps": eps}
    trial = wf.multislater(n, (na, nb), max_excitation, n_batch=n_batch, **kw)
    return trial, wd


def needed_excitation(state):
    keys = list(state.keys())
    d0a, d0b = np.array(keys[0][0]), np.array(keys[0][1])
    m = 0
    for (a, b) in keys:
        m = max(m, int(np.abs(np.array(a) - d0a).sum() // 2 + np.abs(np.array(b) - d0b).sum() // 2))
    return max(m, 1)


def frame_for_ref(n, occ):
    """Permutation matrix Q with W = Q @ G putting G's leading rows on the occupied orbitals of occ."""
    occ_idx = [i for i, x in enumerate(occ) if x]
    virt_idx = [i for i, x in enumerate(occ) if not x]
    perm = occ_idx + virt_idx
    Q = np.zeros((n, n))
    for g, r in enumerate(perm):
        Q[r, g] = 1.0
    return Q


def build_multislater(n, na, nb, seed, variant, n_batch=1, eps=None, full_basis=True):
    """variant 'ref:<k>' makes determinant k of the lexicographic list the reference (first key).
    Parameter sets: every single determinant alone is impossible (the reference must be present), so
    the basis is {ref only, ref + each other determinant, dense}."""
    rng = np.random.default_rng(77 + seed + 3 * n + na + nb)
    dets = all_dets(n, na, nb)
    k = int(variant.split(":")[1]) if variant.startswith("ref:") else 0
    k = k % len(dets)
    ref = dets[k]
    others = [d for d in dets if d != ref]
    ps = []
    trial = None

    def mk(label, state):
        nonlocal trial
        mx = needed_excitation(state)
        trial_, wd = multislater_from_state(n, na, nb, state, mx, n_batch, eps)
        ket = fock.ket_multislater(n, na, nb, [(a, b, c) for (a, b), c in state.items()])
        return trial_, ParamSet(label, wd, ket, extra=dict(state=[(a, b, c) for (a, b), c in state.items()], max_excitation=mx))

    cases = []
    t, p = mk("ref", {ref: 1.0})
    cases.append((t, p))
    pick = others if full_basis else [others[i] for i in sorted(set([0, len(others) // 2, len(others) - 1]))] if others else []
    for d in pick:
        t, p = mk("ref+%s" % (str(d)), {ref: 0.8, d: 0.6})
        cases.append((t, p))
    st = {ref: 1.0}
    for d in others:
        st[d] = float(rng.normal())
    t, p = mk("dense", st)
    cases.append((t, p))
    Qa, Qb = frame_for_ref(n, ref[0]), frame_for_ref(n, ref[1])
    # trial objects differ by max_excitation; keep each with its param set
    tc = TrialCase("multislater", n, na, nb, None, Qa, Qb, [p for _, p in cases], na == nb, True, variant)
    tc.trials = [t for t, _ in cases]
    tc.ref = ref
    return tc
