"""combmc: exact analysis of the systematic-resampling comb (the probmc part of C07).

For a weight vector w (float64 letters, taken as exact rationals) the comb with offset zeta in (0,1)
puts tooth k at z_k = W (k + zeta) / N and selects for output slot k the smallest j with
cum_j >= z_k (cum = cumulative |w|, W = cum_{N-1}).  As a function of zeta the selection is piecewise
constant with breakpoints  zeta = N cum_j / W - k  in (0,1).  ``Analysis`` computes, in exact rational
arithmetic,

  * the breakpoints and the open intervals between them -- a partition of (0,1) up to a null set,
  * the selection / the count vector c_i on every interval (the whole count *function* c_i(zeta)),
  * the exact mean  sum_I |I| c_i(I)  (must equal N |w_i| / W: self-check of the reference),
  * float probes of every interval: lo + delta, midpoint, hi - delta (intervals shorter than 4 delta
    cannot be probed in float64 away from their ends and are listed as *unprobed*),
  * "robust ties": breakpoints that are float64 numbers at which every float operation of both
    library formula orders is exact, so the tie itself is decided without rounding.

``comb_exact`` (rationals) and ``comb_float`` (the boring serial loop on the same float64 cumulative
sums the library uses) are the two reference combs; away from breakpoints they must coincide.
"""

from __future__ import annotations

from bisect import bisect_left
from fractions import Fraction

import numpy as np

DELTA = Fraction(1, 2 ** 30)


def comb_exact(cum, W, N, zeta):
    """Selection of the exact comb: for each slot k the smallest j with cum_j >= W (k + zeta) / N."""
    out = []
    for k in range(N):
        z = W * (k + zeta) / N
        out.append(bisect_left(cum, z))
    return out


def comb_float(w, zeta):
    """Boring serial comb on float64 cumulative sums (same sums as the library): smallest j with
    cum_j >= z_k, written as a plain loop."""
    a = np.abs(np.asarray(w, dtype=np.float64))
    cum = np.cumsum(a)
    total = cum[-1]
    n = len(a)
    out = []
    for k in range(n):
        z = (k + zeta) / n * total
        j = 0
        while j < n - 1 and not cum[j] >= z:
            j += 1
        out.append(j)
    return out


class Analysis:
    def __init__(self, w, delta=DELTA, ties=True):
        self.w = [float(x) for x in w]
        N = self.N = len(self.w)
        self.a = [abs(Fraction(x)) for x in self.w]
        cum, s = [], Fraction(0)
        for x in self.a:
            s += x
            cum.append(s)
        self.cum = cum
        W = self.W = s
        if W == 0:
            raise ValueError("all-zero weight vector is outside the domain")
        self.target = [N * x / W for x in self.a]  # N |w_i| / W
        self.lo = [t.numerator // t.denominator for t in self.target]
        self.hi = [-((-t.numerator) // t.denominator) for t in self.target]
        bps = set()
        for j in range(N - 1):
            if 0 < cum[j] < W:
                t = N * cum[j] / W
                z = t - (t.numerator // t.denominator)
                if z > 0:
                    bps.add(z)
        self.breakpoints = sorted(bps)
        edges = [Fraction(0)] + self.breakpoints + [Fraction(1)]
        self.intervals = []
        mean = [Fraction(0)] * N
        for lo, hi in zip(edges[:-1], edges[1:]):
            mid = (lo + hi) / 2
            sel = comb_exact(cum, W, N, mid)
            cnt = [0] * N
            for j in sel:
                cnt[j] += 1
            length = hi - lo
            probes = []
            if length >= 4 * delta:
                for q in (lo + delta, mid, hi - delta):
                    f = float(q)
                    fq = Fraction(f)
                    if not (lo + delta / 2 <= fq <= hi - delta / 2):
                        raise AssertionError("float probe left its interval")
                    probes.append(f)
            self.intervals.append(dict(lo=lo, hi=hi, len=length, sel=sel, counts=cnt, probes=probes))
            for i in range(N):
                if cnt[i]:
                    mean[i] += length * cnt[i]
        self.mean_exact = mean
        self.unprobed_len = sum((I["len"] for I in self.intervals if not I["probes"]), Fraction(0))
        self.ties = self._robust_ties() if ties else []

    # ------------------------------------------------------------------ robust ties
    def _robust_ties(self):
        """Breakpoints b = float(b) where cumulative sums and both library formula orders
        (total*(k+zeta)/N  and  ((k+zeta)/N)*total) are exact for every tooth that touches a cumulative
        weight (the other teeth are > 1e-9 W away from all of them): no rounding takes part in any
        decision, so all implementations with one tie rule must agree there."""
        N, W = self.N, self.W
        cumf = np.cumsum(np.abs(np.asarray(self.w, dtype=np.float64)))
        if any(Fraction(float(c)) != e for c, e in zip(cumf, self.cum)):
            return []
        Wf = float(cumf[-1])
        out = []
        for b in self.breakpoints:
            zf = float(b)
            if Fraction(zf) != b:
                continue
            ok = True
            for k in range(N):
                t = k + zf
                if Fraction(t) != k + b:
                    ok = False
                    break
                exact = W * (k + b) / N
                if min(abs(exact - c) for c in self.cum) > W / 10 ** 9:
                    continue  # this tooth is far from every cumulative weight: rounding cannot matter
                p1 = Wf * t
                if Fraction(p1) != W * (k + b) or Fraction(p1 / N) != exact:
                    ok = False
                    break
                q1 = t / N
                if Fraction(q1) != (k + b) / N or Fraction(q1 * Wf) != exact:
                    ok = False
                    break
            if ok:
                out.append(zf)
        return out

    def counts_at(self, zeta_float):
        sel = comb_exact(self.cum, self.W, self.N, Fraction(zeta_float))
        cnt = [0] * self.N
        for j in sel:
            cnt[j] += 1
        return sel, cnt


def words(letters, N, first=()):
    """All words of length N over `letters` whose first len(first) letter indices are `first`, in
    lexicographic order of letter index (the catalogue lists simple letters first)."""
    import itertools

    L = len(letters)
    for tail in itertools.product(range(L), repeat=N - len(first)):
        yield tuple(first) + tail
