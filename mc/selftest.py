"""setup_cmd: nothing is compiled; run the reference-model self test and an import smoke test."""
import sys


def main():
    from mc import fock
    ok, errs = fock.selftest(verbose=True)
    print("fock selftest:", "ok" if ok else "FAILED")
    if not ok:
        return 2
    try:
        from ad_afqmc import config
        config.afqmc_config["use_mpi"] = False
        config.setup_jax()
        from ad_afqmc import wavefunctions, propagation, sampling, hamiltonian  # noqa
    except Exception as e:  # pragma: no cover
        print("import of ad_afqmc from /repo failed:", e)
        return 2
    print("ad_afqmc import: ok")
    return 0
