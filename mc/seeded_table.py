"""Prints the markdown table of seeded changes (from /verif/seeded/*/meta.json) for DESIGN.md section 9.4."""
import glob
import json
import os

ROOT = os.path.dirname(os.path.dirname(os.path.abspath(__file__)))


def main():
    rows = []
    for f in sorted(glob.glob(os.path.join(ROOT, "seeded", "C*", "meta.json"))):
        m = json.load(open(f))
        det = m.get("detected_by", [])
        sigs = []
        for c in det:
            sigs += m["checks"][c]["signatures"][:1]
        notes = m.get("needs_to_manifest", "").replace("\n", " ")
        rows.append((m["id"], m["property"], ", ".join(det) if det else "**missed**", (sigs[0] if sigs else "")[:90]))
    print("| seeded change | property | caught by (quick tier) | first signature |")
    print("|---|---|---|---|")
    for r in rows:
        print("| `%s` | %s | %s | `%s` |" % r)
    print()
    print("%d seeded changes, %d caught" % (len(rows), sum(1 for r in rows if "missed" not in r[2])))


if __name__ == "__main__":
    main()
