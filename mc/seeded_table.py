"""Prints the markdown table of seeded changes (from /verif/seeded/*/meta.json) for DESIGN.md section 9.4."""
import glob
import json
import os

ROOT = os.path.dirname(os.path.dirname(os.path.abspath(__file__)))


def main():
    notes = json.load(open(os.path.join(ROOT, "seeded", "_strengthening_notes.json")))["notes"]
    rows = []
    for f in sorted(glob.glob(os.path.join(ROOT, "seeded", "C*", "meta.json"))):
        m = json.load(open(f))
        det = m.get("detected_by", [])
        sigs = []
        for c in det:
            sigs += m["checks"][c]["signatures"][:1]
        nt = notes.get(m["id"], {})
        hist = {"observed_miss": "missed at first; ", "anticipated_miss": "would have been missed; ", "note": ""}.get(nt.get("kind"), "")
        rows.append((m["id"], m["property"], ", ".join(det) if det else "**missed**", (sigs[0] if sigs else "")[:80],
                     (hist + nt.get("strengthening", "")) if nt else ""))
    print("| seeded change | property | caught by (quick tier) | first signature | history |")
    print("|---|---|---|---|---|")
    for r in rows:
        print("| `%s` | %s | %s | `%s` | %s |" % r)
    print()
    print("%d seeded changes, %d caught" % (len(rows), sum(1 for r in rows if "missed" not in r[2])))


if __name__ == "__main__":
    main()
